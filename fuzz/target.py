#!/venv/bin/python
"""atheris (libFuzzer) target with the semantic oracle INSIDE the target.

usage: target.py <C02|C17> <artifact_dir> [libFuzzer args...]

The bytes are decoded to a source text (and a selector for the data set); the
property's own `check()` is the oracle, so a "crash" is a property violation, not just
an interpreter crash.  Buckets listed in LV_FUZZ_TOLERATE (JSON list of regexes) are
known findings and do not stop the campaign.
"""

from __future__ import annotations

import json
import os
import re
import sys

VERIF = os.path.dirname(os.path.dirname(os.path.abspath(__file__)))
sys.path[:0] = [os.environ.get("LV_REPO", "/repo"), VERIF, os.path.join(VERIF, ".deps")]

import atheris  # noqa: E402

with atheris.instrument_imports(include=["liquid2"]):
    import liquid2  # noqa: F401, E402

from lv.props import load_prop  # noqa: E402

HOSTILE = {
    "x": [1, "a", None, 2.5], "y": float("inf"), "n": 10 ** 30, "s": "50% %(x)s", "a": [], "h": {"a": {"b": [1, 2]}},
    "items": [{"title": "t", "price": float("nan")}, {}], "user": {"name": "<b>", "size": "x"}, "z": None,
}


def decode(data: bytes) -> dict:
    fdp = atheris.FuzzedDataProvider(data)
    mode = "async" if fdp.ConsumeBool() else "sync"
    src = fdp.ConsumeUnicodeNoSurrogates(300)
    return {"kind": "text", "src": src, "data": HOSTILE, "templates": {}, "mode": mode}


def main() -> None:
    prop_id, artifact_dir = sys.argv[1], sys.argv[2]
    prop = load_prop(prop_id)
    prop.setup_worker()
    tolerate = [re.compile(r) for r in json.loads(os.environ.get("LV_FUZZ_TOLERATE", "[]"))]

    def test_one_input(data: bytes) -> None:
        case = decode(data)
        res = prop.check(case)
        for f in res.failures:
            if any(r.fullmatch(f.bucket) for r in tolerate):
                continue
            import hashlib

            name = hashlib.sha1(data).hexdigest()[:16]
            with open(os.path.join(artifact_dir, f"case-{name}.json"), "w") as fd:
                json.dump({"case": case, "bucket": f.bucket, "detail": f.detail[:500]}, fd)
            raise RuntimeError(f"PROPERTY VIOLATION {f.bucket}: {f.detail[:300]}")

    argv = [sys.argv[0], f"-artifact_prefix={artifact_dir}/", *sys.argv[3:]]
    atheris.Setup(argv, test_one_input)
    atheris.Fuzz()


if __name__ == "__main__":
    main()
