"""Focused program strategies for C01: small ASTs that concentrate on one semantic area
(boolean structure, loop slicing and helper variables, hidden state, case, scoping) so that
the constructs whose meaning is easy to get subtly wrong occur in most cases rather than
in a few percent of the general grammar's output.  Hypothesis draws only; no liquid2 imports.
"""

from __future__ import annotations

from typing import Any

from hypothesis import strategies as st

from lv.model.c01_calibration import BRK
from lv.model.c01_calibration import CALL
from lv.model.c01_calibration import CAP
from lv.model.c01_calibration import CASE
from lv.model.c01_calibration import CMP
from lv.model.c01_calibration import CONT
from lv.model.c01_calibration import CYCLE
from lv.model.c01_calibration import DEC
from lv.model.c01_calibration import FALSE
from lv.model.c01_calibration import FOR
from lv.model.c01_calibration import IF
from lv.model.c01_calibration import INC
from lv.model.c01_calibration import MACRO
from lv.model.c01_calibration import NIL
from lv.model.c01_calibration import PART
from lv.model.c01_calibration import TRUE
from lv.model.c01_calibration import WITH
from lv.model.c01_calibration import A
from lv.model.c01_calibration import I
from lv.model.c01_calibration import O
from lv.model.c01_calibration import P
from lv.model.c01_calibration import R
from lv.model.c01_calibration import S
from lv.model.c01_calibration import T
from lv.model.c01_calibration import fl

ints = st.integers(-1, 4).map(I)
strs = st.sampled_from(["a", "b", "", "x", "apple", " ", "2"]).map(S)
int_vars = st.sampled_from([P("n"), P("m"), P("idx"), P("a-b"), P("nums", "size"), P("user", "age"), P("nums", 0), P("nums", -1)])
str_vars = st.sampled_from([P("s"), P("t"), P("é"), P("user", "name"), P("words", 0), P("words", "last"), P("key")])
bool_vals = st.sampled_from([TRUE, FALSE, P("flag"), NIL, P("z"), P("nosuch"), P("user", "nope"), P("items", 0, "ok")])
any_vals = st.one_of(bool_vals, ints, strs, int_vars, str_vars,
                     st.sampled_from([P("nums"), P("words"), P("items"), P("user"), P("user", "address"), P("grid", 0), ["float", "1.5"],
                                      ["float", "0.0"], I(0), S("")]))


@st.composite
def atom(draw: Any) -> Any:
    k = draw(st.integers(0, 9))
    if k <= 2:
        return draw(any_vals)
    if k <= 4:
        op = draw(st.sampled_from(["==", "!=", "<", ">", "<=", ">="]))
        pool = st.one_of(ints, int_vars) if draw(st.booleans()) else st.one_of(strs, str_vars)
        return CMP(op, draw(pool), draw(pool))
    if k <= 6:
        return CMP(draw(st.sampled_from(["==", "!="])), draw(any_vals), draw(any_vals))
    if k == 7:
        hay = draw(st.sampled_from([P("words"), P("nums"), P("s"), P("t"), S("apple pie"), P("user"), P("user", "name")]))
        needle = draw(st.one_of(strs, ints, str_vars, int_vars))
        return CMP("contains", hay, needle) if draw(st.booleans()) else CMP("in", needle, hay)
    return draw(bool_vals)


def cond(depth: int) -> Any:
    if depth <= 0:
        return atom()
    sub = cond(depth - 1)
    return st.one_of(
        atom(),
        st.tuples(st.sampled_from(["and", "or"]), sub, sub).map(list),
        st.tuples(st.sampled_from(["and", "or"]), sub, sub).map(list),
        sub.map(lambda c: ["not", c]),
        sub.map(lambda c: ["grp", c]),
    )


@st.composite
def flat_chain(draw: Any) -> Any:
    """`a and b or c and d ...` without parentheses, as the tree the documented precedence gives
    (and binds more tightly than or)."""
    simple = st.one_of(st.sampled_from([TRUE, FALSE, P("flag"), NIL, P("nosuch"), I(0), S("")]), atom())
    n = draw(st.integers(3, 5))
    terms = [draw(simple) for _ in range(n)]
    ops = [draw(st.sampled_from(["and", "or"])) for _ in range(n - 1)]
    groups: list[list[Any]] = [[terms[0]]]
    for op, t in zip(ops, terms[1:]):
        if op == "and":
            groups[-1].append(t)
        else:
            groups.append([t])

    def chain(op: str, xs: list[Any]) -> Any:
        return xs[0] if len(xs) == 1 else [op, xs[0], chain(op, xs[1:])]

    return chain("or", [chain("and", g) for g in groups])


@st.composite
def focus_cond(draw: Any) -> list[Any]:
    c = draw(flat_chain()) if draw(st.integers(0, 9)) < 4 else draw(cond(3))
    k = draw(st.integers(0, 3))
    if k == 0:
        return [IF(c, [T("T")], [T("F")])]
    if k == 1:
        return [IF(c, [T("1")], [T("F")], [[draw(cond(2)), [T("2")]], [draw(cond(1)), [T("3")]]][: draw(st.integers(1, 2))],
                   t=draw(st.sampled_from(["if", "unless"])))]
    if k == 2:
        return [O(["ternary", S("T"), c, S("F") if draw(st.booleans()) else None, [], []]), T("|"),
                IF(c, [T("t")], t="unless")]
    return [A("v", P("items"), fl("where", ["lambda", ["x"], c])), O(P("v", "size")),
            IF(c, [O(P("n"))], [O(P("s"))])]


ITERABLES = [P("nums"), P("words"), P("items"), P("user"), P("grid"), R(1, 5), R(0, P("m")), R(P("idx"), 3), P("nosuch"),
             P("grid", 0), P("s"), ["array", [P("n"), S("x"), TRUE]], P("items", 0, "tags"), R(1, 6)]
LOOPVARS = ["i", "x", "it"]
FL_PROPS = ["index", "index0", "rindex", "rindex0", "first", "last", "length"]


@st.composite
def one_loop(draw: Any, depth: int, lvars: list[str] | None = None, its: list[Any] | None = None) -> dict[str, Any]:
    var = draw(st.sampled_from(lvars or LOOPVARS))
    it = draw(st.sampled_from(its or ITERABLES))
    body: list[Any] = []
    if draw(st.integers(0, 3)) == 0:
        body.append(IF(CMP(draw(st.sampled_from(["==", ">", ">="])), P("forloop", draw(st.sampled_from(["index", "index0", "rindex"]))),
                           I(draw(st.integers(0, 3)))), [draw(st.sampled_from([BRK, CONT]))]))
    shown = draw(st.lists(st.sampled_from(FL_PROPS), min_size=0, max_size=3))
    if it[0] == "path" and it[1] in ("items", "user") and not it[2]:
        body.append(O(P(var, 0) if it[1] == "user" else P(var, "title")))
    elif it == P("grid"):
        body.append(O(P(var), fl("join", S("."))))
    else:
        body.append(O(P(var)))
    for pr in shown:
        body += [T("."), O(P("forloop", pr))]
    if depth > 0 and draw(st.integers(0, 3)) == 0:
        inner = draw(one_loop(depth - 1))
        inner["body"].append(O(P("forloop", "parentloop", draw(st.sampled_from(["index", "rindex0", "length", "first"])))))
        body.append(inner)
    body.append(T(draw(st.sampled_from([",", " ", ";\n"]))))
    opts: dict[str, Any] = {}
    if it[0] != "array":
        if draw(st.integers(0, 2)) == 0:
            opts["limit"] = draw(st.one_of(st.integers(0, 4).map(I), st.sampled_from([P("m"), P("idx")])))
        r = draw(st.integers(0, 5))
        if r <= 1:
            opts["offset"] = "continue"
        elif r == 2:
            opts["offset"] = draw(st.one_of(st.integers(0, 3).map(I), st.sampled_from([P("m"), P("idx")])))
        if draw(st.integers(0, 3)) == 0:
            opts["reversed"] = True
    els = [T("E")] if draw(st.integers(0, 2)) == 0 else None
    return FOR(var, it, body, els, **opts)


@st.composite
def focus_loops(draw: Any) -> list[Any]:
    out: list[Any] = []
    # few names and iterables per program, so that loops share their `offset: continue` key
    lvars = draw(st.lists(st.sampled_from(LOOPVARS), min_size=1, max_size=2))
    its = draw(st.lists(st.sampled_from(ITERABLES), min_size=1, max_size=2))
    for _ in range(draw(st.integers(1, 4))):
        out.append(draw(one_loop(1, lvars, its)))
        if draw(st.integers(0, 5)) == 0:
            out.append(A("nums", P("words")) if draw(st.booleans()) else A("m", I(draw(st.integers(0, 3)))))
        out.append(T("|"))
    return out


NAMES = ["c", "d", "n", "v"]


@st.composite
def focus_state(draw: Any) -> list[Any]:
    out: list[Any] = []
    items_pool = [[S("a"), S("b")], [S("a"), S("b"), S("c")], [I(1), I(2)], [S("a"), S("b")], [P("s"), P("t")], [TRUE, NIL, S("x")]]
    for _ in range(draw(st.integers(3, 9))):
        k = draw(st.integers(0, 9))
        nm = draw(st.sampled_from(NAMES))
        if k <= 1:
            out.append(INC(nm))
        elif k <= 3:
            out.append(DEC(nm))
        elif k <= 5:
            out.append(CYCLE(*draw(st.sampled_from(items_pool)), group=draw(st.sampled_from([None, None, "g", "h", "a b"]))))
        elif k == 6:
            out.append(O(P(nm)))
        elif k == 7:
            out.append(A(nm, draw(st.one_of(ints, strs))))
        elif k == 8:
            out.append(CAP(nm, T("<"), draw(st.sampled_from([INC("c"), DEC("d"), O(P("v")), CYCLE(S("a"), S("b"))])), T(">")))
        else:
            body = [draw(st.sampled_from([INC(nm), DEC(nm), CYCLE(S("a"), S("b")), CYCLE(S("a"), S("b"), group="g"), O(P(nm))])), T(",")]
            out.append(FOR("i", R(1, draw(st.integers(1, 3))), body))
        out.append(T(" "))
    return out


@st.composite
def focus_case(draw: Any) -> list[Any]:
    pool = st.one_of(ints, strs, int_vars, str_vars, st.sampled_from([NIL, TRUE, FALSE, P("nosuch"), P("nums"), ["float", "1.0"], ["empty"], ["blank"]]))
    subj = draw(pool)
    whens = []
    for j in range(draw(st.integers(0, 3))):
        vals = draw(st.lists(pool, min_size=1, max_size=3))
        body = draw(st.sampled_from([[T(f"w{j}")], [], [T(" ")], [A("v", I(j))], [O(P("nosuch"))]]))
        whens.append([vals, body])
    els = draw(st.sampled_from([None, [T("E")], [T("E")], [T("  ")]]))
    return [T("["), CASE(subj, whens, els, lead=draw(st.sampled_from(["", "\n ", " "]))), T("]"), O(P("v"))]


@st.composite
def focus_scope(draw: Any) -> tuple[list[Any], dict[str, list[Any]]]:
    """Shadowing between globals, assigns, with, loop variables, include/render arguments and macros."""
    names = ["n", "s", "p", "v"]
    show = [O(P(x)) for x in names]
    probe = lambda: [T("("), *[y for x in show for y in (x, T(","))], T(")")]  # noqa: E731
    templates = {"card": probe() + [A(draw(st.sampled_from(names)), S("in-card"))] + ([O(P("card"))] if draw(st.booleans()) else [])}
    out: list[Any] = []
    mac = MACRO("mac", [["p", None], ["v", draw(st.sampled_from([None, S("dflt"), I(7)]))]], *probe(), O(P("args"), fl("join", S("+"))),
                FOR("kv", P("kwargs"), [O(P("kv", 0)), T("="), O(P("kv", 1))]))
    out.append(mac)
    for _ in range(draw(st.integers(2, 6))):
        k = draw(st.integers(0, 7))
        nm = draw(st.sampled_from(names))
        val = draw(st.one_of(ints, strs, st.sampled_from([P("m"), P("t"), NIL])))
        if k == 0:
            out.append(A(nm, val))
        elif k == 1:
            out.append(WITH([[nm, val]], *probe(), A(draw(st.sampled_from(names)), S("in-with")), *probe()))
        elif k == 2:
            out.append(FOR(nm, R(1, 2), probe() + [A(nm, S("in-for"))]))
        elif k == 3:
            out.append(PART("include", "card", args=[[nm, val]]))
        elif k == 4:
            out.append(PART("render", "card", args=[[nm, val]]))
        elif k == 5:
            form = draw(st.sampled_from(["include", "render"]))
            out.append(PART(form, "card", draw(st.sampled_from([P("nums"), val, P("words"), R(1, 2)])), loop=draw(st.booleans()),
                            alias=draw(st.sampled_from([None, nm]))))
        elif k == 6:
            nargs = draw(st.integers(0, 3))
            kw = [[draw(st.sampled_from(["v", "p", "extra", "other"])), val]] if draw(st.booleans()) else []
            out.append(CALL("mac", [draw(st.one_of(ints, strs)) for _ in range(nargs)], kw))
        else:
            out.append(CAP(nm, *probe()))
        out += probe()
    return out, templates


KEYS = ["title", "price", "ok", "qty", "tags", "missing"]


@st.composite
def focus_hashes(draw: Any) -> list[Any]:
    """Array-of-hash filters with string keys and lambdas, chained and looped over."""
    key = draw(st.sampled_from(KEYS))
    val = draw(st.one_of(ints, strs, st.sampled_from([TRUE, FALSE, NIL, P("s"), P("m"), P("nosuch")])))
    par = draw(st.sampled_from(["x", "it"]))
    pred = draw(st.sampled_from([
        CMP("==", P(par, key), val), CMP("!=", P(par, key), val), P(par, key), CMP(">", P(par, "qty"), I(1)),
        CMP("contains", P(par, "tags"), S("apple")), ["and", P(par, "ok"), CMP("<=", P(par, "qty"), P("m"))],
        ["or", CMP("==", P(par, "title"), P("s")), ["not", P(par, "ok")]], CMP(">=", P("j"), I(1))]))
    params = [par, "j"] if draw(st.booleans()) else [par]
    if "j" not in params and pred == CMP(">=", P("j"), I(1)):
        params = [par, "j"]
    name = draw(st.sampled_from(["where", "reject", "find", "find_index", "has", "map", "sort", "sort_natural", "uniq", "compact", "sum"]))
    form = draw(st.integers(0, 2))
    if name in ("where", "reject", "find", "find_index", "has"):
        f = fl(name, S(key)) if form == 0 else fl(name, S(key), val) if form == 1 else fl(name, ["lambda", params, pred])
    else:
        f = fl(name, S(key)) if form <= 1 else fl(name, ["lambda", params, P(par, key)])
    src = draw(st.sampled_from([P("items"), P("items"), X_items_rev()]))
    out: list[Any] = [A("v", src, f)]
    if name in ("where", "reject", "sort", "sort_natural", "uniq", "compact"):
        out += [FOR("h", P("v"), [O(P("h", "title")), T("/"), O(P("h", "qty")), T(";")], [T("none")]), O(P("v", "size"))]
    elif name == "map":
        out += [O(P("v"), fl("join", S(","))), T("|"), O(P("v"), fl("compact"), fl("size"))]
    elif name == "find":
        out += [O(P("v", "title")), T("/"), O(P("v", "price"))]
    else:
        out += [T("["), O(P("v")), T("]"), IF(P("v"), [T("y")], [T("n")])]
    return out


def X_items_rev() -> Any:
    return ["filtered", P("items"), [fl("reverse")]]


mark = st.sampled_from(["", "", "-", "~", "+"])
marks2 = st.lists(mark, min_size=2, max_size=2)
ws_run = st.text(alphabet=" \n\t\r", max_size=3)


@st.composite
def ws_text(draw: Any) -> dict[str, Any]:
    s = draw(ws_run) + draw(st.sampled_from(["", "a", "b.", "x y"])) + draw(ws_run)
    return T(s or " ")


@st.composite
def ws_block(draw: Any, depth: int) -> list[Any]:
    out: list[Any] = []
    for _ in range(draw(st.integers(1, 4))):
        k = draw(st.integers(0, 15 if depth > 0 else 9))
        if k <= 3:
            if not (out and out[-1]["t"] == "text"):
                out.append(draw(ws_text()))
        elif k == 4:
            out.append(O(S("V"), wc=draw(marks2)))
        elif k == 5:
            out.append(A("v", I(1), wc=draw(marks2)))
        elif k == 6:
            out.append({"t": "comment", "kind": draw(st.sampled_from(["hash", "inline", "block"])), "s": " c ", "hashes": 1,
                        "wc": draw(marks2), "wc2": draw(marks2)})
        elif k == 7:
            out.append({"t": "raw", "s": draw(ws_run) + draw(st.sampled_from(["", "r"])) + draw(ws_run),
                        "wc4": draw(st.lists(mark, min_size=4, max_size=4))})
        elif k == 8:
            out.append({"t": "liquid", "body": [{"t": "echo", "e": S("L"), "wc": ["", ""]}][: draw(st.integers(0, 1))] + [A("w", I(2))],
                        "wc": draw(marks2)})
        elif k == 9:
            out.append({"t": draw(st.sampled_from(["increment", "echo"])), "name": "c", "e": S("E"), "wc": draw(marks2)})
        elif k in (10, 11):
            s_ = IF(draw(st.sampled_from([TRUE, FALSE, P("flag")])), draw(ws_block(depth - 1)),
                    draw(ws_block(depth - 1)) if draw(st.booleans()) else None,
                    [[draw(st.sampled_from([TRUE, FALSE])), draw(ws_block(depth - 1))]] if draw(st.integers(0, 2)) == 0 else None,
                    t=draw(st.sampled_from(["if", "if", "unless"])), wc=draw(marks2), wc_end=draw(marks2), wc_else=draw(marks2))
            s_["wc_elsifs"] = [draw(marks2) for _ in s_["elsifs"]]
            out.append(s_)
        elif k == 12:
            f = FOR("i", R(1, draw(st.integers(0, 2))), draw(ws_block(depth - 1)),
                    draw(ws_block(depth - 1)) if draw(st.booleans()) else None, wc=draw(marks2), wc_end=draw(marks2))
            f["wc_else"] = draw(marks2)
            out.append(f)
        elif k == 13:
            c = CASE(I(draw(st.integers(1, 3))), [[[I(1)], draw(ws_block(depth - 1))], [[I(2), I(1)], draw(ws_block(depth - 1))]][: draw(st.integers(1, 2))],
                     draw(ws_block(depth - 1)) if draw(st.booleans()) else None, lead=draw(st.sampled_from(["", " ", "\n"])), wc=draw(marks2))
            c["wc_whens"] = [draw(marks2) for _ in c["whens"]]
            c["wc_else"] = draw(marks2)
            c["wc_end"] = draw(marks2)
            out.append(c)
        elif k == 14:
            out.append(CAP("cap", *draw(ws_block(depth - 1)), wc=draw(marks2), wc_end=draw(marks2)))
            out.append(O(P("cap"), wc=draw(marks2)))
        else:
            w = WITH([["p", I(1)]], *draw(ws_block(depth - 1)))
            w["wc"], w["wc_end"] = draw(marks2), draw(marks2)
            out.append(w)
    return out


@st.composite
def focus_ws(draw: Any) -> list[Any]:
    return draw(ws_block(2))


@st.composite
def focus_program(draw: Any) -> dict[str, Any]:
    k = draw(st.integers(0, 14))
    if k >= 13:
        return {"main": draw(focus_hashes()), "templates": {}}
    if k >= 10:
        return {"main": draw(focus_ws()), "templates": {}}
    templates: dict[str, list[Any]] = {}
    if k <= 2:
        main = draw(focus_cond())
    elif k <= 5:
        main = draw(focus_loops())
    elif k <= 7:
        main = draw(focus_state())
    elif k == 8:
        main = draw(focus_case())
    else:
        main, templates = draw(focus_scope())
    return {"main": main, "templates": templates}
