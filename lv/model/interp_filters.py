"""Reference definitions of the documented core filters for the C01 interpreter.

Each definition is a few lines written from docs/filter_reference.md and the CTS golden
cases; helper arithmetic/string surgery comes from c19_model (also docs-derived).  Input
shapes the documentation does not cover raise `Undoc`.  No liquid2 imports.
"""

from __future__ import annotations

import decimal
import math
import re
from decimal import Decimal
from fractions import Fraction
from typing import Any
from typing import Callable

from lv.model import c19_model as M
from lv.model.interp_values import EMPTY
from lv.model.interp_values import UNDEF
from lv.model.interp_values import ForLoop
from lv.model.interp_values import OtherErr
from lv.model.interp_values import Range
from lv.model.interp_values import Special
from lv.model.interp_values import TypeErr
from lv.model.interp_values import Undoc
from lv.model.interp_values import deep_eq
from lv.model.interp_values import is_nil
from lv.model.interp_values import is_num
from lv.model.interp_values import liquid_eq
from lv.model.interp_values import to_str
from lv.model.interp_values import truthy

Lam = Callable[[Any, int], Any]

D28 = decimal.Context(prec=28)

# generator flags switched off by active known findings (set by interp.render for one run)
ACTIVE_KNOWN: frozenset[str] = frozenset()


def _plain(v: Any) -> Any:
    if isinstance(v, (Special, ForLoop)):
        raise Undoc("filter on empty/blank/forloop")
    return v


def s_of(v: Any) -> str:
    return to_str(_plain(v))


# --------------------------------------------------------------------------- numbers


def num_of(v: Any) -> int | float:
    """docs: strings are cast to an integer or float; failing that 0 is used."""
    v = _plain(v)
    if isinstance(v, bool):
        raise Undoc("bool as a number")
    if isinstance(v, int):
        return v
    if isinstance(v, float):
        if not math.isfinite(v):
            raise Undoc("non-finite float")
        return v
    if isinstance(v, str):
        if M.INT_RE.fullmatch(v):
            return int(v)
        if M.DEC_RE.fullmatch(v):
            return float(v)
        if not any(ch.isdigit() for ch in v) and v.strip().lower().lstrip("+-") not in ("inf", "infinity", "nan"):
            return 0
        raise Undoc("number-like string outside the documented spellings")
    if is_nil(v) or (isinstance(v, dict) and not v):
        return 0
    raise Undoc(f"{type(v).__name__} as a number")


def _dec(v: int | float) -> Decimal:
    return Decimal(repr(v)) if isinstance(v, float) else Decimal(v)


def _to_float(d: Decimal, digits: int, neg: bool = False) -> float:
    if digits > M.IMPL_DIGITS:
        raise Undoc("decimal result beyond 28 significant digits")
    if d != 0 and not M.representable(Fraction(d)):
        raise Undoc("result outside the double range")
    f = float(d)
    if f == 0 and (d.is_signed() or neg):
        raise Undoc("sign of a float zero")
    if abs(f) >= 1e16 or (f != 0 and abs(f) < 1e-4):
        raise Undoc("float printed with exponent")
    return f


def arith(op: str, left: Any, arg: Any) -> Any:
    a, b = num_of(left), num_of(arg)
    if isinstance(a, int) and isinstance(b, int):
        return {"plus": a + b, "minus": a - b, "times": a * b}[op]
    r, digits = M.dec_op(op, _dec(a), _dec(b))
    return _to_float(r, digits, a < 0 or b < 0)


def _divisor(arg: Any) -> int | float:
    """docs: 'If the argument can't be converted, an exception is raised.'"""
    a = _plain(arg)
    if is_nil(a):
        raise OtherErr("undefined divisor")
    if isinstance(a, str) and not (M.INT_RE.fullmatch(a) or M.DEC_RE.fullmatch(a)):
        if not any(ch.isdigit() for ch in a):
            raise OtherErr("divisor is not a number")
        raise Undoc("number-like divisor")
    return num_of(a)


def f_divided_by(left: Any, arg: Any) -> Any:
    b = _divisor(arg)
    a = num_of(left)
    if isinstance(b, int) and b == 0:
        raise OtherErr("division by zero")
    if b == 0:
        raise Undoc("division by float zero")
    if isinstance(a, int) and isinstance(b, int):
        return a // b
    if isinstance(b, int):
        # docs: 'rounded down to the nearest integer if the divisor is an integer' but CTS shows
        # 9.0 / 2 = 4.5: the two disagree only for a float dividend
        pass
    q1 = float(a) / float(b)
    q2 = float(D28.divide(_dec(a), _dec(b)))
    if repr(q1) != repr(q2):
        raise Undoc("float division: binary and decimal quotients differ")
    if q1 == 0 and (a < 0 or b < 0):
        raise Undoc("sign of a float zero")
    if q1 != 0 and (abs(q1) >= 1e16 or abs(q1) < 1e-4):
        raise Undoc("float printed with exponent")
    return q1


def f_modulo(left: Any, arg: Any) -> Any:
    b = _divisor(arg)
    a = num_of(left)
    if isinstance(b, int) and b == 0:
        raise OtherErr("modulo by zero")
    if b == 0:
        raise Undoc("modulo by float zero")
    if isinstance(a, int) and isinstance(b, int):
        return a - b * (a // b)
    if (a < 0) != (b < 0) and a != 0:
        raise Undoc("float modulo with mixed signs")
    if isinstance(a, float) and a == 0 and math.copysign(1.0, a) < 0:
        raise Undoc("modulo of negative zero: the sign of the zero result is not documented")
    fa, fb = M.exact(a), M.exact(b)
    if abs(fa / fb) >= 10**15:
        raise Undoc("modulo quotient too large")
    want = fa - fb * M.floor_frac(fa / fb)
    wd = M.frac_to_dec(want)
    return _to_float(wd, len(wd.normalize(M.HP).as_tuple().digits), a < 0 or b < 0)


def f_abs(left: Any) -> Any:
    return abs(num_of(left))


def f_minmax(name: str, left: Any, arg: Any) -> Any:
    a, b = num_of(left), num_of(arg)
    if a == b and type(a) is not type(b):
        raise Undoc("at_least/at_most tie between int and float")
    return (max if name == "at_least" else min)(a, b)


def f_ceil_floor(name: str, left: Any) -> int:
    n = num_of(left)
    fn = M.ceil_frac if name == "ceil" else M.floor_frac
    want = fn(Fraction(n))
    if fn(M.exact(n)) != want:
        raise Undoc("spelling vs double")
    return want


def f_round(left: Any, arg: Any) -> Any:
    n = num_of(left)
    d = 0 if arg is None else num_of(arg)
    if isinstance(d, float):
        raise Undoc("round: float digits")
    if isinstance(n, int):
        if d < 0:
            raise Undoc("round: integer input with negative digits")
        return n
    if d < 0:
        return 0  # CTS 'round, argument is a negative'
    if d > 12:
        raise Undoc("round: many digits")
    scaled = M.exact(n) * 10**d
    frac = scaled - M.floor_frac(scaled)
    ulp = Fraction(math.ulp(float(n)))
    if abs(frac - Fraction(1, 2)) * Fraction(1, 10**d) <= 4 * ulp:
        raise Undoc("round: tie")
    want = _dec(n).quantize(Decimal(1).scaleb(-d), rounding=decimal.ROUND_HALF_EVEN)
    if d == 0:
        return int(want)
    return _to_float(want, len(want.as_tuple().digits))


# --------------------------------------------------------------------------- sequences


def seq_of(v: Any, *, chars: bool = False, flat: bool = False, what: str = "") -> list[Any]:
    """docs: 'If the input is not an array, Liquid will convert it to one.'  Strings are
    sequences of characters only where the docs/CTS show it (chars=True)."""
    v = _plain(v)
    if isinstance(v, list):
        if any(isinstance(i, list) for i in v):
            if flat:
                return M.flatten(v)
            raise Undoc(f"{what}: nested array input")
        return list(v)
    if isinstance(v, Range):
        return v.items()
    if v is None:
        # the docs convert "input that is not an array" to one without saying whether nil becomes []
        # (the reference implementation) or [nil]; only an undefined variable is pinned (CTS) to []
        raise Undoc(f"{what}: nil input")
    if is_nil(v):
        return []
    if isinstance(v, str):
        if chars:
            return list(v)
        raise Undoc(f"{what}: string input")
    if isinstance(v, dict):
        return [v]
    raise Undoc(f"{what}: {type(v).__name__} input")


def _prop(item: Any, key: Any, what: str) -> Any:
    if not isinstance(key, str):
        raise Undoc(f"{what}: non-string key")
    if isinstance(item, dict):
        return item.get(key)
    raise Undoc(f"{what}: non-hash item")


def _keyfn(what: str, key: Any, lam: Lam | None) -> Callable[[Any, int], Any] | None:
    if lam is not None:
        return lambda item, i: _nn(lam(item, i))
    if key is None or key is UNDEF:
        return None
    return lambda item, _i: _prop(item, key, what)


def _nn(v: Any) -> Any:
    return None if v is UNDEF else v


def f_sort(name: str, left: Any, key: Any, lam: Lam | None) -> list[Any]:
    items = seq_of(left, chars=(name == "sort" and key is None and lam is None), what=name)
    kf = _keyfn(name, key, lam)
    keys = [kf(it, i) if kf else it for i, it in enumerate(items)]
    present = [(k, i) for i, k in enumerate(keys) if k is not None]
    missing = [i for i, k in enumerate(keys) if k is None]
    if missing and (kf is None or any(not isinstance(items[i], dict) for i in missing)):
        raise Undoc(f"{name}: nil items / nil keys of non-hash items")
    if kf is not None and lam is None and any(isinstance(it, dict) and key in it and it[key] is None for it in items):
        raise Undoc(f"{name}: explicit nil keys")
    if lam is not None and any(lam(it, i) is None for i, it in enumerate(items)):
        raise Undoc(f"{name}: explicit nil keys")
    if lam is not None and missing and present:
        raise Undoc(f"{name}: lambda key missing for some items only")
    if missing and present and not all(isinstance(k, str) for k, _ in present):
        raise Undoc(f"{name}: missing keys among non-string keys (CTS only shows strings)")
    ks = [k for k, _ in present]
    if name == "sort":
        if not (all(is_num(k) for k in ks) or all(isinstance(k, str) for k in ks)):
            raise Undoc("sort: mixed or unordered key types")
        norm = ks
    elif name == "sort_natural":
        if any(isinstance(k, (list, dict, float)) for k in ks):
            raise Undoc("sort_natural: composite/float keys")
        norm = [to_str(k).lower() for k in ks]
    else:
        if not all(is_num(k) for k in ks):
            raise Undoc("sort_numeric: non-number keys")
        norm = ks
    # ties between distinguishable items: the order is not documented
    seen: dict[Any, int] = {}
    for nk, (_k, i) in zip(norm, present):
        if nk in seen and not _same(items[seen[nk]], items[i]):
            raise Undoc(f"{name}: tie between distinguishable items")
        seen.setdefault(nk, i)
    order = sorted(range(len(present)), key=lambda j: norm[j])
    return [items[present[j][1]] for j in order] + [items[i] for i in missing]


def _same(a: Any, b: Any) -> bool:
    if isinstance(a, float) and isinstance(b, float):
        return repr(a) == repr(b)
    return type(a) is type(b) and a == b and repr(a) == repr(b)


def f_uniq(left: Any, key: Any, lam: Lam | None) -> list[Any]:
    items = seq_of(left, what="uniq")
    if key is UNDEF and lam is None:
        raise Undoc("uniq: undefined key argument")  # the CTS shows it for sort / sort_natural / map only
    kf = _keyfn("uniq", key, lam)
    if kf is not None:
        # (with a lambda the key of ANY item can be undefined, e.g. `x => x` over an array holding a missing value)
        absent = [(lam(it, i) is UNDEF) if lam is not None else (isinstance(it, dict) and key not in it)
                  for i, it in enumerate(items)]
        null = [not a and is_nil(kf(it, i)) for i, (it, a) in enumerate(zip(items, absent))]
        if any(absent) and any(null):
            raise Undoc("uniq: both missing and explicit nil keys")
    out: list[Any] = []
    seen: list[Any] = []
    for i, it in enumerate(items):
        k = kf(it, i) if kf else it
        dup = False
        for s in seen:
            if is_num(s) and is_num(k) and s == k and type(s) is not type(k):
                raise Undoc("uniq: int/float duplicates")
            if isinstance(s, bool) != isinstance(k, bool) and (is_num(s) or is_num(k)) and s == k:
                raise Undoc("uniq: bool/number duplicates")
            if type(s) is type(k) and deep_eq(s, k) or (is_nil(s) and is_nil(k)):
                dup = True
                break
        if not dup:
            seen.append(k)
            out.append(it)
    return out


def f_compact(left: Any, key: Any, lam: Lam | None) -> list[Any]:
    items = seq_of(left, what="compact")
    if key is UNDEF and lam is None:
        raise Undoc("compact: undefined key argument")
    kf = _keyfn("compact", key, lam)
    if any(it is UNDEF for it in items):
        raise Undoc("compact: undefined (not nil) item")
    return [it for i, it in enumerate(items) if not is_nil(kf(it, i) if kf else it)]


def f_map(left: Any, key: Any, lam: Lam | None) -> list[Any]:
    v = _plain(left)
    if not isinstance(v, (list, dict)):
        raise Undoc("map: non-array input")
    items = seq_of(v, flat=True, what="map")
    out = []
    for i, it in enumerate(items):
        if lam is not None:
            r = lam(it, i)
            if r is UNDEF and "map_missing_property" in ACTIVE_KNOWN:
                raise Undoc("known:map_missing_property")
            out.append(_nn(r))
        elif key is UNDEF or key is None:
            out.append(None)  # CTS 'map, undefined argument'
        elif isinstance(it, dict):
            if "map_missing_property" in ACTIVE_KNOWN and isinstance(key, str) and key not in it:
                raise Undoc("known:map_missing_property")
            out.append(_prop(it, key, "map"))
        elif isinstance(it, int) and not isinstance(it, bool):
            raise TypeErr("map: non-hash item")  # CTS 'array containing a non object'
        else:
            raise Undoc("map: non-hash item")
    return out


def _matcher(name: str, pos: list[Any], lam: Lam | None) -> Callable[[Any, int], bool]:
    if lam is not None:
        return lambda it, i: truthy(lam(it, i))
    if not pos:
        raise Undoc(f"{name}: missing argument")
    key = pos[0]
    if not isinstance(key, str):
        raise Undoc(f"{name}: non-string property")
    value = pos[1] if len(pos) > 1 else None
    if isinstance(value, (Special, ForLoop)):
        raise Undoc(f"{name}: special value")

    def match(it: Any, _i: int) -> bool:
        if it is None:
            if name == "reject":
                raise Undoc("reject: nil item")
            return False
        p = _prop(it, key, name)
        if is_nil(value):  # docs: 'If a second argument is not given, ... truthy'; CTS: explicit nil too
            return truthy(p)
        return liquid_eq(p, value)

    return match


def f_select(name: str, left: Any, pos: list[Any], lam: Lam | None) -> Any:
    v = _plain(left)
    if v is UNDEF:
        items: list[Any] = []  # CTS 'where, left value is undefined'
    elif isinstance(v, list):
        items = seq_of(v, what=name)
    else:
        raise Undoc(f"{name}: non-array input")
    m = _matcher(name, pos, lam)
    hits = [m(it, i) for i, it in enumerate(items)]
    if name == "where":
        return [it for it, h in zip(items, hits) if h]
    if name == "reject":
        return [it for it, h in zip(items, hits) if not h]
    if name == "has":
        return any(hits)
    for i, h in enumerate(hits):
        if h:
            return items[i] if name == "find" else i
    return None


def f_sum(left: Any, key: Any, lam: Lam | None) -> Any:
    v = _plain(left)
    if not isinstance(v, (list, Range)) and not is_nil(v):
        raise Undoc("sum: non-array input")
    items = seq_of(v, flat=True, what="sum")
    kf = _keyfn("sum", key, lam)
    total: int | float = 0
    for i, it in enumerate(items):
        if kf is not None and lam is None and not isinstance(it, dict):
            if isinstance(it, int) and not isinstance(it, bool):
                raise TypeErr("sum: property of a non-hash")  # CTS
            raise Undoc("sum: property of a non-hash")
        x = kf(it, i) if kf else it
        if is_nil(x) or isinstance(x, dict):
            continue
        if isinstance(x, str) and not (M.INT_RE.fullmatch(x) or M.DEC_RE.fullmatch(x)):
            raise Undoc("sum: non-numeric string")
        if isinstance(x, (bool, list, Range)):
            raise Undoc("sum: bool/array element")
        total = arith("plus", total, x)
    return total


def f_first_last(name: str, left: Any) -> Any:
    v = _plain(left)
    if v is UNDEF:
        return UNDEF  # docs say nil; nil and undefined differ only for json/compact, which is not asserted
    if isinstance(v, list):
        return (v[0] if name == "first" else v[-1]) if v else None
    if isinstance(v, Range):
        it = v.items()
        return (it[0] if name == "first" else it[-1]) if it else None
    if isinstance(v, dict):
        if name == "first" and v:
            k = next(iter(v))
            return [k, v[k]]
        return None
    return None  # docs: undefined, string or number -> nil


def f_join(left: Any, pos: list[Any]) -> str:
    if pos and isinstance(_plain(pos[0]), dict):
        raise Undoc("join: hash separator")  # the text of a non-empty hash is not documented
    sep = " " if not pos else s_of(pos[0])
    v = _plain(left)
    if isinstance(v, (list, Range, str)) or is_nil(v):
        return sep.join(s_of(i) for i in seq_of(v, chars=True, what="join"))
    if isinstance(v, dict):
        raise Undoc("join: hash input")
    return s_of(v)  # CTS 'joining an int is a noop'


def f_concat(left: Any, arg: Any) -> list[Any]:
    v = _plain(left)
    if isinstance(v, (bool, int, float)):
        head = [v]
    else:
        head = seq_of(v, chars=True, flat=True, what="concat")
    a = _plain(arg)
    if isinstance(a, list):
        return head + list(a)
    if isinstance(a, Range):
        raise Undoc("concat: range argument")
    if is_nil(a) or is_num(a):
        raise TypeErr("concat: argument is not an array")  # CTS
    raise Undoc("concat: argument type")


def f_reverse(left: Any) -> Any:
    v = _plain(left)
    if isinstance(v, str):
        return v  # docs: a string is returned unchanged
    if isinstance(v, (list, Range)) or is_nil(v):
        return list(reversed(seq_of(v, what="reverse")))
    raise Undoc("reverse: scalar/hash input")


def _int_arg(v: Any, what: str) -> int:
    v = _plain(v)
    if isinstance(v, bool) or isinstance(v, float):
        raise Undoc(f"{what}: bool/float")
    if isinstance(v, int):
        n = v
    elif isinstance(v, str) and M.INT_RE.fullmatch(v):
        n = int(v)
    else:
        raise Undoc(f"{what}: not an integer")
    if abs(n) > 10**9:
        raise Undoc(f"{what}: huge integer")
    return n


def f_slice(left: Any, pos: list[Any]) -> Any:
    if not pos:
        raise Undoc("slice: missing argument")
    v = _plain(left)
    start = _int_arg(pos[0], "slice start")
    length = 1
    if len(pos) > 1:
        if is_nil(pos[1]):
            raise Undoc("slice: explicit nil length")
        length = _int_arg(pos[1], "slice length")
    if is_nil(v):
        return ""
    if isinstance(v, Range):
        v = v.items()
    if not isinstance(v, (str, list)):
        raise Undoc("slice: non-sequence input")
    n = len(v)
    if start < -n:
        raise Undoc("slice: start before the beginning")
    s = start if start >= 0 else n + start
    if length < 0:
        raise Undoc("slice: negative length")
    return v[s:s + length]


def f_size(left: Any) -> int:
    v = _plain(left)
    if isinstance(v, (str, list, dict, Range)):
        return len(v)
    if is_nil(v):
        return 0
    raise Undoc("size: scalar input")


def f_default(left: Any, pos: list[Any], kw: dict[str, Any]) -> Any:
    dflt = pos[0] if pos else ""
    allow_false = truthy(kw["allow_false"]) if "allow_false" in kw else False
    v = _plain(left)  # the literal `empty` as input: CTS only shows it with an undefined default
    if isinstance(v, Range):
        raise Undoc("default: range input")
    if is_nil(v):
        return dflt
    if v is False:
        return v if allow_false else dflt
    if isinstance(v, (str, list, dict)) and len(v) == 0:
        return dflt
    return v


# --------------------------------------------------------------------------- strings

ENTITY_OK = re.compile(r"&(?:amp|lt|gt|quot|#39|#34);")


def f_escape(s: str) -> str:
    """docs: 'characters &, < and > converted to HTML-safe sequences' (the example also shows
    &#39; for a single quote, but no sentence covers quotes: not asserted)."""
    if "'" in s or '"' in s:
        raise Undoc("escape: quote characters")
    return s.replace("&", "&amp;").replace("<", "&lt;").replace(">", "&gt;")


def f_escape_once(s: str) -> str:
    out = []
    pos = 0
    for m in re.finditer(r"&[#\w]*;?", s):
        if ENTITY_OK.fullmatch(m.group()):
            out.append(f_escape(s[pos:m.start()]))
            out.append(m.group())
            pos = m.end()
        elif re.fullmatch(r"&[#\w]+;", m.group()):
            raise Undoc("escape_once: unusual entity")
    out.append(f_escape(s[pos:]))
    return "".join(out)


UNRESERVED = frozenset("ABCDEFGHIJKLMNOPQRSTUVWXYZabcdefghijklmnopqrstuvwxyz0123456789-._~")
RESERVED = frozenset(":/?#[]@!$&'()*,;=+")


def f_url_encode(s: str) -> str:
    out = []
    for ch in s:
        if ch in UNRESERVED:
            out.append(ch)
        elif ch == " ":
            out.append("+")
        elif ch in RESERVED:
            out.append("%%%02X" % ord(ch))
        else:
            raise Undoc("url_encode: character that is neither unreserved nor reserved")
    return "".join(out)


def f_url_decode(s: str) -> str:
    buf = bytearray()
    i = 0
    while i < len(s):
        ch = s[i]
        if ch == "%":
            hx = s[i + 1:i + 3]
            if len(hx) != 2 or not all(c in "0123456789abcdefABCDEF" for c in hx):
                raise Undoc("url_decode: malformed escape")
            buf.append(int(hx, 16))
            i += 3
            continue
        buf.extend((" " if ch == "+" else ch).encode("utf-8", "surrogatepass"))
        i += 1
    try:
        return buf.decode("utf-8")
    except UnicodeDecodeError:
        raise Undoc("url_decode: invalid utf-8") from None


def f_strip_html(s: str) -> str:
    if "<" not in s:
        return s
    if "<>" in s:
        raise Undoc("strip_html: '<>' is not a tag for an HTML parser, and is one for the reference's regular expression")
    low = s.lower()
    if "<!--" in s or "<script" in low or "<style" in low:
        raise Undoc("strip_html: comment/script/style")
    out = []
    i = 0
    while i < len(s):
        if s[i] == "<":
            nxt = s[i + 1 : i + 3]
            if not (nxt[:1].isascii() and nxt[:1].isalpha()) and not (
                nxt[:1] == "/" and nxt[1:2].isascii() and nxt[1:2].isalpha()
            ):
                # '<0>', '< a>', '<!x>': an HTML parser does not take these for tags, the reference's
                # regular expression does; "all HTML tags removed" does not decide
                raise Undoc("strip_html: '<' that does not start a tag name")
            j = i + 1
            while j < len(s) and s[j] not in "<>":
                j += 1
            if j >= len(s) or s[j] == "<":
                raise Undoc("strip_html: unclosed '<'")
            i = j + 1
        else:
            out.append(s[i])
            i += 1
    return "".join(out)


def _no_lone_cr(s: str, what: str) -> None:
    if "\r" in s.replace("\r\n", ""):
        raise Undoc(f"{what}: lone carriage return")


def f_strip(name: str, s: str) -> str:
    out, determined = M.ascii_strip(s, name != "rstrip", name != "lstrip")
    if not determined:
        raise Undoc("strip: unicode whitespace")
    return out


def f_case(name: str, s: str) -> str:
    if "Σ" in s or "İ" in s or "ß" in s:
        raise Undoc("case mapping: context dependent letters")
    if name == "upcase":
        return "".join(ch.upper() for ch in s)
    if name == "downcase":
        return "".join(ch.lower() for ch in s)
    if s and (s[0].upper() != s[0].title() or len(s[0].upper()) != 1):
        raise Undoc("capitalize: special first letter")
    return s[:1].upper() + "".join(ch.lower() for ch in s[1:])


def f_replace(name: str, s: str, pos: list[Any]) -> str:
    needle = s_of(pos[0])
    sub = s_of(pos[1]) if len(pos) > 1 else ""
    rm = name.startswith("remove")
    if needle == "":
        if rm:
            return s
        if s == "":
            raise Undoc("replace: empty needle and empty input")
    if name in ("replace", "remove"):
        return M.replace_all(s, needle, sub)
    if name.endswith("first"):
        return M.replace_first(s, needle, sub)
    return M.replace_last(s, needle, sub)


def f_truncate(s: str, pos: list[Any]) -> str:
    num = 50 if not pos else _int_arg(pos[0], "truncate length")
    end = "..." if len(pos) < 2 else s_of(pos[1])
    if num < 0:
        raise Undoc("truncate: negative length")
    if len(s) <= num:
        return s
    if num < len(end):
        raise Undoc("truncate: length shorter than the ellipsis")
    return s[:num - len(end)] + end


def f_truncatewords(s: str, pos: list[Any]) -> str:
    num = 15 if not pos else _int_arg(pos[0], "truncatewords count")
    end = "..." if len(pos) < 2 else s_of(pos[1])
    if any(ch.isspace() and ch not in M.ASCII_WS for ch in s):
        raise Undoc("truncatewords: unicode whitespace")
    if num < 0:
        raise Undoc("truncatewords: negative count")
    num = max(num, 1)  # CTS 'reference implementation test 5'
    words = M.words_of(s)
    if len(words) < num:
        return s
    if len(words) == num:
        raise Undoc("truncatewords: exact fit")
    return " ".join(words[:num]) + end


def f_json(v: Any, pos: list[Any]) -> str:
    if pos:
        raise Undoc("json: indent")

    def enc(x: Any) -> str:
        if x is None:
            return "null"
        if isinstance(x, bool):
            return "true" if x else "false"
        if isinstance(x, int):
            return str(x)
        if isinstance(x, float):
            return to_str(x)
        if isinstance(x, str):
            if all(" " <= ch <= "~" and ch not in '"\\' for ch in x):
                return '"' + x + '"'
            raise Undoc("json: string needing escapes")
        if isinstance(x, list):
            return "[" + ", ".join(enc(i) for i in x) + "]"
        raise Undoc("json: hash / other")

    return enc(_plain(v))


# --------------------------------------------------------------------------- dispatch

STRING_0 = {"capitalize", "downcase", "upcase", "lstrip", "rstrip", "strip", "strip_html", "strip_newlines",
            "newline_to_br", "escape", "escape_once", "url_encode", "url_decode"}
KEYED = {"sort", "sort_natural", "sort_numeric", "uniq", "compact", "map", "sum"}
SELECT = {"where", "reject", "find", "find_index", "has"}

ARITY = {
    "append": (1, 1), "prepend": (1, 1), "remove": (1, 1), "remove_first": (1, 1), "remove_last": (1, 1),
    "replace": (1, 2), "replace_first": (1, 2), "replace_last": (2, 2), "slice": (1, 2), "split": (1, 1),
    "truncate": (0, 2), "truncatewords": (0, 2), "size": (0, 0), "default": (0, 1), "join": (0, 1),
    "first": (0, 0), "last": (0, 0), "concat": (1, 1), "reverse": (0, 0), "abs": (0, 0), "at_least": (1, 1),
    "at_most": (1, 1), "ceil": (0, 0), "floor": (0, 0), "round": (0, 1), "plus": (1, 1), "minus": (1, 1),
    "times": (1, 1), "divided_by": (1, 1), "modulo": (1, 1), "json": (0, 1),
    "sort": (0, 1), "sort_natural": (0, 1), "sort_numeric": (0, 1), "uniq": (0, 1), "compact": (0, 1),
    "map": (1, 1), "sum": (0, 1), "where": (1, 2), "reject": (1, 2), "find": (1, 2), "find_index": (1, 2),
    "has": (1, 2),
}
for _n in STRING_0:
    ARITY[_n] = (0, 0)

MODEL_FILTERS = sorted(ARITY)


def apply_filter(name: str, left: Any, pos: list[Any], kw: dict[str, Any], lam: Lam | None) -> Any:  # noqa: PLR0911, PLR0912
    if name not in ARITY:
        raise Undoc(f"filter {name}")
    lo, hi = ARITY[name]
    n_args = len(pos) + (1 if lam is not None else 0)
    if not lo <= n_args <= hi:
        raise Undoc(f"{name}: argument count")
    if kw and not (name == "default" and set(kw) == {"allow_false"}):
        raise Undoc(f"{name}: keyword arguments")
    if lam is not None and name not in KEYED | SELECT:
        raise Undoc(f"{name}: lambda argument")
    for a in pos:
        if isinstance(a, ForLoop):
            raise Undoc("forloop as an argument")
    if name in STRING_0:
        s = s_of(left)
        if name in ("capitalize", "downcase", "upcase"):
            return f_case(name, s)
        if name in ("lstrip", "rstrip", "strip"):
            return f_strip(name, s)
        if name == "strip_html":
            return f_strip_html(s)
        if name == "strip_newlines":
            _no_lone_cr(s, name)
            return s.replace("\r\n", "").replace("\n", "")
        if name == "newline_to_br":
            _no_lone_cr(s, name)
            return s.replace("\r\n", "\n").replace("\n", "<br />\n")
        if name == "escape":
            return f_escape(s)
        if name == "escape_once":
            return f_escape_once(s)
        if name == "url_encode":
            return f_url_encode(s)
        return f_url_decode(s)
    if name == "append":
        return s_of(left) + s_of(pos[0])
    if name == "prepend":
        return s_of(pos[0]) + s_of(left)
    if name in ("remove", "remove_first", "remove_last", "replace", "replace_first", "replace_last"):
        return f_replace(name, s_of(left), pos)
    if name == "slice":
        return f_slice(left, pos)
    if name == "split":
        return M.split_def(s_of(left), s_of(pos[0]))
    if name == "truncate":
        return f_truncate(s_of(left), pos)
    if name == "truncatewords":
        return f_truncatewords(s_of(left), pos)
    if name == "size":
        return f_size(left)
    if name == "default":
        return f_default(left, pos, kw)
    if name == "join":
        return f_join(left, pos)
    if name in ("first", "last"):
        return f_first_last(name, left)
    if name == "concat":
        return f_concat(left, pos[0])
    if name == "reverse":
        return f_reverse(left)
    if name == "abs":
        return f_abs(left)
    if name in ("at_least", "at_most"):
        return f_minmax(name, left, pos[0])
    if name in ("ceil", "floor"):
        return f_ceil_floor(name, left)
    if name == "round":
        return f_round(left, pos[0] if pos else None)
    if name in ("plus", "minus", "times"):
        return arith(name, left, pos[0])
    if name == "divided_by":
        return f_divided_by(left, pos[0])
    if name == "modulo":
        return f_modulo(left, pos[0])
    if name == "json":
        return f_json(left, pos)
    key = pos[0] if pos else None
    if name in ("sort", "sort_natural", "sort_numeric"):
        return f_sort(name, left, key, lam)
    if name == "uniq":
        return f_uniq(left, key, lam)
    if name == "compact":
        return f_compact(left, key, lam)
    if name == "map":
        return f_map(left, key, lam)
    if name == "sum":
        return f_sum(left, key, lam)
    return f_select(name, left, pos, lam)
