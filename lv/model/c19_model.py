"""Independent reference definitions for the C19 filter laws.

Everything here is written against docs/filter_reference.md and the CTS golden cases,
never against liquid2's implementation: find-loop string surgery instead of
str.replace/rpartition, Fractions of the *decimal spellings* instead of Decimal contexts,
hand-rolled base64/percent encoders.  Nothing in this module imports liquid2.
"""

from __future__ import annotations

import decimal
import math
import re
from decimal import Decimal
from fractions import Fraction
from typing import Any

ASCII_WS = " \t\n\r\x0b\x0c"

# --------------------------------------------------------------------------- values


def is_num(v: Any) -> bool:
    return isinstance(v, (int, float)) and not isinstance(v, bool)


def truthy(v: Any) -> bool:
    """Liquid truthiness: everything except nil and false (0 and "" are truthy)."""
    return v is not None and v is not False


def leq(a: Any, b: Any) -> bool:
    """Liquid `==` on JSON scalars: booleans only equal booleans, numbers compare by
    value, everything else structurally."""
    if isinstance(a, bool) or isinstance(b, bool):
        return isinstance(a, bool) and isinstance(b, bool) and a == b
    if a is None or b is None:
        return a is None and b is None
    return a == b


def py_conflates(a: Any, b: Any) -> bool:
    """True when Python's == calls two scalars equal that Liquid's == keeps apart
    (true/1, false/0)."""
    try:
        return bool(a == b) and not leq(a, b)
    except Exception:  # noqa: BLE001
        return False


def flatten(v: Any) -> list[Any]:
    """Documented flattening of nested arrays (concat / map / sum)."""
    out: list[Any] = []
    for item in v:
        if isinstance(item, list):
            out.extend(flatten(item))
        else:
            out.append(item)
    return out


def prop(item: Any, key: str) -> Any:
    """Property of a hash; a missing property is nil."""
    if isinstance(item, dict):
        return item.get(key)
    return None


def has_prop(item: Any, key: str) -> bool:
    return isinstance(item, dict) and key in item


# --------------------------------------------------------------------------- numbers

INT_RE = re.compile(r"-?\d+")
DEC_RE = re.compile(r"-?\d+\.\d+")


def num_kind(v: Any) -> str:
    """'int' | 'float' for ints, floats and the numeric strings we generate."""
    if isinstance(v, bool):
        raise ValueError("bool is not a number")
    if isinstance(v, int):
        return "int"
    if isinstance(v, float):
        return "float"
    if isinstance(v, str):
        if INT_RE.fullmatch(v):
            return "int"
        if DEC_RE.fullmatch(v):
            return "float"
    raise ValueError(f"not a generated number: {v!r}")


def to_num(v: Any) -> int | float:
    """The number a value 'is cast to' (docs: strings are cast to an integer or float)."""
    kind = num_kind(v)
    if isinstance(v, str):
        return int(v) if kind == "int" else float(v)
    return v


def spelling(v: Any) -> Decimal:
    """The decimal spelling of a number: repr of a float, the text of a numeric string."""
    if isinstance(v, str):
        return Decimal(v)
    if isinstance(v, float):
        return Decimal(repr(v))
    return Decimal(v)


def exact(v: Any) -> Fraction:
    return Fraction(spelling(v))


def close(got: Any, want: Fraction, rel: float = 1e-15) -> bool:
    """|got - want| <= rel * |want| (exact rational comparison), or both zero."""
    if isinstance(got, bool) or not isinstance(got, (int, float)):
        return False
    if isinstance(got, float) and not math.isfinite(got):
        return False
    g = Fraction(got)
    if want == 0:
        return abs(g) <= Fraction(1, 10**300)
    return abs(g - want) <= Fraction(rel) * abs(want)


def representable(want: Fraction) -> bool:
    """The exact result is a finite, normal double (else the docs do not say what happens)."""
    if want == 0:
        return True
    a = abs(want)
    return Fraction(1, 10**290) < a < Fraction(10**290)


HP = decimal.Context(prec=6000)  # wide enough for any two doubles: exact +, -, *
IMPL_DIGITS = 28  # a result with more significant digits cannot be demanded digit for digit


def dec_op(op: str, a: Decimal, b: Decimal) -> tuple[Decimal, int]:
    """Exact decimal result of plus/minus/times and its number of significant digits."""
    r = {"plus": HP.add, "minus": HP.subtract, "times": HP.multiply}[op](a, b)
    return r, len(r.normalize(HP).as_tuple().digits)


def frac_to_dec(x: Fraction) -> Decimal:
    """Exact Decimal of a rational whose denominator is 2^i * 5^j."""
    return HP.divide(Decimal(x.numerator), Decimal(x.denominator))


def floor_frac(x: Fraction) -> int:
    return x.numerator // x.denominator


def ceil_frac(x: Fraction) -> int:
    return -((-x.numerator) // x.denominator)


# --------------------------------------------------------------------------- strings


def find_all(s: str, needle: str) -> list[int]:
    """Start indexes of the non-overlapping occurrences of a non-empty needle, left to right."""
    out = []
    pos = 0
    while True:
        i = s.find(needle, pos)
        if i < 0:
            return out
        out.append(i)
        pos = i + len(needle)


def replace_all(s: str, needle: str, sub: str) -> str:
    if needle == "":
        # CTS 'undefined first argument': sub before, between and after every character
        return sub + sub.join(list(s)) + sub
    out = []
    pos = 0
    for i in find_all(s, needle):
        out.append(s[pos:i])
        out.append(sub)
        pos = i + len(needle)
    out.append(s[pos:])
    return "".join(out)


def replace_first(s: str, needle: str, sub: str) -> str:
    i = s.find(needle)
    if i < 0:
        return s
    return s[:i] + sub + s[i + len(needle):]


def replace_last(s: str, needle: str, sub: str) -> str:
    i = s.rfind(needle)
    if i < 0:
        return s
    return s[:i] + sub + s[i + len(needle):]


def split_def(s: str, sep: str) -> list[str]:
    """docs: split on the argument; empty argument -> every character; CTS: empty input or
    input equal to the argument -> empty array."""
    if sep == "":
        return list(s)
    if s in ("", sep):
        return []
    out = []
    pos = 0
    for i in find_all(s, sep):
        out.append(s[pos:i])
        pos = i + len(sep)
    out.append(s[pos:])
    return out


def ascii_strip(s: str, left: bool, right: bool) -> tuple[str, bool]:
    """Strip ASCII whitespace; second item False when the character now at a stripped edge is
    whitespace only by Unicode's definition (docs do not say which definition applies)."""
    lo, hi = 0, len(s)
    if left:
        while lo < hi and s[lo] in ASCII_WS:
            lo += 1
    if right:
        while hi > lo and s[hi - 1] in ASCII_WS:
            hi -= 1
    out = s[lo:hi]
    determined = True
    if out:
        if left and out[0].isspace():
            determined = False
        if right and out[-1].isspace():
            determined = False
    return out, determined


def words_of(s: str) -> list[str]:
    """Maximal runs of non-ASCII-whitespace characters."""
    out = []
    cur = []
    for ch in s:
        if ch in ASCII_WS:
            if cur:
                out.append("".join(cur))
                cur = []
        else:
            cur.append(ch)
    if cur:
        out.append("".join(cur))
    return out


def liquid_str(v: Any) -> str:
    """How a scalar renders (docs: 'coerced to a string'): only the uncontroversial cases."""
    if isinstance(v, str):
        return v
    if v is None:
        return ""
    if isinstance(v, bool):
        return "true" if v else "false"
    if isinstance(v, int):
        return str(v)
    if isinstance(v, float):
        return repr(v)
    if isinstance(v, list):
        return "".join(liquid_str(i) for i in v)
    raise ValueError(v)


# --------------------------------------------------------------------------- codecs

B64_STD = "ABCDEFGHIJKLMNOPQRSTUVWXYZabcdefghijklmnopqrstuvwxyz0123456789+/"
B64_URL = "ABCDEFGHIJKLMNOPQRSTUVWXYZabcdefghijklmnopqrstuvwxyz0123456789-_"


def b64(data: bytes, alphabet: str) -> str:
    out = []
    for i in range(0, len(data), 3):
        chunk = data[i:i + 3]
        n = int.from_bytes(chunk + b"\x00" * (3 - len(chunk)), "big")
        quad = [alphabet[(n >> s) & 63] for s in (18, 12, 6, 0)]
        if len(chunk) < 3:
            for j in range(len(chunk) + 1, 4):
                quad[j] = "="
        out.append("".join(quad))
    return "".join(out)


UNRESERVED = frozenset("ABCDEFGHIJKLMNOPQRSTUVWXYZabcdefghijklmnopqrstuvwxyz0123456789-._~")
RESERVED = frozenset(":/?#[]@!$&'()*,;=")  # RFC 3986 gen-delims + sub-delims, minus '+'


def pct_encode(s: str, style: int) -> str:
    """An independent, valid application/x-www-form-urlencoded spelling of s.  `style` picks
    hex case, '+' or %20 for a space, and whether unreserved characters are escaped too."""
    out = []
    for b in s.encode("utf-8"):
        ch = chr(b)
        if ch == " ":
            out.append("+" if style & 1 else "%20")
        elif ch in UNRESERVED and not (style & 4 and ch.isalpha()):
            out.append(ch)
        else:
            out.append(("%%%02x" if style & 2 else "%%%02X") % b)
    return "".join(out)
