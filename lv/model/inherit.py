"""Reference model of template inheritance (`extends` / `block`) for C08.

Pure Python, no liquid2 imports.  Templates are JSON data:

    template = {"extends": <parent name> | None, "body": [node, ...]}

    node = ["t", text]                               literal text
         | ["b", name, required, [node...], endname] {% block name [required] %}..{% endblock [endname] %}
         | ["s"]                                     {{ block.super }}
         | ["v", name]                               {{ name }}
         | ["for", var, seq, [node...]]              {% for var in seq %}..{% endfor %}
         | ["if", name, [node...], [node...] | None] {% if name %}..[{% else %}..]{% endif %}
         | ["inc", template]                         {% include 'template' %}
         | ["ren", template, [key...]]               {% render 'template', key: key, ... %}
         | ["x", template]                           an explicit {% extends 'template' %} tag
         | ["cap", name, [node...]]                  {% capture name %}..{% endcapture %}{{ name }} (name used once)

    A template may also carry "pre": text written in front of its `extends` tag.

`to_source` prints a template, `resolve` computes what the documentation says the
page is:

* a template without `extends` renders its own text, each block rendering its own body
  (`block.super` undefined = empty);
* a template with `extends` renders the text of the root parent of its chain with every
  block - wherever it is met, also inside the body of another block - replaced by the
  body of the most-derived definition of that name (search leaf -> base); child text
  outside blocks is never rendered; `block.super` inside a definition renders the body
  of the next less-derived definition of the same name (empty when there is none);
* a chain in which the chosen (most-derived) definition of some block is flagged
  `required` is rejected: RequiredBlockError, whether or not the block would be met.  A
  `required` flag on a less-derived definition is satisfied by any more-derived definition
  of the name; text in front of the `extends` tag of a child is child text outside blocks;
* structural errors (found while the chain is walked leaf -> base, before any output):
  more than one `extends` in a template, a block name defined twice in one template,
  an `endblock` name that differs from its block's name (a parse error of that
  template), a chain that revisits a template, a parent that does not exist;
* a chain (a template with `extends`) entered through include/render is resolved on its own (its own definitions
  only) and its text inserted in place;
* a template WITHOUT `extends` that is pulled in by `include` is rendered in the including context
  ("the included template will share the same scope"): its block tags resolve against the chain in
  force at the include tag, so a child can override a block that the base's partial defines; with
  `render` (isolated context) the partial's blocks are its own.  (An earlier version of this model
  gave included partials their own definitions; that was the model's invention, see DESIGN 0.5.)
"""

from __future__ import annotations

from typing import Any

Node = list
Template = dict


class RefError(Exception):
    """An outcome the documentation describes as an error.

    kind: required | extends | dup | endblock | cycle | notfound | recursive

    `recursive`: the page is infinite by the documented rules themselves - a definition is
    entered again while it is being rendered (two block names nested in each other in
    opposite order in two templates, closed through `block.super`).  No output exists.
    """

    def __init__(self, kind: str, where: str = "") -> None:
        super().__init__(f"{kind} {where}")
        self.kind = kind
        self.where = where


# ----------------------------------------------------------------------------- printer


def to_source(tmpl: Template) -> str:
    out: list[str] = []
    if tmpl.get("pre"):
        out.append(tmpl["pre"])
    if tmpl.get("extends") is not None:
        out.append("{% extends '" + tmpl["extends"] + "' %}")
    _print(tmpl["body"], out)
    return "".join(out)


def _print(nodes: list[Node], out: list[str]) -> None:
    for n in nodes:
        k = n[0]
        if k == "t":
            out.append(n[1])
        elif k == "b":
            out.append("{% block " + n[1] + (" required" if n[2] else "") + " %}")
            _print(n[3], out)
            out.append("{% endblock" + (" " + n[4] if n[4] is not None else "") + " %}")
        elif k == "s":
            out.append("{{ block.super }}")
        elif k == "v":
            out.append("{{ " + n[1] + " }}")
        elif k == "for":
            out.append("{% for " + n[1] + " in " + n[2] + " %}")
            _print(n[3], out)
            out.append("{% endfor %}")
        elif k == "if":
            out.append("{% if " + n[1] + " %}")
            _print(n[2], out)
            if n[3] is not None:
                out.append("{% else %}")
                _print(n[3], out)
            out.append("{% endif %}")
        elif k == "inc":
            out.append("{% include '" + n[1] + "' %}")
        elif k == "ren":
            args = "".join(f", {key}: {key}" for key in n[2])
            out.append("{% render '" + n[1] + "'" + args + " %}")
        elif k == "x":
            out.append("{% extends '" + n[1] + "' %}")
        elif k == "cap":
            out.append("{% capture " + n[1] + " %}")
            _print(n[2], out)
            out.append("{% endcapture %}{{ " + n[1] + " }}")
        else:  # pragma: no cover
            raise ValueError(f"unknown node {n!r}")


def sources(templates: dict[str, Template]) -> dict[str, str]:
    return {name: to_source(t) for name, t in templates.items()}


# ----------------------------------------------------------------------------- scanning


def scan(tmpl: Template) -> tuple[list[str], list[Node]]:
    """(names of all extends tags, all block nodes in document order) of a template."""
    exts: list[str] = []
    blocks: list[Node] = []
    if tmpl.get("extends") is not None:
        exts.append(tmpl["extends"])

    def walk(nodes: list[Node]) -> None:
        for n in nodes:
            k = n[0]
            if k == "b":
                blocks.append(n)
                walk(n[3])
            elif k == "x":
                exts.append(n[1])
            elif k == "for":
                walk(n[3])
            elif k == "cap":
                walk(n[2])
            elif k == "if":
                walk(n[2])
                if n[3] is not None:
                    walk(n[3])

    walk(tmpl["body"])
    return exts, blocks


def fmt_value(v: Any) -> str:
    if v is None:
        return ""
    if v is True:
        return "true"
    if v is False:
        return "false"
    return str(v)


# ----------------------------------------------------------------------------- resolver


class Info:
    """What happened while resolving (drives labels / non-triviality, never the verdict)."""

    def __init__(self) -> None:
        self.super_used = False  # block.super rendered an existing parent definition
        self.super_undefined = False  # block.super with no parent definition
        self.nested_override = False  # nested block replaced by a definition of another template
        self.nested_dropped = False  # a chain defines a nested block that is never met
        self.shared_names = False  # >= 2 templates of one chain define the same name
        self.required_unreached = False  # chosen definition is `required` but never met
        self.required_unreached_names: set[str] = set()
        self.rendered_defs: set[tuple[str, str]] = set()  # (template, block name) whose body was rendered
        self.dup_standalone = False  # duplicate names in a template rendered without extends
        self.partials: list[str] = []  # "inc"/"ren" executed, in order
        self.chains = 0  # number of chains (extends) resolved
        self.blocks_rendered = 0


class _Def:
    __slots__ = ("tname", "node")

    def __init__(self, tname: str, node: Node) -> None:
        self.tname = tname
        self.node = node


class _Chain:
    """Per-chain state: block name -> definitions, leaf first."""

    def __init__(self, stacks: dict[str, list[_Def]] | None) -> None:
        self.stacks = stacks
        self.reached: set[str] = set()


class Resolver:
    def __init__(self, templates: dict[str, Template], data: dict[str, Any], *, render_pre: bool = False) -> None:
        self.templates = templates
        self.data = data
        self.render_pre = render_pre  # alternative reading: text in front of `extends` is output (as Jinja does)
        self.info = Info()
        self.depth = 0
        self.active: set[tuple[int, int]] = set()

    def enter(self, chain: "_Chain", node: Node, what: str) -> tuple[int, int]:
        key = (id(chain), id(node))
        if key in self.active:
            raise RefError("recursive", what)
        self.active.add(key)
        self.info.rendered_defs.add(tuple(what.split(":", 1)))  # type: ignore[arg-type]
        return key

    # -- loading = parsing: a mismatched endblock name is an error of the whole template
    def load(self, name: str) -> Template:
        if name not in self.templates:
            raise RefError("notfound", name)
        tmpl = self.templates[name]
        _exts, blocks = scan(tmpl)
        for b in blocks:
            if b[4] is not None and b[4] != b[1]:
                raise RefError("endblock", f"{name}:{b[1]}/{b[4]}")
        return tmpl

    def render_template(self, name: str, scope: dict[str, Any], outer: "_Chain | None" = None) -> str:
        """`outer`: the chain in force where an `include` tag stands.  An included template that does not
        extend anything is rendered in the including context: its block tags resolve against that chain
        (a child of the including template can override them), exactly like block tags of the base."""
        self.depth += 1
        if self.depth > 50:  # the generators never build recursive includes
            raise AssertionError("reference resolver: include recursion")
        try:
            tmpl = self.load(name)
            exts, blocks = scan(tmpl)
            if not exts:
                names = [b[1] for b in blocks]
                if len(set(names)) != len(names):
                    self.info.dup_standalone = True
                if outer is not None and outer.stacks is not None:
                    return self.render_nodes(tmpl["body"], scope, outer, [], name, 0)
                chain = _Chain(None)
                out = self.render_nodes(tmpl["body"], scope, chain, [], name, 0)
                for b in blocks:
                    if b[2] and b[1] not in chain.reached:
                        self.info.required_unreached = True
                        self.info.required_unreached_names.add(b[1])
                return out
            return self.render_chain(name, tmpl, scope)
        finally:
            self.depth -= 1

    def render_chain(self, name: str, tmpl: Template, scope: dict[str, Any]) -> str:
        self.info.chains += 1
        visited = {name}
        stacks: dict[str, list[_Def]] = {}
        cur_name, cur = name, tmpl
        defined_in: dict[str, int] = {}
        nested_names: set[str] = set()
        pres: list[str] = []
        while True:
            if cur.get("pre") and cur is tmpl:
                # only the template that is rendered runs its own text; its ancestors only contribute blocks
                pres.append(cur["pre"].replace("{{ u }}", fmt_value(scope.get("u"))))
            exts, blocks = scan(cur)
            if len(exts) > 1:
                raise RefError("extends", cur_name)
            names = [b[1] for b in blocks]
            if len(set(names)) != len(names):
                raise RefError("dup", cur_name)
            for b in blocks:
                stacks.setdefault(b[1], []).append(_Def(cur_name, b))
                defined_in[b[1]] = defined_in.get(b[1], 0) + 1
            top = {n[1] for n in cur["body"] if n[0] == "b"}
            nested_names.update(n for n in names if n not in top)
            if not exts:
                break
            parent = exts[0]
            if parent in visited:
                raise RefError("cycle", f"{cur_name}->{parent}")
            visited.add(parent)
            cur_name, cur = parent, self.load(parent)
        if any(c > 1 for c in defined_in.values()):
            self.info.shared_names = True
        for bname, defs in stacks.items():
            # "a `required` block that no descendant overrides ... is rejected": decided by the chain alone,
            # whether or not the page would ever reach the block
            if defs[0].node[2]:
                raise RefError("required", f"{defs[0].tname}:{bname}")
        chain = _Chain(stacks)
        out = self.render_nodes(cur["body"], scope, chain, [], cur_name, 0)
        for bname, defs in stacks.items():
            if bname not in chain.reached:
                if defs[0].node[2]:
                    self.info.required_unreached = True
                    self.info.required_unreached_names.add(bname)
                if bname in nested_names:
                    self.info.nested_dropped = True
        if self.render_pre:
            out = "".join(pres) + out
        return out

    def render_nodes(  # noqa: PLR0912
        self,
        nodes: list[Node],
        scope: dict[str, Any],
        chain: _Chain,
        sup: list[_Def],
        owner: str,
        block_depth: int,
    ) -> str:
        out: list[str] = []
        for n in nodes:
            k = n[0]
            if k == "t":
                out.append(n[1])
            elif k == "v":
                out.append(fmt_value(scope.get(n[1])))
            elif k == "s":
                if sup:
                    self.info.super_used = True
                    d = sup[0]
                    key = self.enter(chain, d.node, f"{d.tname}:{d.node[1]}")
                    out.append(self.render_nodes(d.node[3], scope, chain, sup[1:], d.tname, block_depth))
                    self.active.discard(key)
                else:
                    self.info.super_undefined = True
            elif k == "b":
                bname = n[1]
                chain.reached.add(bname)
                self.info.blocks_rendered += 1
                defs = chain.stacks.get(bname) if chain.stacks is not None else None
                if defs:
                    d = defs[0]
                    if d.node[2]:
                        raise RefError("required", f"{d.tname}:{bname}")
                    if block_depth > 0 and d.tname != owner:
                        self.info.nested_override = True
                    key = self.enter(chain, d.node, f"{d.tname}:{bname}")
                    out.append(self.render_nodes(d.node[3], scope, chain, defs[1:], d.tname, block_depth + 1))
                    self.active.discard(key)
                else:
                    if n[2]:
                        raise RefError("required", f"{owner}:{bname}")
                    key = self.enter(chain, n, f"{owner}:{bname}")
                    out.append(self.render_nodes(n[3], scope, chain, [], owner, block_depth + 1))
                    self.active.discard(key)
            elif k == "for":
                seq = scope.get(n[2])
                if isinstance(seq, list):
                    for item in seq:
                        inner = dict(scope)
                        inner[n[1]] = item
                        out.append(self.render_nodes(n[3], inner, chain, sup, owner, block_depth))
            elif k == "if":
                val = scope.get(n[1])
                truthy = val is not None and val is not False
                if truthy:
                    out.append(self.render_nodes(n[2], scope, chain, sup, owner, block_depth))
                elif n[3] is not None:
                    out.append(self.render_nodes(n[3], scope, chain, sup, owner, block_depth))
            elif k == "cap":
                # captured and printed straight away: the same text, in place
                out.append(self.render_nodes(n[2], scope, chain, sup, owner, block_depth))
            elif k == "inc":
                self.info.partials.append("inc")
                out.append(self.render_template(n[1], scope, outer=chain))
            elif k == "ren":
                self.info.partials.append("ren")
                inner = dict(self.data)
                for key in n[2]:
                    inner[key] = scope.get(key)
                out.append(self.render_template(n[1], inner))
            elif k == "x":
                # an extends tag met while rendering text: only reachable for templates
                # with several extends tags, which render_chain rejects beforehand.
                raise AssertionError("reference resolver: stray extends")
            else:  # pragma: no cover
                raise ValueError(f"unknown node {n!r}")
        return "".join(out)


def resolve(templates: dict[str, Template], entry: str, data: dict[str, Any], *,
            render_pre: bool = False) -> tuple[str, str, Info]:
    """('ok', text, info) or ('err', kind, info)."""
    r = Resolver(templates, data, render_pre=render_pre)
    try:
        text = r.render_template(entry, dict(data))
    except RefError as err:
        return "err", err.kind, r.info
    return "ok", text, r.info
