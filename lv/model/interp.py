"""C01 reference interpreter over the generator's JSON AST (see lv/gen/printer.py).

Written from /repo/docs (tag_reference, filter_reference, variables_and_drops,
whitespace_control, render_context, migration) and the CTS golden cases.  It shares no code
with liquid2 and imports nothing from it.

    render(program, data, default_trim="+", suppress=True, shorthand=False)
        -> ("ok", text) | ("err", "type" | "other") | ("unsup", reason)

"unsup" means: the documentation does not determine the result of this program on this
data (the reason names the construct); such cases are skipped by the property, not asserted.
"""

from __future__ import annotations

import json
from typing import Any

from lv.model import interp_filters
from lv.model.interp_filters import MODEL_FILTERS
from lv.model.interp_filters import apply_filter
from lv.model.interp_values import BLANK
from lv.model.interp_values import EMPTY
from lv.model.interp_values import UNDEF
from lv.model.interp_values import Ambig
from lv.model.interp_values import ForLoop
from lv.model.interp_values import OtherErr
from lv.model.interp_values import Range
from lv.model.interp_values import Special
from lv.model.interp_values import TypeErr
from lv.model.interp_values import Undoc
from lv.model.interp_values import UndocBinding
from lv.model.interp_values import float_literal
from lv.model.interp_values import is_nil
from lv.model.interp_values import liquid_contains
from lv.model.interp_values import liquid_eq
from lv.model.interp_values import liquid_order
from lv.model.interp_values import to_str
from lv.model.interp_values import truthy

__all__ = ["render", "supported", "has_bare_not", "MODEL_FILTERS", "normalise_program", "stmt_kinds"]

PRIMS = {"nil", "true", "false", "int", "float", "str", "empty", "blank", "range", "path", "tstr"}
OUTPUT_KINDS = {"out", "echo", "cycle", "increment", "decrement", "include", "render", "call"}
CONTROL = {"if", "unless", "case", "for"}


class _Break(Exception):
    pass


class _Continue(Exception):
    pass


# --------------------------------------------------------------------------- whitespace control


def trim(text: str, left: str, right: str, default: str) -> str:
    """docs/whitespace_control.md: '-' removes all whitespace, '~' only CR/LF, '+' nothing;
    no marker means the environment's default_trim."""
    left = left or default
    right = right or default
    if left == "-":
        text = text.lstrip()
    elif left == "~":
        text = text.lstrip("\r\n")
    if right == "-":
        text = text.rstrip()
    elif right == "~":
        text = text.rstrip("\r\n")
    return text


def _wc(s: dict[str, Any], key: str = "wc") -> list[str]:
    return s.get(key) or ["", ""]


def linearise(stmts: list[dict[str, Any]], items: list[Any], in_liquid: bool = False) -> None:
    """Source order list of ("text", stmt) | ("mark", left, right): every text run is trimmed
    by the right marker of the markup before it and the left marker of the markup after it."""
    for s in stmts:
        t = s["t"]
        if in_liquid:
            if t in ("liquid", "text", "raw", "out"):
                raise Undoc("markup inside a liquid tag")
            for blk in _blocks(s):
                linearise(blk, items, True)
            continue
        wc = _wc(s)
        if t == "text":
            items.append(("text", s))
        elif t == "raw":
            w = s.get("wc4") or ["", "", "", ""]
            items.append(("mark", w[0], w[3]))
        elif t == "liquid":
            items.append(("mark", wc[0], wc[1]))
            linearise(s["body"], items, True)
        elif t in ("if", "unless"):
            items.append(("mark", wc[0], wc[1]))
            linearise(s["body"], items)
            for i, (_c, b) in enumerate(s.get("elsifs") or []):
                w = (s.get("wc_elsifs") or [])[i] if s.get("wc_elsifs") else ["", ""]
                items.append(("mark", w[0], w[1]))
                linearise(b, items)
            if s.get("else") is not None:
                w = _wc(s, "wc_else")
                items.append(("mark", w[0], w[1]))
                linearise(s["else"], items)
            w = _wc(s, "wc_end")
            items.append(("mark", w[0], w[1]))
        elif t == "case":
            items.append(("mark", wc[0], wc[1]))
            # text between `case` and the first `when` is never output (CTS 'whitespace after case')
            for i, (_v, b) in enumerate(s["whens"]):
                w = (s.get("wc_whens") or [])[i] if s.get("wc_whens") else ["", ""]
                items.append(("mark", w[0], w[1]))
                linearise(b, items)
            if s.get("else") is not None:
                w = _wc(s, "wc_else")
                items.append(("mark", w[0], w[1]))
                linearise(s["else"], items)
            w = _wc(s, "wc_end")
            items.append(("mark", w[0], w[1]))
        elif t == "for":
            items.append(("mark", wc[0], wc[1]))
            linearise(s["body"], items)
            if s.get("else") is not None:
                w = _wc(s, "wc_else")
                items.append(("mark", w[0], w[1]))
                linearise(s["else"], items)
            w = _wc(s, "wc_end")
            items.append(("mark", w[0], w[1]))
        elif t in ("capture", "with", "macro"):
            items.append(("mark", wc[0], wc[1]))
            linearise(s["body"], items)
            w = _wc(s, "wc_end")
            items.append(("mark", w[0], w[1]))
        elif t in ("out", "assign", "echo", "comment", "break", "continue", "increment", "decrement", "cycle",
                   "call", "include", "render"):
            items.append(("mark", wc[0], wc[1]))
        else:
            raise Undoc(f"statement {t}")


def resolve_texts(stmts: list[dict[str, Any]], default: str) -> dict[int, str]:
    items: list[Any] = []
    linearise(stmts, items)
    out: dict[int, str] = {}
    n = len(items)
    for i, it in enumerate(items):
        if it[0] != "text":
            continue
        # start / end of the template: no markup, so the environment default applies
        left = "" if i == 0 else items[i - 1][2] if items[i - 1][0] == "mark" else "+"
        right = "" if i + 1 >= n else items[i + 1][1] if items[i + 1][0] == "mark" else "+"
        out[id(it[1])] = trim(it[1]["s"], left, right, default)
    return out


def _blocks(s: dict[str, Any]) -> list[list[dict[str, Any]]]:
    out = []
    for key in ("body", "else"):
        if isinstance(s.get(key), list):
            out.append(s[key])
    for _c, b in s.get("elsifs") or []:
        out.append(b)
    for _v, b in s.get("whens") or []:
        out.append(b)
    return out


# --------------------------------------------------------------------------- static support check


def _walk_expr(e: Any, fn: Any) -> None:
    if not isinstance(e, list) or not e:
        return
    fn(e)
    k = e[0]
    if k == "range":
        _walk_expr(e[1], fn)
        _walk_expr(e[2], fn)
    elif k == "path":
        for seg in e[2]:
            if seg[0] == "p":
                _walk_expr(seg[1], fn)
    elif k == "tstr":
        for p in e[1]:
            if not isinstance(p, str):
                _walk_expr(p, fn)
    elif k == "array":
        for i in e[1]:
            _walk_expr(i, fn)
    elif k == "filtered":
        _walk_expr(e[1], fn)
        _walk_filters(e[2], fn)
    elif k == "ternary":
        _walk_expr(e[1], fn)
        _walk_expr(e[2], fn)
        if e[3] is not None:
            _walk_expr(e[3], fn)
        _walk_filters(e[4], fn)
        _walk_filters(e[5], fn)
    elif k in ("and", "or"):
        _walk_expr(e[1], fn)
        _walk_expr(e[2], fn)
    elif k in ("not", "grp"):
        _walk_expr(e[1], fn)
    elif k == "cmp":
        _walk_expr(e[2], fn)
        _walk_expr(e[3], fn)


def _walk_filters(filters: list[dict[str, Any]], fn: Any) -> None:
    for f in filters or []:
        fn(["filter", f["name"], f])
        for a in f.get("args") or []:
            if a[0] == "pos":
                _walk_expr(a[1], fn)
            elif a[0] == "kw":
                _walk_expr(a[2], fn)
            elif a[0] == "lambda":
                _walk_expr(a[2], fn)
            else:
                fn(["badarg", a[0]])


def stmt_exprs(s: dict[str, Any]) -> list[Any]:
    t = s["t"]
    out: list[Any] = []
    if t in ("out", "echo", "assign"):
        out.append(s["e"])
    elif t in ("if", "unless"):
        out.append(s["cond"])
        out.extend(c for c, _b in s.get("elsifs") or [])
    elif t == "case":
        out.append(s["e"])
        for vals, _b in s["whens"]:
            out.extend(vals)
    elif t == "for":
        out.append(s["iter"])
        for k in ("limit", "offset"):
            if isinstance(s.get(k), list):
                out.append(s[k])
    elif t == "cycle":
        out.extend(s["items"])
    elif t == "with":
        out.extend(v for _k, v in s["args"])
    elif t == "macro":
        out.extend(d for _n, d in s["params"] if d is not None)
    elif t == "call":
        out.extend(s["args"])
        out.extend(v for _k, v in s["kwargs"])
    elif t in ("include", "render"):
        out.append(s["name"])
        if s.get("var") is not None:
            out.append(s["var"])
        out.extend(v for _k, v in s.get("args") or [])
    return out


def walk_stmts(stmts: list[dict[str, Any]], fn: Any, ctx: tuple[str, ...] = ()) -> None:
    for s in stmts:
        fn(s, ctx)
        inner = ctx + (s["t"],)
        for b in _blocks(s):
            walk_stmts(b, fn, inner)


def stmt_kinds(stmts: list[dict[str, Any]]) -> set[str]:
    kinds: set[str] = set()
    walk_stmts(stmts, lambda s, _c: kinds.add(s["t"]))
    return kinds


def has_bare_not(c: Any) -> bool:
    """An unparenthesised `not` that is an operand of and/or (e.g. `a and not b or c`)."""
    if not isinstance(c, list) or not c:
        return False
    k = c[0]
    if k in ("and", "or"):
        return any(x[0] == "not" or has_bare_not(x) for x in (c[1], c[2]))
    if k in ("not", "grp"):
        return has_bare_not(c[1])
    return False


def _cond_shape(c: Any, under_and: bool = False) -> str | None:
    k = c[0]
    if k in ("and", "or"):
        if k == "or" and under_and:
            return "`or` directly under `and` (printing would re-associate)"
        return _cond_shape(c[1], k == "and") or _cond_shape(c[2], k == "and")
    if k == "not":
        if c[1][0] not in PRIMS and c[1][0] != "grp":
            return "`not` applied to an unparenthesised comparison (precedence of not is not documented)"
        return _cond_shape(c[1])
    if k == "grp":
        return _cond_shape(c[1])
    return None


def supported(program: dict[str, Any], shorthand: bool = False) -> str | None:  # noqa: PLR0912, PLR0915
    """None when the model covers every construct of the program, else the reason."""
    why: list[str] = []
    rendered = set()
    included = set()

    def collect(s: dict[str, Any], _c: tuple[str, ...]) -> None:
        if s["t"] in ("include", "render") and s["name"][0] == "str":
            (rendered if s["t"] == "render" else included).add(s["name"][1])

    walk_stmts(program["main"], collect)
    for tb in program["templates"].values():
        walk_stmts(tb, collect)

    def check_expr(e: list[Any]) -> None:
        k = e[0]
        if k == "filter":
            if e[1] not in MODEL_FILTERS:
                why.append(f"filter:{e[1]}")
        elif k == "badarg":
            why.append(f"filter-arg:{e[1]}")
        elif k in ("numlit", "raw"):
            why.append(f"expr:{k}")
        elif k == "path":
            for seg in e[2]:
                if seg[0] == "si" and not shorthand:
                    why.append("shorthand index with shorthand_indexes off")
        elif k in ("and", "or", "not"):
            r = _cond_shape(e)
            if r:
                why.append(r)

    def check(where: str):
        def fn(s: dict[str, Any], ctx: tuple[str, ...]) -> None:
            t = s["t"]
            if t in ("tablerow", "extends", "block", "translate", "rawsrc"):
                why.append(f"stmt:{t}")
                return
            for e in stmt_exprs(s):
                _walk_expr(e, check_expr)
            if t in ("include", "render"):
                if s["name"][0] != "str":
                    why.append("dynamic template name")
                elif s["name"][1] not in program["templates"]:
                    why.append("missing template")
            isolated = where == "macro" or (where.startswith("tpl:") and where[4:] in rendered) or "macro" in ctx
            partial = where.startswith("tpl:")
            if t in ("increment", "decrement") and isolated:
                why.append("counter inside an isolated scope (render/macro): sharing not documented")
            if t == "cycle" and (isolated or partial):
                why.append("cycle inside a partial/macro: sharing of cycle state not documented")
            if t == "for" and s.get("offset") == "continue" and (isolated or partial):
                why.append("offset:continue inside a partial/macro")
            if t in ("break", "continue") and "for" not in ctx:
                if not (partial and where[4:] not in rendered):
                    why.append("break/continue outside a loop")
            if t in ("break", "continue") and "macro" in ctx and "for" not in ctx[ctx.index("macro"):]:
                why.append("break/continue escaping a macro")
            if t == "call" and ("macro" in ctx or where != "main"):
                why.append("call inside a macro/partial")
            if t == "macro" and (ctx or where != "main"):
                why.append("nested macro definition")
        return fn

    walk_stmts(program["main"], check("main"))
    for name, tb in program["templates"].items():
        walk_stmts(tb, check("tpl:" + name))
    return why[0] if why else None


def _norm_cond(c: Any, under_and: bool = False) -> Any:
    if not isinstance(c, list) or not c:
        return c
    k = c[0]
    if k in ("and", "or"):
        out = [k, _norm_cond(c[1], k == "and"), _norm_cond(c[2], k == "and")]
        return ["grp", out] if (k == "or" and under_and) else out
    if k == "not":
        inner = _norm_cond(c[1])
        if inner[0] not in PRIMS and inner[0] != "grp":
            inner = ["grp", inner]
        return ["not", inner]
    if k == "grp":
        return ["grp", _norm_cond(c[1])]
    return _norm_expr(c)


def _norm_filters(fl: list[dict[str, Any]]) -> list[dict[str, Any]]:
    out = []
    for f in fl or []:
        args = []
        for a in f.get("args") or []:
            if a[0] == "lambda":
                args.append(["lambda", a[1], _norm_cond(a[2])])
            elif a[0] == "pos":
                args.append(["pos", _norm_expr(a[1])])
            elif a[0] == "kw":
                args.append(["kw", a[1], _norm_expr(a[2])])
            else:
                args.append(a)
        out.append({**f, "args": args})
    return out


def _norm_expr(e: Any) -> Any:
    if not isinstance(e, list) or not e:
        return e
    k = e[0]
    if k == "filtered":
        return ["filtered", _norm_expr(e[1]), _norm_filters(e[2])]
    if k == "ternary":
        return ["ternary", _norm_expr(e[1]), _norm_cond(e[2]), _norm_expr(e[3]) if e[3] is not None else None,
                _norm_filters(e[4]), _norm_filters(e[5])]
    if k == "tstr":
        return ["tstr", [p if isinstance(p, str) else _norm_expr(p) for p in e[1]]]
    if k == "array":
        return ["array", [_norm_expr(i) for i in e[1]]]
    if k in ("and", "or", "not", "grp"):
        return _norm_cond(e)
    if k == "cmp":
        return ["cmp", e[1], _norm_expr(e[2]), _norm_expr(e[3])]
    return e


def _norm_stmts(stmts: list[dict[str, Any]]) -> list[dict[str, Any]]:
    out = []
    for s in stmts:
        s = dict(s)
        t = s["t"]
        if t in ("out", "echo", "assign"):
            s["e"] = _norm_expr(s["e"])
        elif t in ("if", "unless"):
            s["cond"] = _norm_cond(s["cond"])
            s["elsifs"] = [[_norm_cond(c), _norm_stmts(b)] for c, b in s.get("elsifs") or []]
        elif t == "case":
            s["whens"] = [[v, _norm_stmts(b)] for v, b in s["whens"]]
        for key in ("body", "else"):
            if isinstance(s.get(key), list):
                s[key] = _norm_stmts(s[key])
        out.append(s)
    return out


def normalise_program(program: dict[str, Any]) -> dict[str, Any]:
    """Insert the parentheses that make the printed condition parse back to the same tree under
    the documented rules (and > or; `not` only ever applied to a primitive or a group)."""
    return {"main": _norm_stmts(program["main"]),
            "templates": {k: _norm_stmts(v) for k, v in program["templates"].items()}}


# --------------------------------------------------------------------------- interpreter


class Interp:
    def __init__(self, program: dict[str, Any], data: dict[str, Any], default_trim: str, suppress: bool,
                 shorthand: bool) -> None:
        self.program = program
        self.data = data
        self.default_trim = default_trim
        self.suppress = suppress
        self.shorthand = shorthand
        self.texts: dict[int, str] = {}
        self.resolved: set[str] = set()
        self.locals: dict[str, Any] = {}
        self.scopes: list[dict[str, Any]] = []
        self.counters: dict[str, int] = {}
        self.foreign_counters: dict[str, int] = {}
        self.cycles: dict[Any, int] = {}
        self.cycle_expr: dict[Any, Any] = {}
        self.cycle_val: dict[Any, Any] = {}
        self.offsets: dict[str, tuple[int, bool, int]] = {}
        self.offset_items: dict[str, list[Any]] = {}
        self.active_keys: list[str] = []
        self.macros: dict[str, dict[str, Any]] = {}
        self.loops: list[ForLoop] = []
        self.include_disabled = False
        self.trace: set[str] = set()
        self.steps = 0

    def child(self) -> "Interp":
        c = Interp(self.program, self.data, self.default_trim, self.suppress, self.shorthand)
        c.texts = self.texts
        c.resolved = self.resolved
        c.foreign_counters = {**self.foreign_counters, **self.counters}
        c.trace = self.trace
        c.macros = {}
        return c

    # ----------------------------------------------------------------- lookup

    def lookup(self, name: str) -> Any:
        for sc in reversed(self.scopes):
            if name in sc:
                v = sc[name]
                if isinstance(v, UndocBinding):
                    raise Undoc(v.why)
                return v
        if name in self.locals:
            return self.locals[name]
        if name in self.data:
            return self.data[name]
        if name in self.counters:
            return self.counters[name]
        if name in self.foreign_counters:
            raise Undoc("counter of the calling template seen from an isolated scope")
        return UNDEF

    def seg(self, obj: Any, key: Any) -> Any:  # noqa: PLR0911, PLR0912
        if is_nil(obj):
            return UNDEF
        if isinstance(obj, Special):
            raise Undoc("property of empty/blank")
        if isinstance(key, str):
            if isinstance(obj, dict):
                if key in obj:
                    return obj[key]
                if key == "size":
                    return len(obj)
                if key == "first":
                    if obj:
                        k = next(iter(obj))
                        return [k, obj[k]]
                    return UNDEF
                return UNDEF
            if isinstance(obj, Range):
                obj = obj.items()
            if isinstance(obj, list):
                if key == "size":
                    return len(obj)
                if key == "first":
                    return obj[0] if obj else UNDEF
                if key == "last":
                    return obj[-1] if obj else UNDEF
                return UNDEF
            if isinstance(obj, str):
                if key == "size":
                    return len(obj)
                if key in ("first", "last"):
                    if not obj:
                        raise Undoc("first/last of an empty string")
                    return obj[0] if key == "first" else obj[-1]
                return UNDEF
            if isinstance(obj, ForLoop):
                return obj.get(key)
            return UNDEF
        if isinstance(obj, Range):
            obj = obj.items()
        if isinstance(obj, list):
            if -len(obj) <= key < len(obj):
                return obj[key]
            return UNDEF
        if isinstance(obj, str):
            raise Undoc("index into a string")
        if isinstance(obj, ForLoop):
            raise Undoc("index into forloop")
        return UNDEF

    def path(self, e: list[Any]) -> Any:
        v = self.lookup(e[1])
        for sg in e[2]:
            k = sg[0]
            if k == "n":
                v = self.seg(v, sg[1])
            elif k == "i":
                v = self.seg(v, sg[1])
            elif k == "si":
                if not self.shorthand:
                    raise Undoc("shorthand index with shorthand_indexes off")
                v = self.seg(v, sg[1])
            elif k == "p":
                key = self.path(sg[1])
                if isinstance(key, bool) or not isinstance(key, (str, int)):
                    raise Undoc("dynamic segment that is not a string or integer")
                v = self.seg(v, key)
            else:
                raise Undoc(f"segment {k}")
        return v

    # ----------------------------------------------------------------- expressions

    def prim(self, e: list[Any]) -> Any:  # noqa: PLR0911
        k = e[0]
        if k == "nil":
            return None
        if k == "true":
            return True
        if k == "false":
            return False
        if k == "int":
            return e[1]
        if k == "float":
            return float_literal(e[1])
        if k == "str":
            return e[1]
        if k == "empty":
            return EMPTY
        if k == "blank":
            return BLANK
        if k == "range":
            a, b = self.prim(e[1]), self.prim(e[2])
            for x in (a, b):
                if isinstance(x, bool) or not isinstance(x, int):
                    raise Undoc("range bound that is not an integer")
            return Range(a, b)
        if k == "path":
            return self.path(e)
        if k == "tstr":
            return "".join(p if isinstance(p, str) else to_str(self._plain_out(self.fexpr(p))) for p in e[1])
        raise Undoc(f"primitive {k}")

    def _plain_out(self, v: Any) -> Any:
        if isinstance(v, (Special, ForLoop)):
            raise Undoc("output of empty/blank/forloop")
        return v

    def left(self, e: list[Any]) -> Any:
        if e[0] == "array":
            return [self._item(self.prim(i)) for i in e[1]]
        return self.prim(e)

    def _item(self, v: Any) -> Any:
        if isinstance(v, (Special, ForLoop)):
            raise Undoc("special value in an array literal")
        return v

    def filters(self, v: Any, fl: list[dict[str, Any]]) -> Any:
        for f in fl or []:
            pos: list[Any] = []
            kw: dict[str, Any] = {}
            lam = None
            for a in f.get("args") or []:
                if a[0] == "pos":
                    pos.append(self.prim(a[1]))
                elif a[0] == "kw":
                    if a[1] in kw:
                        raise Undoc("duplicate keyword argument")
                    kw[a[1]] = self.prim(a[2])
                elif a[0] == "lambda":
                    if lam is not None:
                        raise Undoc("two lambdas")
                    lam = self._lambda(a[1], a[2], f["name"])
                else:
                    raise Undoc(f"argument kind {a[0]}")
            self.trace.add("filter:" + f["name"])
            v = apply_filter(f["name"], v, pos, kw, lam)
        return v

    def _lambda(self, params: list[str], body: Any, fname: str) -> Any:
        if len(params) not in (1, 2) or len(set(params)) != len(params):
            raise Undoc("lambda parameters")

        def call(item: Any, index: int) -> Any:
            sc = {params[0]: item}
            if len(params) == 2:
                sc[params[1]] = index
            self.scopes.append(sc)
            try:
                if body[0] in ("and", "or"):
                    return self.test(body)
                return self.cond_value(body)
            finally:
                self.scopes.pop()

        return call

    def fexpr(self, e: list[Any]) -> Any:
        k = e[0]
        if k == "filtered":
            return self.filters(self.left(e[1]), e[2])
        if k == "ternary":
            _, lft, cond, alt, fl, tail = e
            if self.test(cond):
                v = self.fexpr(lft)
            elif alt is None:
                # migration.md says "defaults to an instance of Undefined", the code yields nil.  nil is what
                # the other documents imply: under StrictUndefined an Undefined here would raise without any
                # variable missing (C16), and `{{ a if b }}` is documented to render nothing.  The two differ
                # only in filters that tell nil from undefined (where, map ...): model nil.
                v = None
            else:
                v = self.filters(self.prim(alt), fl)
            return self.filters(v, tail)
        return self.left(e)

    def cond_value(self, c: list[Any]) -> Any:
        """Value of a condition expression (a bare primitive keeps its value)."""
        k = c[0]
        if k in PRIMS:
            return self.prim(c)
        if k == "grp":
            return self.cond_value(c[1])
        if k in ("and", "or"):
            raise Undoc("value (not truthiness) of an and/or expression")
        return self.test(c)

    def test(self, c: list[Any]) -> bool:  # noqa: PLR0911, PLR0912
        k = c[0]
        if k in ("and", "or"):
            lv = self.test(c[1])
            decided = (k == "and" and not lv) or (k == "or" and lv)
            try:
                rv = self.test(c[2])
            except (TypeErr, OtherErr):
                if decided:
                    raise Undoc("error in an operand that short-circuit evaluation would skip") from None
                raise
            return (lv and rv) if k == "and" else (lv or rv)
        if k == "not":
            return not self.test(c[1])
        if k == "grp":
            return self.test(c[1])
        if k == "cmp":
            op = c[1]
            a, b = self.cond_value(c[2]), self.cond_value(c[3])
            self.trace.add("op:" + op)
            if op == "==":
                return liquid_eq(a, b)
            if op == "!=":
                return not liquid_eq(a, b)
            if op in ("<", ">", "<=", ">="):
                if isinstance(a, (Special, ForLoop)) or isinstance(b, (Special, ForLoop)):
                    raise Undoc("ordering with empty/blank/forloop")
                return liquid_order(op, a, b)
            if op == "contains":
                return liquid_contains(self._cv(a), self._cv(b))
            if op == "in":
                return liquid_contains(self._cv(b), self._cv(a))
            raise Undoc(f"operator {op}")
        return truthy(self.prim(c))

    def _cv(self, v: Any) -> Any:
        if isinstance(v, Range):
            raise Undoc("contains with a range")
        if isinstance(v, ForLoop):
            raise Undoc("contains with forloop")
        if v is UNDEF:
            return None
        return v

    # ----------------------------------------------------------------- blank blocks

    def stmt_blank(self, s: dict[str, Any]) -> bool | None:  # noqa: PLR0911
        t = s["t"]
        if t == "text":
            x = self.texts[id(s)]
            return not x or x.isspace()
        if t == "raw":
            x = self.raw_text(s)
            return not x or x.isspace()
        if t in OUTPUT_KINDS:
            return False
        if t in ("comment", "assign", "break", "continue"):
            return True
        if t in ("capture", "macro"):
            # the captured / defined content is inside the block but is not output: docs unclear
            return True if self.block_blank(s["body"]) is True else None
        if t in ("if", "unless", "case", "for", "with", "liquid"):
            sts = [self.block_blank(b) for b in _blocks(s)]
            if any(x is False for x in sts):
                return False
            if any(x is None for x in sts):
                return None
            return True
        raise Undoc(f"statement {t}")

    def block_blank(self, stmts: list[dict[str, Any]]) -> bool | None:
        sts = [self.stmt_blank(s) for s in stmts]
        if any(x is False for x in sts):
            return False
        if any(x is None for x in sts):
            return None
        return True

    def cond_block(self, stmts: list[dict[str, Any]], out: list[Any]) -> None:
        """A block of a conditional tag (if/elsif/else/unless/when/for): whitespace_control.md
        'a conditional block containing no template content or output statements should not
        render its whitespace'."""
        if not self.suppress:
            self.block(stmts, out)
            return
        st = self.block_blank(stmts)
        if st is False:
            self.block(stmts, out)
            return
        buf: list[Any] = []
        try:
            self.block(stmts, buf)
        finally:
            if st is None:
                txt = "".join(x.text if isinstance(x, Ambig) else x for x in buf)
                if txt:
                    out.append(Ambig(txt))

    def plain_block(self, stmts: list[dict[str, Any]], out: list[Any]) -> None:
        """Body of with / capture / macro: not a conditional block, so the docs do not say
        whether its whitespace is suppressed when it is blank."""
        if not self.suppress or self.block_blank(stmts) is False:
            self.block(stmts, out)
            return
        buf: list[Any] = []
        try:
            self.block(stmts, buf)
        finally:
            txt = "".join(x.text if isinstance(x, Ambig) else x for x in buf)
            if txt:
                out.append(Ambig(txt))

    def raw_text(self, s: dict[str, Any]) -> str:
        w = s.get("wc4") or ["", "", "", ""]
        return trim(s["s"], w[1], w[2], self.default_trim)

    # ----------------------------------------------------------------- statements

    def block(self, stmts: list[dict[str, Any]], out: list[Any]) -> None:
        for s in stmts:
            self.stmt(s, out)

    def write(self, out: list[Any], v: Any) -> None:
        out.append(to_str(self._plain_out(v)))

    def stmt(self, s: dict[str, Any], out: list[Any]) -> None:  # noqa: PLR0911, PLR0912, PLR0915
        t = s["t"]
        self.steps += 1
        if self.steps > 20000:
            raise Undoc("model step budget")
        if t == "text":
            out.append(self.texts[id(s)])
        elif t in ("out", "echo"):
            self.write(out, self.fexpr(s["e"]))
        elif t == "raw":
            out.append(self.raw_text(s))
        elif t == "comment":
            pass
        elif t == "assign":
            v = self.fexpr(s["e"])
            if isinstance(v, (Special, ForLoop)):
                raise Undoc("assigning empty/blank/forloop")
            self.locals[s["name"]] = v
        elif t == "capture":
            buf: list[Any] = []
            try:
                self.plain_block(s["body"], buf)
            except (_Break, _Continue):
                raise Undoc("break/continue leaving a capture block") from None
            if any(isinstance(x, Ambig) for x in buf):
                raise Undoc("captured text depends on blank-block suppression of a non-conditional block")
            self.locals[s["name"]] = "".join(buf)
        elif t in ("if", "unless"):
            self.trace.add(t)
            c = self.test(s["cond"])
            if t == "unless":
                c = not c
            if c:
                self.cond_block(s["body"], out)
                return
            for ec, eb in s.get("elsifs") or []:
                if self.test(ec):
                    self.cond_block(eb, out)
                    return
            if s.get("else") is not None:
                self.cond_block(s["else"], out)
        elif t == "case":
            self.trace.add(t)
            subj = self.prim(s["e"])
            if isinstance(subj, ForLoop):
                raise Undoc("case on forloop")
            matched = False
            for vals, body in s["whens"]:
                hits = 0
                for v in vals:
                    w = self.prim(v)
                    if isinstance(w, ForLoop):
                        raise Undoc("when forloop")
                    if isinstance(subj, Special) and isinstance(w, Special):
                        raise Undoc("case special/special")
                    hits += 1 if liquid_eq(subj, w) else 0
                if hits > 1:
                    raise Undoc("two values of one `when` match")
                if hits:
                    matched = True
                    self.cond_block(body, out)
            if not matched and s.get("else") is not None:
                self.cond_block(s["else"], out)
        elif t == "for":
            self.trace.add(t)
            self.for_loop(s, out)
        elif t == "break":
            raise _Break()
        elif t == "continue":
            raise _Continue()
        elif t in ("increment", "decrement"):
            name = s["name"]
            cur = self.counters.get(name, 0)
            if t == "increment":
                out.append(str(cur))
                self.counters[name] = cur + 1
            else:
                self.counters[name] = cur - 1
                out.append(str(cur - 1))
        elif t == "cycle":
            self.cycle(s, out)
        elif t == "liquid":
            self.block(s["body"], out)
        elif t == "with":
            self.with_tag(s, out)
        elif t == "macro":
            self.macros[s["name"]] = s
        elif t == "call":
            self.call(s, out)
        elif t == "include":
            self.include(s, out)
        elif t == "render":
            self.render_tag(s, out)
        else:
            raise Undoc(f"statement {t}")

    # ----------------------------------------------------------------- for

    def iterable(self, e: list[Any]) -> list[Any]:
        v = self.left(e)
        if isinstance(v, list):
            return list(v)
        if isinstance(v, Range):
            return v.items()
        if isinstance(v, dict):
            return [[k, x] for k, x in v.items()]  # docs: a for loop iterates mapping items
        if isinstance(v, str):
            return list(v)  # CTS 'tags, for, string'
        if v is UNDEF:
            return []  # docs: 'you can ... iterate an undefined variable without error'
        raise Undoc(f"for over {type(v).__name__}")

    def _count(self, e: Any, what: str) -> int:
        v = self.prim(e)
        if isinstance(v, bool) or not isinstance(v, int):
            raise Undoc(f"{what} that is not an integer")
        if v < 0:
            raise Undoc(f"negative {what}")
        return v

    def for_loop(self, s: dict[str, Any], out: list[Any]) -> None:
        items = self.iterable(s["iter"])
        # docs: 'a previous loop with the same iterable'; CTS: and the same loop variable
        key = s["var"] + "-" + json.dumps(s["iter"], sort_keys=True).replace('["si",', '["i",')
        limit = self._count(s["limit"], "limit") if s.get("limit") is not None else None
        off = s.get("offset")
        if off == "continue":
            if key in self.active_keys:
                raise Undoc("offset:continue nested in a loop with the same name")
            if key not in self.offsets and any(k != key and k.startswith(s["var"] + "-") and v == items and items
                                               for k, v in self.offset_items.items()):
                raise Undoc("offset:continue after a loop over an equal iterable written differently")
            offset, exact, low = self.offsets.get(key, (0, True, 0))
            if not exact and len(items) > offset:
                raise Undoc("offset:continue after a limit that ran past the end")
            if low != offset and len(items) > low:
                raise Undoc("offset:continue after an explicit offset beyond the end of the sequence")
            self.trace.add("for:continue")
        elif off is not None:
            offset = self._count(off, "offset")
        else:
            offset = 0
        sliced = items[offset:] if limit is None else items[offset:offset + limit]
        # CTS 'offset, continue, broken': the next loop continues after the sliced window, not after
        # the last item actually rendered; a limit running past the end leaves the position open
        # an explicit offset beyond the end: 'where the previous loop left off' is the end of the sequence
        # or the offset itself; the docs do not say, so a later continue that can tell is undetermined
        self.offsets[key] = (offset + len(sliced), limit is None or offset + limit <= len(items),
                             min(offset, len(items)) + len(sliced))
        self.offset_items[key] = items
        if s.get("reversed"):
            sliced = list(reversed(sliced))
        if not sliced:
            if s.get("else") is not None:
                self.cond_block(s["else"], out)
            return
        fl = ForLoop(len(sliced), self.loops[-1] if self.loops else None)
        self.loops.append(fl)
        self.active_keys.append(key)
        sc: dict[str, Any] = {"forloop": fl}
        self.scopes.append(sc)
        try:
            for i, item in enumerate(sliced):
                fl.index0 = i
                sc[s["var"]] = item
                try:
                    self.cond_block(s["body"], out)
                except _Continue:
                    continue
                except _Break:
                    break
        finally:
            self.scopes.pop()
            self.loops.pop()
            self.active_keys.pop()

    # ----------------------------------------------------------------- cycle

    def cycle(self, s: dict[str, Any], out: list[Any]) -> None:
        vals = [self.prim(i) for i in s["items"]]
        ekey = json.dumps([s.get("group"), s["items"]], sort_keys=True)
        try:
            vkey = json.dumps([s.get("group"), [to_str(self._plain_out(v)) + ":" + type(v).__name__ for v in vals]])
        except Undoc:
            vkey = None
        # CTS: iterators are distinguished by name AND items; whether "items" means the expressions
        # or their values is not documented, so both keys must tell the same story
        e_seen, v_seen = ekey in self.cycle_expr, vkey in self.cycle_val
        if vkey is None or e_seen != v_seen or (e_seen and (self.cycle_expr[ekey] != vkey or self.cycle_val[vkey] != ekey)):
            raise Undoc("cycle whose item values changed between calls")
        self.cycle_expr[ekey] = vkey
        self.cycle_val[vkey] = ekey
        n = self.cycles.get(ekey, 0)
        self.write(out, vals[n % len(vals)])
        self.cycles[ekey] = n + 1

    # ----------------------------------------------------------------- with / macro / partials

    def _kwargs(self, args: list[list[Any]], what: str) -> dict[str, Any]:
        sc: dict[str, Any] = {}
        for name, e in args:
            if name in sc:
                raise Undoc(f"{what}: duplicate argument name")
            v = self.prim(e)
            if sc:
                # would the value differ if earlier arguments were already in scope?
                self.scopes.append(sc)
                try:
                    v2 = self.prim(e)
                finally:
                    self.scopes.pop()
                if not self._same_value(v, v2):
                    raise Undoc(f"{what}: argument refers to an earlier argument")
            if isinstance(v, (Special, ForLoop)):
                raise Undoc(f"{what}: special value as an argument")
            sc[name] = v
        return sc

    @staticmethod
    def _same_value(a: Any, b: Any) -> bool:
        if a is b:
            return True
        if isinstance(a, Range) and isinstance(b, Range):
            return (a.start, a.stop) == (b.start, b.stop)
        try:
            return type(a) is type(b) and a == b
        except Exception:  # noqa: BLE001
            return False

    def with_tag(self, s: dict[str, Any], out: list[Any]) -> None:
        sc = self._kwargs(s["args"], "with")
        self.scopes.append(sc)
        try:
            self.plain_block(s["body"], out)
        finally:
            self.scopes.pop()

    def call(self, s: dict[str, Any], out: list[Any]) -> None:
        m = self.macros.get(s["name"])
        if m is None:
            raise Undoc("call of an undefined macro")
        self.trace.add("call")
        params = m["params"]
        pos = [self.prim(a) for a in s["args"]]
        kws = self._kwargs(s["kwargs"], "call")
        for v in pos:
            if isinstance(v, (Special, ForLoop)):
                raise Undoc("call: special value as an argument")
        child = self.child()
        bound: dict[str, Any] = {}
        names = [p[0] for p in params]
        if len(set(names)) != len(names):
            raise Undoc("macro: duplicate parameter")
        for (pname, _d), v in zip(params, pos):
            bound[pname] = v
        extra = pos[len(params):]
        kwextra: dict[str, Any] = {}
        for k, v in kws.items():
            if k in bound:
                raise Undoc("call: keyword argument for a parameter already bound positionally")
            if k in names:
                bound[k] = v
            else:
                kwextra[k] = v
        for pname, d in params:
            if pname in bound:
                continue
            if d is None:
                bound[pname] = UNDEF
                continue
            # docs: defaults are evaluated when the call is evaluated; in which scope is not
            # said, so the caller's and the macro's own scope must agree
            v1 = self.prim(d)
            child.scopes.append(dict(bound))
            try:
                v2 = child.prim(d)
            finally:
                child.scopes.pop()
            if not self._same_value(v1, v2):
                raise Undoc("macro default that depends on the evaluation scope")
            bound[pname] = v1
        if "args" in names or "kwargs" in names:
            raise Undoc("parameter named args/kwargs")
        bound["args"] = extra
        bound["kwargs"] = kwextra
        child.scopes.append(bound)
        child.include_disabled = self.include_disabled
        try:
            child.plain_block(m["body"], out)
        except (_Break, _Continue):
            raise Undoc("break/continue leaving a macro") from None

    def _template(self, name: str) -> list[dict[str, Any]]:
        body = self.program["templates"].get(name)
        if body is None:
            raise Undoc("template not found")
        if name not in self.resolved:
            self.texts.update(resolve_texts(body, self.default_trim))
            self.resolved.add(name)
        return body

    def _binding(self, s: dict[str, Any], name: str) -> tuple[str, bool]:
        """(variable name, documented?)  docs: 'By default, that variable will be the name of
        the included template'; nothing is said about paths and extensions."""
        if s.get("alias") is not None:
            return s["alias"], True
        base = name.rsplit("/", 1)[-1].split(".")[0]
        return base, base == name

    def include(self, s: dict[str, Any], out: list[Any]) -> None:
        if self.include_disabled:
            raise OtherErr("include inside render")  # CTS 'tags, render, include'
        name = s["name"][1]
        body = self._template(name)
        self.trace.add("include")
        sc = self._kwargs(s.get("args") or [], "include")
        runs: list[dict[str, Any]] = [{}]
        if s.get("var") is not None:
            v = self.prim(s["var"])
            var, documented = self._binding(s, name)
            if var in sc:
                raise Undoc("include: binding and keyword argument share a name")
            if isinstance(v, (Special, ForLoop)):
                raise Undoc("include: special bound value")
            if isinstance(v, Range) or isinstance(v, list):
                seq = v.items() if isinstance(v, Range) else list(v)
                if isinstance(v, Range) and not s.get("loop"):
                    raise Undoc("include with a range")
            elif s.get("loop"):
                if isinstance(v, (str, dict)):
                    raise Undoc("include for a string/hash")
                seq = [] if is_nil(v) else [v]
                if is_nil(v):
                    raise Undoc("include for nil")
            else:
                seq = [v]
            looped = isinstance(v, (list, Range))
            runs = []
            for item in seq:
                b: dict[str, Any] = {var: item if documented else UndocBinding("binding name of a template with a path/extension")}
                if looped:
                    b["forloop"] = UndocBinding("forloop inside include ... for")
                runs.append(b)
        for b in runs:
            self.scopes.append({**sc, **b})
            try:
                self.block(body, out)
            finally:
                self.scopes.pop()

    def render_tag(self, s: dict[str, Any], out: list[Any]) -> None:
        name = s["name"][1]
        body = self._template(name)
        self.trace.add("render")
        sc = self._kwargs(s.get("args") or [], "render")
        runs: list[dict[str, Any]] = [{}]
        if s.get("var") is not None:
            v = self.prim(s["var"])
            var, documented = self._binding(s, name)
            if var in sc:
                raise Undoc("render: binding and keyword argument share a name")
            if isinstance(v, (Special, ForLoop)):
                raise Undoc("render: special bound value")
            runs = []
            if s.get("loop"):
                if isinstance(v, Range):
                    seq = v.items()
                elif isinstance(v, list):
                    seq = list(v)
                else:
                    raise Undoc("render for a non-array")
                fl = ForLoop(len(seq), None)  # CTS 'forloop drop, no parentloop'
                for i, item in enumerate(seq):
                    runs.append({var: item, "forloop": (fl, i)})
            else:
                runs.append({var: v})
            if not documented:
                for r in runs:
                    r[var] = UndocBinding("binding name of a template with a path/extension")
        if len(runs) > 1 and stmt_kinds(body) & {"assign", "capture"}:
            raise Undoc("render ... for: whether assignments persist between iterations is not documented")
        for b in runs:
            child = self.child()
            child.include_disabled = True
            scope = {**sc, **b}
            if "forloop" in scope:
                fl, i = scope["forloop"]
                fl.index0 = i
                scope["forloop"] = fl
                child.loops.append(fl)
            child.scopes.append(scope)
            try:
                child.block(body, out)
            except (_Break, _Continue):
                raise Undoc("break/continue leaving a rendered template") from None


def render(program: dict[str, Any], data: dict[str, Any], *, default_trim: str = "+", suppress: bool = True,
           shorthand: bool = False, trace: set[str] | None = None,
           known: frozenset[str] = frozenset()) -> tuple[str, str]:
    interp_filters.ACTIVE_KNOWN = frozenset(known)
    why = supported(program, shorthand)
    if why is not None:
        return ("unsup", why)
    it = Interp(program, data, default_trim, suppress, shorthand)
    if trace is not None:
        it.trace = trace
    out: list[Any] = []
    try:
        it.texts.update(resolve_texts(program["main"], default_trim))
        it.block(program["main"], out)
    except Undoc as u:
        return ("unsup", str(u))
    except TypeErr:
        return ("err", "type")
    except OtherErr:
        return ("err", "other")
    except (_Break, _Continue):
        return ("unsup", "break/continue at the top level")
    except RecursionError:
        return ("unsup", "model recursion")
    if any(isinstance(x, Ambig) for x in out):
        return ("unsup", "whitespace of a blank non-conditional block (with/capture/macro): suppression not documented")
    return ("ok", "".join(out))
