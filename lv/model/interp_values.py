"""Value domain of the C01 reference interpreter (no liquid2 imports).

Written from docs/tag_reference.md, docs/variables_and_drops.md, docs/filter_reference.md and
the CTS golden cases.  Anything the documentation does not pin down raises `Undoc`: the
case is then skipped (counted), never asserted.
"""

from __future__ import annotations

import re
from typing import Any


class Undoc(Exception):
    """The documentation does not say what happens here."""


class TypeErr(Exception):
    """The documented semantics prescribe a type error."""


class OtherErr(Exception):
    """The documented semantics prescribe some other error (zero division, disabled tag)."""


class Undef:
    __slots__ = ()

    def __repr__(self) -> str:
        return "UNDEF"


UNDEF = Undef()


class Special:
    __slots__ = ("name",)

    def __init__(self, name: str) -> None:
        self.name = name

    def __repr__(self) -> str:
        return self.name


EMPTY = Special("empty")
BLANK = Special("blank")


class UndocBinding:
    """A name whose binding the docs leave open; looking it up raises Undoc."""

    __slots__ = ("why",)

    def __init__(self, why: str) -> None:
        self.why = why


class Range:
    __slots__ = ("start", "stop")

    def __init__(self, start: int, stop: int) -> None:
        self.start = start
        self.stop = stop

    def items(self) -> list[int]:
        if self.stop - self.start > 5000:
            raise Undoc("huge range")
        return list(range(self.start, self.stop + 1))

    def __len__(self) -> int:
        return max(self.stop - self.start + 1, 0)


class ForLoop:
    __slots__ = ("length", "index0", "parent")

    def __init__(self, length: int, parent: Any) -> None:
        self.length = length
        self.index0 = 0
        self.parent = parent

    def get(self, key: str) -> Any:
        i, n = self.index0, self.length
        if key == "index":
            return i + 1
        if key == "index0":
            return i
        if key == "rindex":
            return n - i
        if key == "rindex0":
            return n - i - 1
        if key == "first":
            return i == 0
        if key == "last":
            return i == n - 1
        if key == "length":
            return n
        if key == "parentloop":
            return self.parent if self.parent is not None else UNDEF
        raise Undoc(f"forloop.{key}")


class Ambig:
    """Whitespace whose suppression the docs leave open (blank non-conditional block)."""

    __slots__ = ("text",)

    def __init__(self, text: str) -> None:
        self.text = text


def is_num(v: Any) -> bool:
    return isinstance(v, (int, float)) and not isinstance(v, bool)


def is_nil(v: Any) -> bool:
    return v is None or v is UNDEF


def truthy(v: Any) -> bool:
    """docs: only false, nil and undefined are falsy."""
    if isinstance(v, (Special, ForLoop)):
        raise Undoc("truthiness of empty/blank/forloop")
    return not (v is None or v is UNDEF or v is False)


def float_text(f: float) -> str:
    r = repr(f)
    if "e" in r or "n" in r:  # exponent form, inf, nan: not documented
        raise Undoc("float repr with exponent / non-finite")
    return r


def to_str(v: Any) -> str:
    """Output stringification (docs + CTS): nil/undefined -> '', true/false, numbers,
    ranges 'a..b', arrays concatenated."""
    if isinstance(v, str):
        return v
    if v is None or v is UNDEF:
        return ""
    if isinstance(v, bool):
        return "true" if v else "false"
    if isinstance(v, int):
        return str(v)
    if isinstance(v, float):
        return float_text(v)
    if isinstance(v, Range):
        if v.start > v.stop:
            raise Undoc("stringified descending range")
        return f"{v.start}..{v.stop}"
    if isinstance(v, list):
        return "".join(to_str(i) for i in v)
    if isinstance(v, dict):
        if not v:
            return "{}"
        raise Undoc("stringified hash")
    raise Undoc(f"stringified {type(v).__name__}")


def _conflates(a: Any, b: Any) -> bool:
    """Python == would call them equal although Liquid keeps bool and numbers apart."""
    if isinstance(a, bool) != isinstance(b, bool):
        return is_num(a) or is_num(b)
    return False


def deep_eq(a: Any, b: Any) -> bool:
    if isinstance(a, list) and isinstance(b, list):
        return len(a) == len(b) and all(deep_eq(x, y) for x, y in zip(a, b))
    if isinstance(a, dict) and isinstance(b, dict):
        return a.keys() == b.keys() and all(deep_eq(a[k], b[k]) for k in a)
    if isinstance(a, (list, dict)) or isinstance(b, (list, dict)):
        return False
    return liquid_eq(a, b)


def _special_eq(v: Any, sp: Special) -> bool:
    if isinstance(v, Special):
        raise Undoc("empty/blank compared with empty/blank")
    if isinstance(v, str):
        if sp is EMPTY:
            return v == ""
        if v == "":
            return True
        if all(ch in " \t\r\n" for ch in v):
            return True
        if v.strip() == "":
            raise Undoc("blank vs non-ASCII whitespace")
        return False
    if is_num(v):
        return False
    if isinstance(v, (list, dict)) and sp is EMPTY:
        return len(v) == 0
    raise Undoc(f"{type(v).__name__} compared with {sp.name}")


def liquid_eq(a: Any, b: Any) -> bool:
    """`==` (docs + CTS): nil == undefined, bool and int are distinct, numbers by value,
    arrays element-wise, ranges by bounds, empty/blank specials."""
    if isinstance(a, Special):
        return _special_eq(b, a)
    if isinstance(b, Special):
        return _special_eq(a, b)
    if isinstance(a, (ForLoop,)) or isinstance(b, (ForLoop,)):
        raise Undoc("forloop equality")
    if is_nil(a) or is_nil(b):
        return is_nil(a) and is_nil(b)
    if isinstance(a, bool) or isinstance(b, bool):
        return isinstance(a, bool) and isinstance(b, bool) and a == b
    if is_num(a) and is_num(b):
        return a == b
    if isinstance(a, Range) or isinstance(b, Range):
        if isinstance(a, Range) and isinstance(b, Range):
            return (a.start, a.stop) == (b.start, b.stop)
        if isinstance(a, list) or isinstance(b, list):
            raise Undoc("range == array")
        return False
    if isinstance(a, (list, dict)) or isinstance(b, (list, dict)):
        return deep_eq(a, b)
    if type(a) is type(b):
        return a == b
    return False


def liquid_order(op: str, a: Any, b: Any) -> bool:
    """< > <= >= (CTS): numbers with numbers, strings with strings; int/float/str mixed is a
    type error; any other operand type is not documented."""
    if is_num(a) and is_num(b):
        pass
    elif isinstance(a, str) and isinstance(b, str):
        pass
    elif (is_num(a) or isinstance(a, str)) and (is_num(b) or isinstance(b, str)):
        raise TypeErr(f"{op} between {type(a).__name__} and {type(b).__name__}")
    else:
        raise Undoc(f"{op} with {type(a).__name__}/{type(b).__name__}")
    if op == "<":
        return a < b
    if op == ">":
        return a > b
    if op == "<=":
        return a <= b
    return a >= b


def liquid_contains(hay: Any, needle: Any) -> bool:
    """contains / in (CTS): substring with the needle stringified, array membership, hash key."""
    if isinstance(hay, str):
        if isinstance(needle, str):
            return needle in hay
        if isinstance(needle, int) and not isinstance(needle, bool):
            return str(needle) in hay
        raise Undoc("contains: string haystack with non string/int needle")
    if isinstance(hay, list):
        if isinstance(needle, (Special, ForLoop)):
            raise Undoc("contains special")
        return any(deep_eq(i, needle) for i in hay)
    if isinstance(hay, dict):
        if isinstance(needle, str):
            return needle in hay
        raise Undoc("contains: hash with non-string key")
    raise Undoc(f"contains on {type(hay).__name__}")


NUM_LIT = re.compile(r"-?\d+(\.\d+)?([eE][+-]?\d+)?")


def float_literal(sp: str) -> Any:
    """CTS: 1e2 -> 100 (integer), 1e-2 -> 0.01, 1.2e3 float."""
    if not NUM_LIT.fullmatch(sp):
        raise Undoc("numeric spelling")
    if "." in sp or "e-" in sp.lower():
        return float(sp)
    return int(float(sp)) if "e" in sp.lower() else int(sp)
