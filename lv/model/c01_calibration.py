"""Calibration table for the C01 reference model: (name, program, data, expected text | None for
an error) triples transcribed by hand from docs/*.md examples and CTS golden cases (the CTS
name is quoted).  Expected texts are for the default environment (default_trim '+',
suppression on, shorthand off).  No liquid2 imports.
"""

from __future__ import annotations

from typing import Any

NW = ["", ""]


def T(s: str) -> dict[str, Any]:
    return {"t": "text", "s": s}


def S(s: str) -> list[Any]:
    return ["str", s]


def I(n: int) -> list[Any]:  # noqa: E743
    return ["int", n]


def F(sp: str) -> list[Any]:
    return ["float", sp]


def P(root: str, *segs: Any) -> list[Any]:
    out = []
    for s in segs:
        if isinstance(s, int):
            out.append(["i", s])
        elif isinstance(s, str):
            out.append(["n", s])
        else:
            out.append(["p", s])
    return ["path", root, out]


def R(a: Any, b: Any) -> list[Any]:
    return ["range", I(a) if isinstance(a, int) else a, I(b) if isinstance(b, int) else b]


TRUE, FALSE, NIL, EMPTY, BLANK = ["true"], ["false"], ["nil"], ["empty"], ["blank"]


def fl(name: str, *args: Any, **kw: Any) -> dict[str, Any]:
    a = [x if (isinstance(x, list) and x and x[0] in ("lambda",)) else ["pos", x] for x in args]
    a += [["kw", k, v] for k, v in kw.items()]
    return {"name": name, "args": a}


def LAM(params: list[str], body: Any) -> list[Any]:
    return ["lambda", params, body]


def X(left: Any, *filters: dict[str, Any]) -> list[Any]:
    return ["filtered", left, list(filters)] if filters else left


def O(e: Any, *filters: dict[str, Any], wc: list[str] | None = None) -> dict[str, Any]:  # noqa: E743
    return {"t": "out", "e": X(e, *filters), "wc": wc or NW}


def ECHO(e: Any, *filters: dict[str, Any]) -> dict[str, Any]:
    return {"t": "echo", "e": X(e, *filters), "wc": NW}


def A(name: str, e: Any, *filters: dict[str, Any], wc: list[str] | None = None) -> dict[str, Any]:
    return {"t": "assign", "name": name, "e": X(e, *filters), "wc": wc or NW}


def CAP(name: str, *body: dict[str, Any], wc: list[str] | None = None, wc_end: list[str] | None = None) -> dict[str, Any]:
    return {"t": "capture", "name": name, "body": list(body), "wc": wc or NW, "wc_end": wc_end or NW}


def IF(cond: Any, body: list[Any], els: list[Any] | None = None, elsifs: list[Any] | None = None, t: str = "if",
       wc: list[str] | None = None, wc_end: list[str] | None = None, wc_else: list[str] | None = None) -> dict[str, Any]:
    ei = elsifs or []
    return {"t": t, "cond": cond, "body": body, "elsifs": ei, "wc_elsifs": [NW for _ in ei], "else": els,
            "wc": wc or NW, "wc_end": wc_end or NW, "wc_else": wc_else or NW}


def UNLESS(cond: Any, body: list[Any], els: list[Any] | None = None, elsifs: list[Any] | None = None) -> dict[str, Any]:
    return IF(cond, body, els, elsifs, t="unless")


def CMP(op: str, a: Any, b: Any) -> list[Any]:
    return ["cmp", op, a, b]


def CASE(e: Any, whens: list[Any], els: list[Any] | None = None, lead: str = "", wc: list[str] | None = None,
         wc_whens: list[list[str]] | None = None) -> dict[str, Any]:
    return {"t": "case", "e": e, "whens": whens, "else": els, "lead_ws": lead, "wc": wc or NW, "wc_end": NW,
            "wc_else": NW, "wc_whens": wc_whens or [NW for _ in whens]}


def FOR(var: str, it: Any, body: list[Any], els: list[Any] | None = None, wc: list[str] | None = None,
        wc_end: list[str] | None = None, **opts: Any) -> dict[str, Any]:
    s = {"t": "for", "var": var, "iter": it, "body": body, "else": els, "wc": wc or NW, "wc_end": wc_end or NW,
         "wc_else": NW, "reversed": bool(opts.get("reversed"))}
    if "limit" in opts:
        s["limit"] = opts["limit"]
    if "offset" in opts:
        s["offset"] = opts["offset"]
    return s


def TAG(t: str, **kw: Any) -> dict[str, Any]:
    return {"t": t, "wc": NW, **kw}


def INC(name: str) -> dict[str, Any]:
    return TAG("increment", name=name)


def DEC(name: str) -> dict[str, Any]:
    return TAG("decrement", name=name)


def CYCLE(*items: Any, group: str | None = None) -> dict[str, Any]:
    return TAG("cycle", group=group, items=list(items))


def LIQUID(*body: dict[str, Any]) -> dict[str, Any]:
    return TAG("liquid", body=list(body))


def WITH(args: list[Any], *body: dict[str, Any]) -> dict[str, Any]:
    return {"t": "with", "args": args, "body": list(body), "wc": NW, "wc_end": NW}


def MACRO(name: str, params: list[Any], *body: dict[str, Any]) -> dict[str, Any]:
    return {"t": "macro", "name": name, "params": params, "body": list(body), "wc": NW, "wc_end": NW}


def CALL(name: str, args: list[Any] | None = None, kwargs: list[Any] | None = None) -> dict[str, Any]:
    return TAG("call", name=name, args=args or [], kwargs=kwargs or [])


def PART(t: str, name: str, var: Any = None, loop: bool = False, alias: str | None = None,
         args: list[Any] | None = None) -> dict[str, Any]:
    return TAG(t, name=S(name), var=var, loop=loop, alias=alias, args=args or [])


def COMMENT(kind: str, s: str = " c ", wc: list[str] | None = None) -> dict[str, Any]:
    return {"t": "comment", "kind": kind, "s": s, "hashes": 1, "wc": wc or NW}


def RAW(s: str, wc4: list[str] | None = None) -> dict[str, Any]:
    return {"t": "raw", "s": s, "wc4": wc4 or ["", "", "", ""]}


BRK, CONT = TAG("break"), TAG("continue")

_T: list[tuple[str, list[Any], dict[str, Any], dict[str, Any], Any]] = []


def add(name: str, main: list[Any], want: Any, data: dict[str, Any] | None = None,
        templates: dict[str, list[Any]] | None = None) -> None:
    _T.append((name, main, templates or {}, data or {}, want))


B3 = {"b": [1, 2, 3]}
B5 = {"b": [1, 2, 3, 4, 5]}
B6 = {"b": [1, 2, 3, 4, 5, 6]}
a_, b_, x_ = P("a"), P("b"), P("x")

# ---- output / stringification
add("output, string literal", [O(S("a"))], "a")
add("output, integer literal, negative", [O(I(-1))], "-1")
add("output, float literal", [O(F("1.1"))], "1.1")
add("output, integer literal, exponent", [O(F("1e2"))], "100")
add("output, float literal, negative exponent", [O(F("1e-2"))], "0.01")
add("output, null", [O(NIL)], "")
add("output, range", [O(R(1, 3))], "1..3")
add("output, path, negative array index", [O(P("a", "b", -1))], "3", {"a": {"b": [1, 2, 3]}})
add("output, path, array index from variable", [A("x", I(1)), O(P("a", "b", x_))], "2", {"a": {"b": [1, 2, 3]}})
add("output, path, names from variables", [O(P("site", "data", "menu", P("include", "menu"), P("include", "locale")))],
    "it works!", {"site": {"data": {"menu": {"foo": {"bar": "it works!"}}}}, "include": {"menu": "foo", "locale": "bar"}})
add("output, path, bracket notation, root", [O(P("a b c"))], "d", {"a b c": "d"})
add("output, comma separated value", [O(["array", [b_, P("c"), S("d")]])], "12d", {"b": 1, "c": 2})
add("output, comma separated value, filtered", [O(["array", [b_, P("c"), S("d")]], fl("join", S("#")))], "1#2#d", {"b": 1, "c": 2})
add("divided by, render", [O(F("5.0")), T(" "), O(I(5))], "5.0 5")
add("docs: variables_and_drops paths", [O(P("products", 0, "title")), T("\n"), O(P("products", -2, "available")), T("\n"),
                                        O(P("products", "last", "title")), T("\n"), O(P("products", "first", "colors"), fl("join", S(", ")))],
    "Some Shoes\n5\nA Hat\nblue, red",
    {"products": [{"title": "Some Shoes", "available": 5, "colors": ["blue", "red"]}, {"title": "A Hat", "available": 2, "colors": ["grey", "brown"]}]})
add("special, first of a string", [O(P("s", "first")), O(P("s", "last")), O(P("s", "size"))], "ho5", {"s": "hello"})
add("special, first of an object", [O(P("obj", "first"), fl("join", S("#")))], "a#1", {"obj": {"a": 1, "b": 2}})
add("special, last of a object", [O(P("obj", "last"))], "", {"obj": {"a": 1, "b": 2}})
add("special, size of an object with a size property", [O(P("obj", "size"))], "99", {"obj": {"size": 99}})
add("special, size of an int", [O(P("x", "size"))], "", {"x": 1})
add("special, size of undefined", [O(P("nosuchthing", "last"))], "")
add("docs: template string", [A("m", ["tstr", ["Hello, ", P("customer", "name"), "!"]]), O(P("m"))], "Hello, Sue!", {"customer": {"name": "Sue"}})
add("docs: migration template string filter", [A("g", ["tstr", ["Hello, ", X(P("you"), fl("capitalize")), "!"]]), O(P("g"))], "Hello, Sue!", {"you": "sue"})

# ---- ternary
add("output, ternary expression, truthy filter", [O(["ternary", X(S("b"), fl("upcase")), TRUE, S("c"), [], []])], "B")
add("output, ternary expression, falsy filter", [O(["ternary", S("b"), FALSE, S("c"), [fl("upcase")], []])], "C")
add("output, ternary expression, truthy, falsy filter", [O(["ternary", S("b"), TRUE, S("c"), [fl("upcase")], []])], "b")
add("output, ternary expression, tail filter", [O(["ternary", S("b"), TRUE, S("c"), [], [fl("upcase")]])], "B")
add("docs: ternary tail filters", [O(["ternary", S("bar"), x_, S("baz"), [], [fl("upcase"), fl("append", S("!"))]])], "BAZ!")
add("docs: ternary no else", [T("["), O(["ternary", S("bar"), x_, None, [], []]), T("]")], "[]")
add("find, lambda, not found", [A("x", a_, fl("find", LAM(["i"], CMP("==", P("i", "title"), S("42"))))),
                                O(["ternary", P("x", "title"), x_, S("not found"), [], []])], "not found",
    {"a": [{"title": "foo"}, {"title": "bar"}]})

# ---- assign / capture
add("tags, assign, shadow global variable", [O(a_), A("a", S("c")), O(a_)], "bc", {"a": "b"})
add("tags, assign, range literal", [A("a", R(1, 3)), O(a_, fl("join", S("#")))], "1#2#3")
add("tags, capture, content with global variables", [CAP("a", T("Hello, "), O(b_), T("!")), O(a_)], "Hello, you!", {"b": "you"})
add("tags, capture, empty block", [CAP("a"), O(a_)], "")
add("docs: assign then reassign", [A("foo", S("bar")), T("foo is equal to "), O(P("foo")), T(".\n"), A("foo", I(42)),
                                   T("foo is now equal to "), O(P("foo")), T(".")], "foo is equal to bar.\nfoo is now equal to 42.")

# ---- if / unless / conditions
add("tags, if, literal false, truthy alternative", [IF(FALSE, [T("a")], None, [[TRUE, [T("b")]]])], "b")
add("tags, if, literal false, falsy alternative, final alternative", [IF(FALSE, [T("a")], [T("c")], [[FALSE, [T("b")]]])], "c")
add("tags, if, equality, truthy, float and integer", [IF(CMP("==", a_, I(1)), [T("b")])], "b", {"a": 1.0})
add("tags, if, less than, truthy, strings", [IF(CMP("<", S("abc"), S("acb")), [T("x")])], "x")
add("tags, if, non-empty hash is truthy", [IF(a_, [T("d")])], "d", {"a": {"b": "c"}})
add("tags, if, undefined variables are equal to null", [IF(CMP("==", P("nosuchthing"), NIL), [T("a")], [T("b")])], "a")
add("tags, if, contains, array of integers", [IF(CMP("contains", a_, I(1)), [T("b")])], "b", {"a": [1, 2, 3]})
add("tags, if, in, falsy, array of integers", [IF(CMP("in", I(5), a_), [T("b")], [T("c")])], "c", {"a": [1, 2, 3]})
add("tags, if, contains, string and integer", [IF(CMP("contains", S("foo2bar"), I(2)), [T("a")], [T("b")])], "a")
add("tags, if, contains, truthy, hash", [IF(CMP("contains", a_, S("b")), [T("c")])], "c", {"a": {"b": False}})
add("tags, if, in, falsy, hash", [IF(CMP("in", S("a"), b_), [T("c")], [T("d")])], "d", {"b": {"e": True}})
add("tags, if, not equal, alternative operator", [IF(CMP("!=", a_, S("b")), [T("c")])], "c", {"a": "d"})
add("tags, if, empty string is truthy", [IF(S(""), [T("a")])], "a")
add("tags, if, empty array is truthy", [IF(a_, [T("b")])], "b", {"a": []})
add("tags, if, empty array is equal to special empty", [IF(CMP("==", a_, EMPTY), [T("b")])], "b", {"a": []})
add("tags, if, empty hash is equal to special empty", [IF(CMP("==", a_, EMPTY), [T("b")])], "b", {"a": {}})
add("tags, if, whitespace only string is equal to special blank", [IF(CMP("==", S("  "), BLANK), [T("a")])], "a")
add("tags, if, equality, range literal", [A("a", R(1, 3)), IF(CMP("==", a_, R(1, 3)), [T("a")])], "a")
add("tags, if, equality, arrays", [A("a", S("a,b,c"), fl("split", S(","))), IF(CMP("==", a_, b_), [T("c")])], "c", {"b": ["a", "b", "c"]})
add("tags, if, equality, string and integer", [IF(CMP("==", I(1), S("1")), [T("a")], [T("b")])], "b")
add("tags, if, greater than, string and integer", [IF(CMP(">", I(2), S("1")), [T("a")], [T("b")])], None)
add("tags, if, logical not, true literal", [IF(["not", TRUE], [T("a")], [T("b")])], "b")
add("tags, if, logical and binds more tightly than or", [IF(["or", ["and", TRUE, ["and", FALSE, FALSE]], TRUE], [T("a")], [T("b")])], "a")
add("tags, if, group terms with parentheses", [IF(["grp", ["and", TRUE, ["grp", ["and", FALSE, ["grp", ["or", FALSE, TRUE]]]]]], [T("a")], [T("b")])], "b")
add("tags, if, zero is not equal to false", [IF(CMP("==", I(0), FALSE), [T("a")], [T("b")])], "b")
add("tags, if, zero is truthy", [IF(I(0), [T("a")], [T("b")])], "a")
add("tags, if, float zero is truthy", [IF(F("0.0"), [T("a")], [T("b")])], "a")
add("docs: if operator precedence", [IF(["or", ["grp", ["and", CMP("!=", P("user"), EMPTY), ["and", P("user", "eligible"), CMP(">", P("user", "score"), I(100))]]], P("exempt")],
                                       [T("special")], [T("denied")])], "special", {"user": {"eligible": True, "score": 101}})
add("docs: migration not", [IF(["not", P("user")], [T("please log in")], [T("hello user")])], "please log in")
add("tags, unless, literal true, truthy alternative", [UNLESS(TRUE, [T("a")], None, [[TRUE, [T("b")]]])], "b")
add("tags, unless, falsy alternative, final alternative", [UNLESS(TRUE, [T("a")], [T("c")], [[FALSE, [T("b")]]])], "c")
add("tags, unless, literal false", [UNLESS(FALSE, [T("a")])], "a")
add("docs: unless example", [UNLESS(CMP("==", P("product", "title"), S("OK Hat")), [T("1")], [T("3")], [[CMP("==", P("product", "title"), S("Rubbish Tie")), [T("2")]]])],
    "3", {"product": {"title": "OK Hat"}})

# ---- case
add("tags, case, query, both whens", [CASE(a_, [[[S("b")], [T("c")]], [[S("b")], [T("d")]]])], "cd", {"a": "b"})
add("tags, case, or, multiple", [CASE(S("b"), [[[S("a"), S("b"), S("x")], [T("c")]], [[S("d")], [T("e")]]])], "c")
add("tags, case, default, not rendered", [CASE(S("a"), [[[S("b")], [T("c")]], [[S("a")], [T("e")]]], [T("f")])], "e")
add("tags, case, default, no whens", [CASE(S("a"), [], [T("f")])], "f")
add("tags, case, whitespace after case", [CASE(S("a"), [[[S("a")], [T("b")]]], lead="\n  ")], "b")
add("tags, case, switch on array", [CASE(a_, [[[b_], [T("c")]]])], "c", {"a": [1, 2, 3], "b": [1, 2, 3]})
add("docs: case/else only if no when matches (silent when)", [CASE(x_, [[[I(1)], []]], [T("E")])], "", {"x": 1})
add("docs: case example", [A("day", S("Sunday")), CASE(P("day"), [[[S("Monday")], [T("M")]], [[S("Saturday"), S("Sunday")], [T("W")]]], [T("D")])], "W")

# ---- for
add("tags, for, hash", [FOR("a", b_, [O(P("a", 0)), T(" "), O(P("a", 1)), T(",")])], "x 1,y 2,z 3,", {"b": {"x": 1, "y": 2, "z": 3}})
add("tags, for, empty array with default", [FOR("a", b_, [O(a_)], [T("c")])], "c", {"b": []})
add("tags, for, string", [FOR("a", S("123"), [O(a_), T(",")])], "1,2,3,")
add("tags, for, break", [FOR("a", b_, [O(a_), T(","), IF(CMP("==", a_, I(2)), [BRK])])], "1,2,", B3)
add("tags, for, continue", [FOR("a", b_, [IF(CMP("==", a_, I(2)), [CONT]), O(a_), T(",")])], "1,3,", B3)
add("tags, for, comma separated arguments", [FOR("a", b_, [O(a_), T(",")], offset=I(1), limit=I(3), reversed=True)], "4,3,2,", B5)
add("tags, for, length, limit", [FOR("a", b_, [O(a_), T(" "), O(P("forloop", "length")), T(",")], limit=I(3))], "1 3,2 3,3 3,", B5)
add("tags, for, first, offset", [FOR("a", b_, [O(a_), T(" "), O(P("forloop", "first")), T(",")], offset=I(1))], "2 true,3 false,", B3)
add("tags, for, last, limit", [FOR("a", b_, [O(a_), T(" "), O(P("forloop", "last")), T(",")], limit=I(2))], "1 false,2 true,", B3)
add("tags, for, rindex", [FOR("a", b_, [O(P("forloop", "rindex")), O(P("forloop", "rindex0")), O(P("forloop", "index")), O(P("forloop", "index0")), T(",")])], "3210,2121,1032,", B3)
add("tags, for, forloop goes out of scope", [FOR("a", b_, [O(a_)]), O(P("forloop", "length"))], "123", B3)
add("tags, for, offset, continue", [FOR("a", b_, [T("a"), O(a_), T(" ")], limit=I(3)), FOR("a", b_, [T("b"), O(a_), T(" ")], offset="continue")], "a1 a2 a3 b4 b5 b6 ", B6)
add("tags, for, offset, continue, range", [FOR("a", R(1, 6), [T("a"), O(a_), T(" ")], limit=I(3)), FOR("a", R(1, 6), [T("b"), O(a_), T(" ")], offset="continue")], "a1 a2 a3 b4 b5 b6 ")
add("tags, for, offset, continue, different loop variable", [FOR("a", b_, [T("a"), O(a_), T(" ")], limit=I(3)), FOR("x", b_, [T("b"), O(x_), T(" ")], offset="continue")],
    "a1 a2 a3 b1 b2 b3 b4 b5 b6 ", B6)
add("tags, for, offset, continue, nothing to continue from", [FOR("a", b_, [T("a"), O(a_), T(" ")]), FOR("a", b_, [T("b"), O(a_), T(" ")], offset="continue")], "a1 a2 a3 a4 a5 a6 ", B6)
add("tags, for, offset, continue, twice", [FOR("a", b_, [T("a"), O(a_), T(" ")], limit=I(2)), FOR("a", b_, [T("b"), O(a_), T(" ")], offset="continue", limit=I(2)),
                                           FOR("a", b_, [T("c"), O(a_), T(" ")], offset="continue")], "a1 a2 b3 b4 c5 c6 ", B6)
add("tags, for, offset, continue, broken", [FOR("a", b_, [IF(CMP("==", a_, I(3)), [BRK]), T("a"), O(a_), T(" ")], limit=I(4)),
                                            FOR("a", b_, [T("b"), O(a_), T(" ")], offset="continue", limit=I(2)), FOR("a", b_, [T("c"), O(a_), T(" ")], offset="continue")], "a1 a2 b5 b6 ", B6)
add("tags, for, offset, continue, forloop length", [FOR("a", b_, [O(a_), T("-"), O(P("forloop", "length")), T(" ")], limit=I(2)),
                                                    FOR("a", b_, [O(a_), T("-"), O(P("forloop", "length")), T(" ")], offset="continue")], "1-2 2-2 3-4 4-4 5-4 6-4 ", B6)
add("tags, for, offset, continue, reassigned array", [A("b", S("1,2,3,4,5,6"), fl("split", S(","))), FOR("a", b_, [O(a_), T(" ")], limit=I(3)),
                                                      A("b", S("u,v,w,x,y,z"), fl("split", S(","))), FOR("a", b_, [O(a_), T(" ")], offset="continue")], "1 2 3 x y z ")
add("tags, for, array literal", [FOR("a", ["array", [b_, I(2), TRUE]], [O(a_), T(",")])], "1,2,true,", {"b": 1})
add("docs: parentloop", [FOR("i", R(1, 2), [FOR("j", R(1, 2), [O(P("forloop", "parentloop", "index")), O(P("forloop", "index")), T(" ")])])], "11 12 21 22 ")
add("docs: iterate undefined", [T("Hello "), O(P("nosuchthing")), FOR("thing", P("nosuchthing"), [O(P("thing"))]), T("!")], "Hello !")
add("docs: issue127 example", [FOR("x", R(1, 3), [O(x_), UNLESS(P("forloop", "last"), [T("\n")])])], "123")

# ---- counters / cycle
add("tags, increment, output", [INC("a"), T(" "), INC("a"), T(" "), O(a_)], "0 1 2")
add("tags, increment, global name already exists", [O(a_), T(" "), INC("a"), T(" "), INC("a"), T(" "), O(a_)], "10 0 1 10", {"a": 10})
add("tags, increment, local name already exists", [A("a", I(10)), O(a_), T(" "), INC("a"), T(" "), INC("a"), T(" "), O(a_)], "10 0 1 10")
add("tags, increment, and decrement", [INC("a"), T(" "), INC("a"), T(" "), DEC("a"), T(" "), DEC("a"), T(" "), INC("a")], "0 1 1 0 0")
add("tags, decrement, and increment", [DEC("a"), T(" "), DEC("a"), T(" "), INC("a"), T(" "), INC("a"), T(" "), DEC("a")], "-1 -2 -2 -1 -1")
add("tags, decrement, output", [DEC("a"), T(" "), DEC("a"), T(" "), O(a_)], "-1 -2 -2")
add("tags, cycle, string literals", [CYCLE(S("a"), S("b")), CYCLE(S("a"), S("b")), CYCLE(S("a"), S("b"))], "aba")
add("tags, cycle, bool literals", [CYCLE(TRUE, FALSE), CYCLE(TRUE, FALSE), CYCLE(TRUE, FALSE)], "truefalsetrue")
add("tags, cycle, differing items", [CYCLE(S("a"), S("b")), CYCLE(S("a"), S("b"), S("c")), CYCLE(S("a"), S("b"))], "aab")
add("tags, cycle, named, differing items", [CYCLE(S("a"), S("b"), group="foo"), CYCLE(S("a"), S("b"), S("c"), group="foo"), CYCLE(S("a"), S("b"), group="foo")], "aab")
add("tags, cycle, differing names, same items", [CYCLE(S("a"), S("b"), group="foo"), CYCLE(S("a"), S("b"), group="bar"), CYCLE(S("a"), S("b"), group="foo")], "aab")
add("tags, cycle, queries", [CYCLE(a_, b_), CYCLE(a_, b_), CYCLE(a_, b_)], "cdc", {"a": "c", "b": "d"})
add("docs: cycle named", [CYCLE(S("odd"), S("even")), CYCLE(S("odd"), S("even")), CYCLE(S("odd"), S("even"), group="inner")], "oddevenodd")

# ---- echo / liquid / raw / comments
add("tags, liquid, string literals, multiple lines", [LIQUID(ECHO(S("a")), A("b", S("c")), ECHO(b_))], "ac")
add("docs: liquid example", [LIQUID(A("username", S("Brian")), IF(P("username"), [ECHO(S("Hello, "), fl("append", P("username")))], [ECHO(S("Hello, user"))]),
                                    FOR("i", R(1, 3), [ECHO(P("i"))]))], "Hello, Brian123")
add("tags, liquid, block comment", [LIQUID(COMMENT("block", "echo 'b'"))], "")
add("tags, raw, output markup", [RAW("{{ a }}")], "{{ a }}", {"a": "b"})
add("tags, raw, whitespace control", [T(" "), RAW(" a ", ["-", "-", "-", "-"]), T(" ")], "a")
add("comment, whitespace control", [T("Hello,   "), COMMENT("hash", " this is a comment ", ["-", "-"]), T("\nWorld!")], "Hello,World!")
add("tags, block comment, whitespace control", [T("a\n"), {"t": "comment", "kind": "block", "s": "don't render me", "wc": ["-", "-"], "wc2": ["", ""]}, T("\t \rb")], "ab")
add("tags, inline comment", [T("a"), COMMENT("inline", " some comment "), T("b")], "ab")

# ---- whitespace control / blank blocks
add("whitespace control, newlines and spaces", [T("\n"), IF(P("customer"), [T("\nWelcome back,  "), O(P("customer", "first_name"), wc=["", "-"]), T(" !\n ")], wc=["", "-"], wc_end=["-", "-"])],
    "\nWelcome back,  Holly!", {"customer": {"first_name": "Holly"}})
add("whitespace control, tabs", [T("\n\t"), IF(P("customer"), [T("\t\nWelcome back,  "), O(P("customer", "first_name"), wc=["", "-"]), T("\t !\r\n ")], wc=["", "-"], wc_end=["-", "-"])],
    "\n\tWelcome back,  Holly!", {"customer": {"first_name": "Holly"}})
add("docs: whitespace_control default", [T("<ul>\n"), FOR("x", R(1, 2), [T("\n  <li>"), O(x_), T("</li>\n")]), T("\n</ul>")], "<ul>\n\n  <li>1</li>\n\n  <li>2</li>\n\n</ul>")
add("docs: whitespace_control tilde", [T("<ul>\n"), FOR("x", R(1, 2), [T("\n  <li>"), O(x_), T("</li>\n")], wc=["", "~"], wc_end=["", "-"]), T("\n</ul>")], "<ul>\n  <li>1</li>\n  <li>2</li>\n</ul>")
add("docs: blank if block suppressed", [T("!"), IF(TRUE, [T("\n    "), A("x", P("y")), T("\n")]), T("!")], "!!")
add("tests: suppress empty else block", [T("!"), IF(FALSE, [T("foo")], [T("\n \r\t")]), T("!")], "!!")
add("tests: suppress empty case block", [T("!"), A("x", I(1)), CASE(x_, [[[I(1)], [T("\n \t\r")]]]), T("!")], "!!")
add("tests: suppress empty for block", [T("!"), FOR("x", R(1, 3), [T("\n \t\r")]), T("!")], "!!")
add("docs: output statement is never blank", [T("!"), IF(TRUE, [T(" "), O(NIL), T(" ")]), T("!")], "!  !")
add("docs: when marker trims its own block", [CASE(I(1), [[[I(1)], [T("  x")]]], wc=["", "+"], wc_whens=[["", "-"]])], "x")
add("docs: when marker + keeps whitespace", [CASE(I(1), [[[I(1)], [T("  x")]]], wc=["", "-"], wc_whens=[["", "+"]])], "  x")

add("docs: '-' removes all whitespace up to the end of the template", [O(I(1), wc=["", "-"]), T("\n\n")], "1")
add("docs: '~' removes trailing newlines at the end of the template", [O(I(1), wc=["", "~"]), T("\r\n\n")], "1")
add("docs: and binds more tightly than or (with not)", [IF(["or", ["and", TRUE, ["not", FALSE]], TRUE], [T("T")], [T("F")])], "T")

# ---- with / macro / call
add("docs: with example", [WITH([["a", I(1)], ["b", F("3.4")]], O(a_), T(" + "), O(b_), T(" = "), O(a_, fl("plus", b_))), O(a_)], "1 + 3.4 = 4.4")
add("docs: with shadows assign", [A("p", S("L")), WITH([["p", S("W")]], O(P("p"))), O(P("p"))], "WL")
add("docs: macro defaults and kwargs", [MACRO("price", [["product", None], ["on_sale", FALSE]], IF(P("on_sale"), [T("sale:")], [T("full:")]), O(P("product", "price"))),
                                        CALL("price", [P("products", 0)], [["on_sale", TRUE]]), T(" "), CALL("price", [P("products", 1)])],
    "sale:5 full:7", {"products": [{"price": 5}, {"price": 7}]})
add("docs: macro excess args", [MACRO("foo", [], FOR("arg", P("args"), [T("-"), O(P("arg"))]), FOR("arg", P("kwargs"), [T("|"), O(P("arg", 0)), T("="), O(P("arg", 1))])),
                                CALL("foo", [I(42), I(43)], [["a", F("3.14")]])], "-42-43|a=3.14")
add("docs: macro has its own scope", [A("x", S("local")), MACRO("m", [], T("["), O(x_), O(P("g")), T("]")), CALL("m")], "[G]", {"g": "G"})
add("docs: macro missing argument is undefined", [MACRO("m", [["a", None]], T("["), O(a_), T("]")), CALL("m")], "[]")

# ---- include / render
add("tags, include, bind variable", [PART("include", "a", P("b", "c", 1))], "bar", {"b": {"c": [1, {"foo": "bar"}, 3]}}, {"a": [O(P("a", "foo"))]})
add("tags, include, bind variable with alias", [PART("include", "a", P("b", "c", 1), alias="x")], "bar", {"b": {"c": [1, {"foo": "bar"}, 3]}}, {"a": [O(P("x", "foo"))]})
add("tags, include, bind array, for", [PART("include", "a", P("b", "c"), loop=True)], "barbaz", {"b": {"c": [{"foo": "bar"}, {"foo": "baz"}]}}, {"a": [O(P("a", "foo"))]})
add("tags, include, bind array, with", [PART("include", "a", P("b", "c"))], "barbaz", {"b": {"c": [{"foo": "bar"}, {"foo": "baz"}]}}, {"a": [O(P("a", "foo"))]})
add("tags, include, keyword arguments", [PART("include", "a", args=[["b", S("c")], ["d", S("e")]])], "c e", {}, {"a": [O(b_), T(" "), O(P("d"))]})
add("tags, include, shares scope with parents", [PART("include", "a"), O(x_)], "42", {}, {"a": [A("x", I(42))]})
add("tags, include, break loop in parent template", [FOR("a", b_, [PART("include", "a")])], "1", B3, {"a": [O(a_), BRK]})
add("tags, include, keyword arguments go out of scope", [PART("include", "a", args=[["b", S("c")]]), O(b_)], "c", {}, {"a": [O(b_)]})
add("tags, include, assign to keyword argument", [PART("include", "a", args=[["b", S("c")]]), O(b_)], "ccx", {}, {"a": [O(b_), A("b", S("x")), O(b_)]})
add("tags, render, bind array, with", [PART("render", "a", P("b", "c"))], "bar", {"b": {"c": [{"foo": "bar"}, {"foo": "baz"}]}}, {"a": [O(P("a", 0, "foo"))]})
add("tags, render, bind array, for", [PART("render", "a", P("b", "c"), loop=True)], "barbaz", {"b": {"c": [{"foo": "bar"}, {"foo": "baz"}]}}, {"a": [O(P("a", "foo"))]})
add("tags, render, new scope", [A("x", S("y")), PART("render", "a"), O(x_)], "!y", {}, {"a": [O(x_), T("!")]})
add("tags, render, keyword arguments, range literal", [PART("render", "a", args=[["b", R(1, 3)]])], "1#2#3", {}, {"a": [O(b_, fl("join", S("#")))]})
add("tags, render, forloop drop", [PART("render", "a", b_, loop=True)], "1 true false 0, 2 false true 1, ", {"b": [1, 2]},
    {"a": [O(a_), T(" "), O(P("forloop", "first")), T(" "), O(P("forloop", "last")), T(" "), O(P("forloop", "index0")), T(", ")]})
add("tags, render, forloop drop, no parentloop", [FOR("x", R(1, 2), [PART("render", "a", b_, loop=True)])], "1 , 2 , 1 , 2 , ", {"b": [1, 2]},
    {"a": [O(a_), T(" "), O(P("forloop", "parentloop", "index0")), T(", ")]})
add("tags, render, include", [PART("render", "a")], None, {}, {"a": [PART("include", "b")], "b": [T("c")]})
add("docs: render sees globals", [PART("render", "a")], "c", {"b": "c"}, {"a": [O(b_)]})

# ---- filters (docs examples and CTS)
for nm, e, fs, want, dt in [
    ("abs, negative string float", S("-5.1"), [fl("abs")], "5.1", {}),
    ("abs, string not a number", S("hello"), [fl("abs")], "0", {}),
    ("append, not a string", I(5), [fl("append", S("there"))], "5there", {}),
    ("docs: append number", I(42), [fl("append", P("n"))], "427.5", {"n": 7.5}),
    ("at least, left value not a number negative argument", S("abc"), [fl("at_least", I(-2))], "0", {}),
    ("docs: at_least", F("-5.1"), [fl("at_least", I(8))], "8", {}),
    ("at most, positive string > arg", S("9"), [fl("at_most", I(8))], "8", {}),
    ("docs: capitalize", S("heLLO, World!"), [fl("capitalize")], "Hello, world!", {}),
    ("ceil, negative string float", S("-5.1"), [fl("ceil")], "-5", {}),
    ("floor, negative float", F("-5.4"), [fl("floor")], "-6", {}),
    ("compact, array with a nil", a_, [fl("compact"), fl("join", S("#"))], "b#a#A", {"a": ["b", "a", None, "A"]}),
    ("concat, nested left value gets flattened", a_, [fl("concat", b_), fl("join", S("#"))], "a#x#b#y#z#c#d", {"a": [["a", "x"], ["b", ["y", ["z"]]]], "b": ["c", "d"]}),
    ("concat, left value is a string", a_, [fl("concat", b_), fl("join", S("#"))], "a#b#c#d", {"a": "ab", "b": ["c", "d"]}),
    ("concat, non array-like argument is an error", a_, [fl("concat", b_)], None, {"a": ["a"], "b": 5}),
    ("default, empty array", a_, [fl("default", S("foo"))], "foo", {"a": []}),
    ("default, allow false", FALSE, [fl("default", S("bar"), allow_false=TRUE)], "false", {}),
    ("default, zero is not falsy", I(0), [fl("default", S("bar"))], "0", {}),
    ("default, missing argument", FALSE, [fl("default")], "", {}),
    ("divided by, integer division", I(9), [fl("divided_by", I(2))], "4", {}),
    ("divided by, float value and integer arg", F("9.0"), [fl("divided_by", I(2))], "4.5", {}),
    ("divided by, float division", I(20), [fl("divided_by", F("7.0"))], "2.857142857142857", {}),
    ("divided by, divied by zero", I(10), [fl("divided_by", I(0))], None, {}),
    ("divided by, arg string not a number", S("10"), [fl("divided_by", S("foo"))], None, {}),
    ("divided by, string not a number", S("foo"), [fl("divided_by", S("2"))], "0", {}),
    ("escape, docs sentence (&, < and >)", S("James & the <Giant> Peach"), [fl("escape")], "James &amp; the &lt;Giant&gt; Peach", {}),
    ("escape once, mixed", S("&lt;p&gt;test&lt;/p&gt;<p>test</p>"), [fl("escape_once")], "&lt;p&gt;test&lt;/p&gt;&lt;p&gt;test&lt;/p&gt;", {}),
    ("first, first of a string", S("hello"), [fl("first")], "", {}),
    ("first, range literal", R(1, 3), [fl("first")], "1", {}),
    ("last, array of strings", a_, [fl("last")], "b", {"a": ["a", "b"]}),
    ("last, last of a hash", a_, [fl("last")], "", {"a": {"b": 1, "c": 2}}),
    ("join, string", S("a,b"), [fl("join", S("#"))], "a#,#b", {}),
    ("join, missing argument defaults to a space", a_, [fl("join")], "a b", {"a": ["a", "b"]}),
    ("join, joining an int is a noop", I(123), [fl("join", S("#"))], "123", {}),
    ("join, undefined argument", a_, [fl("join", P("nosuchthing"))], "ab", {"a": ["a", "b"]}),
    ("lstrip, left and right padded", S(" \t\r\n  hello  \t\r\n "), [fl("lstrip")], "hello  \t\r\n ", {}),
    ("map, missing property", a_, [fl("map", S("title")), fl("join", S("#"))], "foo#bar#", {"a": [{"title": "foo"}, {"title": "bar"}, {"heading": "baz"}]}),
    ("map, lambda, map to index", a_, [fl("map", LAM(["i", "j"], P("j"))), fl("join", S("#"))], "0#1#2", {"a": [{}, {}, {}]}),
    ("map, lambda", a_, [fl("map", LAM(["i"], P("i", "user", "title"))), fl("join", S("#"))], "foo#bar", {"a": [{"user": {"title": "foo"}}, {"user": {"title": "bar"}}]}),
    ("minus, float value and float arg", F("10.1"), [fl("minus", F("2.2"))], "7.9", {}),
    ("docs: minus", F("183.357"), [fl("minus", F("12.2"))], "171.157", {}),
    ("minus, string not a number", S("foo"), [fl("minus", S("2.0"))], "-2.0", {}),
    ("modulo, float value and float arg", F("10.1"), [fl("modulo", F("7.0"))], "3.1", {}),
    ("docs: modulo", F("183.357"), [fl("modulo", I(12))], "3.357", {}),
    ("modulo, undefined argument", I(5), [fl("modulo", P("nosuchthing"))], None, {}),
    ("newline to br", S("- apples\n- oranges\n"), [fl("newline_to_br")], "- apples<br />\n- oranges<br />\n", {}),
    ("plus, integer value and float arg", I(10), [fl("plus", F("2.0"))], "12.0", {}),
    ("docs: plus", F("183.357"), [fl("plus", I(12))], "195.357", {}),
    ("docs: plus chain", I(42), [fl("plus", I(7)), fl("modulo", I(3))], "1", {}),
    ("prepend, argument not a string", S("hello"), [fl("prepend", I(5))], "5hello", {}),
    ("remove, docs", S("I strained to see the train through the rain"), [fl("remove", S("rain"))], "I sted to see the t through the ", {}),
    ("remove last, docs", S("I strained to see the train through the rain"), [fl("remove_last", S("rain"))], "I strained to see the train through the ", {}),
    ("replace, undefined first argument", S("Take my"), [fl("replace", P("nosuchthing"), S("#"))], "#T#a#k#e# #m#y#", {}),
    ("replace first, argument not a string", S("hello5"), [fl("replace_first", I(5), S("your"))], "helloyour", {}),
    ("replace last, docs", S("Take my protein pills and put my helmet on"), [fl("replace_last", S("my"), S("your"))], "Take my protein pills and put your helmet on", {}),
    ("reverse, array of strings", a_, [fl("reverse"), fl("join", S("#"))], "A#B#a#b", {"a": ["b", "a", "B", "A"]}),
    ("docs: reverse of a string is unchanged", S("abc"), [fl("reverse")], "abc", {}),
    ("round, decimal places", S("5.666666"), [fl("round", I(2))], "5.67", {}),
    ("round, argument is a negative", F("5.666"), [fl("round", I(-2))], "0", {}),
    ("docs: round", F("183.357"), [fl("round", I(2))], "183.36", {}),
    ("size, size of a hash", a_, [fl("size")], "2", {"a": {"a": 1, "b": 2}}),
    ("size, undefined left value", P("nosuchthing"), [fl("size")], "0", {}),
    ("slice, one length three", S("hello"), [fl("slice", I(1), I(3))], "ell", {}),
    ("slice, negative first argument and length out of range", S("Liquid"), [fl("slice", I(-2), I(99))], "id", {}),
    ("slice, slice an array of numbers", a_, [fl("slice", I(2), I(3)), fl("join", S("#"))], "3#4#5", {"a": [1, 2, 3, 4, 5]}),
    ("slice, out of range", S("hello"), [fl("slice", I(99))], "", {}),
    ("sort, array of strings", a_, [fl("sort"), fl("join", S("#"))], "A#B#C#a#b", {"a": ["b", "a", "C", "B", "A"]}),
    ("sort, array of integers", a_, [fl("sort"), fl("join", S("#"))], "1#3#30#1000", {"a": [1, 1000, 3, 30]}),
    ("sort, sort a string", S("BzAa4"), [fl("sort"), fl("join", S("#"))], "4#A#B#a#z", {}),
    ("sort natural, docs", a_, [fl("sort_natural"), fl("join", S(", "))], "giraffe, octopus, Sally Snake, zebra", {"a": ["zebra", "octopus", "giraffe", "Sally Snake"]}),
    ("split, left matches argument", S(","), [fl("split", S(",")), fl("size")], "0", {}),
    ("split, argument not a string", S("hello th1ere"), [fl("split", I(1)), fl("join", S("#"))], "hello th#ere", {}),
    ("split, undefined argument", S("Hello"), [fl("split", P("nosuchthing")), fl("join", S("#"))], "H#e#l#l#o", {}),
    ("strip html, html block with id", P("s"), [fl("strip_html")], "test", {"s": "<div id='test'>test</div>"}),
    ("strip newlines", S("hello there\nyou"), [fl("strip_newlines")], "hello thereyou", {}),
    ("sum, negative strings", a_, [fl("sum")], "-6", {"a": ["-1", "-2", "-3"]}),
    ("sum, nested ints", a_, [fl("sum")], "6", {"a": [1, [2, [3]]]}),
    ("sum, hashes with some missing properties", a_, [fl("sum", S("k"))], "3", {"a": [{"k": 1}, {"k": 2}, {"x": 3}]}),
    ("sum, hashes without property argument", a_, [fl("sum")], "0", {"a": [{"k": 1}, {"k": 2}]}),
    ("sum, hashes with lambda argument", a_, [fl("sum", LAM(["i"], P("i", "k")))], "6", {"a": [{"k": 1}, {"k": 2}, {"k": 3}]}),
    ("times, int times float", I(5), [fl("times", F("2.1"))], "10.5", {}),
    ("docs: times", F("183.357"), [fl("times", I(12))], "2200.284", {}),
    ("truncate, default end", S("Ground control to Major Tom."), [fl("truncate", I(20))], "Ground control to...", {}),
    ("truncate, custom end", S("Ground control to Major Tom."), [fl("truncate", I(25), S(", and so on"))], "Ground control, and so on", {}),
    ("truncate, string is shorter than length", S("Ground control"), [fl("truncate", I(20))], "Ground control", {}),
    ("truncatewords, custom end", S("Ground control to Major Tom."), [fl("truncatewords", I(3), S("--"))], "Ground control to--", {}),
    ("truncatewords, all whitespace is clobbered", S("    one    two three    four  "), [fl("truncatewords", I(2))], "one two...", {}),
    ("truncatewords, reference implementation test 5", S("one two three four"), [fl("truncatewords", I(0))], "one...", {}),
    ("uniq, array of things", a_, [fl("uniq"), fl("join", S("#"))], "a#b#1", {"a": ["a", "b", 1, 1]}),
    ("upcase, not a string", I(5), [fl("upcase")], "5", {}),
    ("url decode", S("email+address+is+bob%40example.com%21"), [fl("url_decode")], "email address is bob@example.com!", {}),
    ("url encode", S("email address is bob@example.com!"), [fl("url_encode")], "email+address+is+bob%40example.com%21", {}),
    ("has, hash input explicit nil", a_, [fl("has", S("z"), NIL)], "true", {"a": [{"z": 42}]}),
    ("has, array of hashes, with a nil", a_, [fl("has", S("z"), I(42))], "true", {"a": [{"x": 99}, None, {"z": 42}]}),
    ("find index, array of objects", a_, [fl("find_index", S("title"), S("bar"))], "1", {"a": [{"title": "foo"}, {"title": "bar"}]}),
]:
    add(nm, [O(e, *fs)], want, dt)

_PAIRS = [FOR("obj", x_, [FOR("i", P("obj"), [T("("), O(P("i", 0)), T(","), O(P("i", 1)), T(")")])])]
_TITLES = {"a": [{"title": "foo"}, {"title": "bar"}, {"title": None}]}
add("where, array of hashes", [A("x", a_, fl("where", S("title")))] + _PAIRS, "(title,foo)(title,bar)", _TITLES)
add("where, value is explicit nil", [A("x", a_, fl("where", S("b"), NIL))] + _PAIRS, "(b,bar)", {"a": [{"b": False}, {"b": "bar"}, {"b": None}]})
add("where, value is false", [A("x", a_, fl("where", S("b"), FALSE))] + _PAIRS, "(b,false)", {"a": [{"b": False}, {"b": "bar"}, {"b": None}]})
add("where, lambda, two arguments", [A("x", a_, fl("where", LAM(["item", "index"], CMP(">", P("index"), I(0)))))] + _PAIRS, "(title,bar)(title,)", _TITLES)
add("reject, array of objects, missing key", [A("x", a_, fl("reject", S("title"), S("baz")))] + _PAIRS, "(heading,foo)(title,bar)",
    {"a": [{"heading": "foo"}, {"title": "bar"}, {"title": "baz"}]})
add("reject, implicit null", [A("x", a_, fl("reject", S("title")))] + _PAIRS, "(title,)", _TITLES)
add("sort, array of objects with missing key", [A("x", a_, fl("sort", S("title")))] + _PAIRS, "(title,bar)(title,foo)(heading,Baz)",
    {"a": [{"title": "foo"}, {"heading": "Baz"}, {"title": "bar"}]})
add("uniq, array of objects with missing key property", [A("x", a_, fl("uniq", S("title")))] + _PAIRS, "(title,foo)(name,a)(title,bar)(name,c)(heading,bar)(name,c)",
    {"a": [{"title": "foo", "name": "a"}, {"title": "foo", "name": "b"}, {"title": "bar", "name": "c"}, {"heading": "bar", "name": "c"}, {"heading": "baz", "name": "d"}]})
add("compact, array of objects with key property", [A("x", a_, fl("compact", S("title")))] + _PAIRS, "(title,foo)(name,a)(title,bar)(name,c)",
    {"a": [{"title": "foo", "name": "a"}, {"title": None, "name": "b"}, {"title": "bar", "name": "c"}]})
add("docs: compact example", [A("categories", P("pages"), fl("map", S("category")), fl("compact")), FOR("category", P("categories"), [T("- "), O(P("category")), T("\n")])],
    "- business\n- sports\n", {"pages": [{"category": "business"}, {}, {"category": "sports"}]})
add("docs: where lambda contains", [A("x", P("pages"), fl("where", LAM(["page"], CMP("contains", P("page", "tags"), S("coding"))))), O(P("x", 0, "id"))], "3",
    {"pages": [{"id": 1, "tags": ["recipes"]}, {"id": 3, "tags": ["JavaScript", "coding"]}]})
add("docs: find lambda in", [A("page", P("pages"), fl("find", LAM(["item"], CMP("in", S("web development"), P("item", "tags"))))), O(P("page", "title"))], "Mastering JavaScript",
    {"pages": [{"title": "Cooking", "tags": ["recipes"]}, {"title": "Mastering JavaScript", "tags": ["web development"]}]})
add("docs: has lambda or", [O(P("pages"), fl("has", LAM(["p"], ["or", CMP("==", P("p", "category"), S("programming")), CMP("==", P("p", "category"), S("Programming"))])))], "true",
    {"pages": [{"category": "Cooking"}, {"category": "Programming"}]})

TABLE: list[tuple[str, dict[str, Any], dict[str, Any], Any]] = [
    (name, {"main": main, "templates": templates}, data, want) for name, main, templates, data, want in _T
]
