"""Driver for the atheris (libFuzzer) campaigns used in thorough tiers."""

from __future__ import annotations

import json
import os
import shutil
import subprocess
import tempfile
from typing import Any

VERIF = os.path.dirname(os.path.dirname(os.path.dirname(os.path.abspath(__file__))))


def available() -> bool:
    return os.path.isdir(os.path.join(VERIF, ".deps", "atheris"))


def run_campaign(prop_id: str, seed: int, runs: int, tolerate: list[str], *, procs: int = 8,
                 max_len: int = 256, seed_corpus: list[str] | None = None, max_time_s: int = 900) -> dict[str, Any]:
    """Run `procs` independent libFuzzer processes (half from an empty corpus, half from the
    seed corpus).  Returns crash cases (already decoded by the target) and statistics."""
    if not available():
        return {"available": False, "cases": [], "runs": 0}
    root = tempfile.mkdtemp(prefix="lv-fuzz-")
    procs_l = []
    try:
        for i in range(procs):
            art = os.path.join(root, f"art{i}")
            corp = os.path.join(root, f"corpus{i}")
            os.makedirs(art)
            os.makedirs(corp)
            if seed_corpus and i % 2 == 1:
                for j, s in enumerate(seed_corpus):
                    with open(os.path.join(corp, f"seed{j}"), "wb") as fd:
                        fd.write(b"\x00" + s.encode("utf-8", "ignore")[:max_len])
            env = dict(os.environ)
            env["LV_FUZZ_TOLERATE"] = json.dumps(tolerate)
            env["PYTHONHASHSEED"] = "0"
            cmd = ["/venv/bin/python", os.path.join(VERIF, "fuzz", "target.py"), prop_id, art,
                   f"-runs={runs // procs}", f"-max_len={max_len}", f"-seed={seed * 100 + i + 1}",
                   f"-max_total_time={max_time_s}", f"-dict={os.path.join(VERIF, 'fuzz', 'liquid.dict')}",
                   "-print_final_stats=1", corp]
            log = open(os.path.join(root, f"log{i}"), "w")
            procs_l.append((subprocess.Popen(cmd, stdout=log, stderr=subprocess.STDOUT, env=env, cwd=VERIF), log, art, corp))
        cases: list[Any] = []
        total_runs = 0
        corpus = 0
        for i, (p, log, art, corp) in enumerate(procs_l):
            p.wait()
            log.close()
            text = open(os.path.join(root, f"log{i}"), errors="replace").read()
            for line in text.splitlines():
                if line.startswith("stat::number_of_executed_units:"):
                    total_runs += int(line.split(":")[-1])
                elif line.startswith("Done ") and " runs in " in line:
                    pass
            if "Done " in text and "stat::number_of_executed_units" not in text:
                try:
                    total_runs += int(text.split("Done ", 1)[1].split(" runs", 1)[0])
                except ValueError:
                    pass
            corpus += len(os.listdir(corp))
            for fn in sorted(os.listdir(art)):
                if fn.startswith("case-") and fn.endswith(".json"):
                    with open(os.path.join(art, fn)) as fd:
                        cases.append(json.load(fd))
        return {"available": True, "cases": cases, "runs": total_runs, "corpus_entries": corpus, "processes": procs}
    finally:
        shutil.rmtree(root, ignore_errors=True)
