"""Shared runner: seeding, 16-way fan out, collect-then-minimise, known findings,
replay files, evidence files.

A property module exposes a `PROP` object (subclass of `Prop`).  The property body
never raises: `Prop.check(case)` returns a `Result` whose `failures` are bucketed.
All cases are JSON-able so that a replay needs no Hypothesis.
"""

from __future__ import annotations

import hashlib
import json
import math
import multiprocessing as mp
import os
import signal
import sys
import time
import traceback
from dataclasses import dataclass
from dataclasses import field
from typing import Any
from typing import Iterable

VERIF = os.path.dirname(os.path.dirname(os.path.dirname(os.path.abspath(__file__))))
NWORKERS = int(os.environ.get("LV_WORKERS", "16"))
CASE_TIMEOUT_S = 20
STUCK_S = 120


class CaseTimeout(BaseException):
    """Raised by the per-case watchdog."""


def _alarm(_sig: int, _frm: object) -> None:
    raise CaseTimeout()


@dataclass
class Failure:
    oracle: str
    bucket: str
    detail: str = ""

    def as_dict(self) -> dict[str, str]:
        return {"oracle": self.oracle, "bucket": self.bucket, "detail": self.detail}


@dataclass
class Result:
    failures: list[Failure] = field(default_factory=list)
    nontrivial: bool = False
    labels: list[str] = field(default_factory=list)
    excluded: list[str] = field(default_factory=list)  # known-finding exclusions hit
    evaluations: int = 1  # executions of code under test performed for this case

    def fail(self, oracle: str, bucket: str, detail: str = "") -> None:
        self.failures.append(Failure(oracle, bucket, str(detail)[:2000]))


class Prop:
    """Base class for property definitions."""

    id = "C00"
    title = ""
    rule = ""
    technique = ""
    assumptions: list[str] = []
    batch = 500  # hypothesis examples per @given run (keeps the choice tree small)
    hang_is_violation = False

    def n_random(self, tier: str) -> int:
        return 1000

    def strategy(self, tier: str, disabled: frozenset[str]):  # -> SearchStrategy
        return None

    def enumerate(self, tier: str, disabled: frozenset[str]) -> Iterable[Any]:
        return ()

    def enumerated_is_exhaustive(self, tier: str) -> bool:
        return False

    def check(self, case: Any, disabled: frozenset[str] = frozenset()) -> Result:
        raise NotImplementedError

    def sample(self, case: Any) -> Any:
        return case

    def setup_worker(self) -> None:
        """Called once per worker process before any case."""

    def extra_evidence(self) -> dict[str, Any]:
        return {}


# --------------------------------------------------------------------------- utilities


def jdump(obj: Any) -> str:
    return json.dumps(obj, sort_keys=True, default=_json_default, ensure_ascii=True)


def _json_default(o: Any) -> Any:
    if isinstance(o, (set, frozenset)):
        return sorted(o, key=repr)
    if isinstance(o, bytes):
        return {"__bytes__": o.hex()}
    if isinstance(o, tuple):
        return list(o)
    return {"__repr__": repr(o)}


def digest(case: Any) -> int:
    return int.from_bytes(hashlib.sha1(jdump(case).encode()).digest()[:8], "big")


def case_size(case: Any) -> int:
    return len(jdump(case))


def innermost_liquid_frame(exc: BaseException) -> str:
    """`file:function<caller file:function` of the innermost liquid2 frames."""
    tb = exc.__traceback__
    frames: list[str] = []
    while tb is not None:
        fn = tb.tb_frame.f_code.co_filename
        if "/liquid2/" in fn:
            frames.append(f"{fn.split('/liquid2/', 1)[1]}:{tb.tb_frame.f_code.co_name}")
        tb = tb.tb_next
    if not frames:
        return "?"
    if len(frames) == 1:
        return frames[-1]
    return f"{frames[-1]}<{frames[-2]}"


def exc_bucket(exc: BaseException) -> str:
    return f"{type(exc).__name__}@{innermost_liquid_frame(exc)}"


# --------------------------------------------------------------------------- known findings


def load_known(prop_id: str) -> list[dict[str, Any]]:
    path = os.path.join(VERIF, "KNOWN_FINDINGS.json")
    if not os.path.exists(path):
        return []
    with open(path) as fd:
        data = json.load(fd)
    return [e for e in data.get("findings", []) if e.get("property") == prop_id]


def _bucket_matches(entry: dict[str, Any], bucket: str) -> bool:
    import re

    if "bucket" in entry and entry["bucket"] == bucket:
        return True
    if "bucket_regex" in entry and re.fullmatch(entry["bucket_regex"], bucket):
        return True
    return False


def triage_known(
    prop: Prop,
) -> tuple[list[dict[str, Any]], frozenset[str], list[str], list[dict[str, Any]]]:
    """Replay each listed witness.  Returns (active entries, disabled flags, lines)."""
    active: list[dict[str, Any]] = []
    disabled: set[str] = set()
    lines: list[str] = []
    regress: list[dict[str, Any]] = []
    for entry in load_known(prop.id):
        status = entry.get("status", "known")
        try:
            runner = run_case_guarded if prop.hang_is_violation else run_case
            res = runner(prop, entry["witness"], frozenset())
            buckets = [f.bucket for f in res.failures]
        except CaseTimeout:
            buckets = ["hang"]
        still = any(_bucket_matches(entry, b) for b in buckets)
        if status == "known":
            if still:
                active.append(entry)
                disabled.update(entry.get("disable", []))
                lines.append(
                    f"KNOWN-FINDING: property={prop.id} {entry['id']}: "
                    f"{entry['description']}"
                )
        elif status == "fixed" and buckets:
            # a fixed entry suppresses nothing: any failure of its witness is a regression
            regress.append(entry)
    return active, frozenset(disabled), lines, regress


# --------------------------------------------------------------------------- case execution


def run_case(prop: Prop, case: Any, disabled: frozenset[str]) -> Result:
    """Run one case under the watchdog.  Harness errors propagate."""
    signal.signal(signal.SIGALRM, _alarm)
    signal.alarm(CASE_TIMEOUT_S)
    try:
        return prop.check(case, disabled)
    finally:
        signal.alarm(0)


def run_case_guarded(prop: Prop, case: Any, disabled: frozenset[str], secs: int | None = None) -> Result:
    """run_case() in a forked child that the parent can kill.

    SIGALRM only interrupts Python code: a C loop that never returns to the interpreter (a linear
    scan of range(10**18), say) ignores the watchdog, so where non-termination is part of the
    property the case runs in a child with a hard deadline.  Raises CaseTimeout on a hang."""
    global CASE_TIMEOUT_S
    import pickle

    secs = CASE_TIMEOUT_S if secs is None else secs
    rfd, wfd = os.pipe()
    pid = os.fork()
    if pid == 0:  # child
        code = 0
        try:
            os.close(rfd)
            CASE_TIMEOUT_S = secs
            try:
                payload = ("ok", run_case(prop, case, disabled))
            except CaseTimeout:
                payload = ("timeout", None)
            except BaseException:  # noqa: BLE001
                payload = ("error", traceback.format_exc()[-3000:])
            with os.fdopen(wfd, "wb") as out:
                pickle.dump(payload, out)
        except BaseException:  # noqa: BLE001
            code = 1
        finally:
            os._exit(code)
    os.close(wfd)
    import select

    chunks: list[bytes] = []
    end = time.time() + secs + 15
    with os.fdopen(rfd, "rb", buffering=0) as inp:
        while True:
            left = end - time.time()
            if left <= 0:
                os.kill(pid, signal.SIGKILL)
                os.waitpid(pid, 0)
                raise CaseTimeout()
            ready, _, _ = select.select([inp], [], [], min(left, 1.0))
            if ready:
                data = inp.read(1 << 16)
                if not data:
                    break
                chunks.append(data)
    os.waitpid(pid, 0)
    try:
        kind, value = pickle.loads(b"".join(chunks))
    except Exception as err:  # noqa: BLE001
        raise RuntimeError(f"guarded case: child died without a result ({err})") from err
    if kind == "timeout":
        raise CaseTimeout()
    if kind == "error":
        raise RuntimeError("guarded case failed in the child:\n" + value)
    return value


class _Acc:
    """Per-worker accumulator."""

    def __init__(self) -> None:
        self.evaluations = 0
        self.cases = 0
        self.nontrivial: set[int] = set()
        self.labels: dict[str, int] = {}
        self.excluded: dict[str, int] = {}
        self.buckets: dict[str, dict[str, Any]] = {}
        self.samples: list[Any] = []
        self.timeouts: list[Any] = []
        self.harness_errors: list[str] = []

    def add(self, prop: Prop, case: Any, res: Result, origin: dict[str, Any]) -> None:
        self.cases += 1
        self.evaluations += res.evaluations
        for lab in res.labels:
            self.labels[lab] = self.labels.get(lab, 0) + 1
        for ex in res.excluded:
            self.excluded[ex] = self.excluded.get(ex, 0) + 1
        if res.nontrivial:
            d = digest(case)
            if d not in self.nontrivial:
                self.nontrivial.add(d)
                if len(self.samples) < 3:
                    self.samples.append(prop.sample(case))
        for f in res.failures:
            size = case_size(case)
            cur = self.buckets.get(f.bucket)
            if cur is None:
                self.buckets[f.bucket] = {
                    "count": 1,
                    "size": size,
                    "case": case,
                    "failure": f.as_dict(),
                    "origin": origin,
                }
            else:
                cur["count"] += 1
                if size < cur["size"]:
                    cur.update(size=size, case=case, failure=f.as_dict())


def _worker(args: tuple[str, str, int, int, frozenset[str], float]) -> dict[str, Any]:
    prop_id, tier, seed, idx, disabled, deadline = args
    from lv.props import load_prop

    prop = load_prop(prop_id)
    prop.setup_worker()
    acc = _Acc()

    crumb_dir = os.environ.get("LV_CRUMB_DIR")
    crumb_path = os.path.join(crumb_dir, f"crumb{idx}.json") if crumb_dir else None

    def one(case: Any, origin: dict[str, Any]) -> None:
        if crumb_path is not None:
            with open(crumb_path, "w") as cfd:
                cfd.write(jdump(case))
        try:
            res = run_case(prop, case, disabled)
        except CaseTimeout:
            acc.cases += 1
            acc.timeouts.append(case)
            return
        except Exception:  # harness fault, never a violation
            acc.harness_errors.append(traceback.format_exc()[-3000:])
            return
        acc.add(prop, case, res, origin)

    # 1. enumerated (deterministic) part, sharded by index.
    try:
        for i, case in enumerate(prop.enumerate(tier, disabled)):
            if i % NWORKERS != idx:
                continue
            one(case, {"kind": "enum", "index": i})
            if len(acc.harness_errors) > 5 or time.time() > deadline:
                break
    except Exception:
        acc.harness_errors.append(traceback.format_exc()[-3000:])

    # 2. random part, hypothesis driven, in batches.
    strat = prop.strategy(tier, disabled)
    n_total = prop.n_random(tier)
    per_worker = math.ceil(n_total / NWORKERS) if strat is not None else 0
    batch_no = 0
    done = 0
    while done < per_worker and len(acc.harness_errors) <= 5 and time.time() < deadline:
        n = min(prop.batch, per_worker - done)
        _hyp_batch(strat, n, _batch_seed(seed, idx, batch_no), one, batch_no)
        done += n
        batch_no += 1

    return {
        "idx": idx,
        "cases": acc.cases,
        "evaluations": acc.evaluations,
        "nontrivial": acc.nontrivial,
        "labels": acc.labels,
        "excluded": acc.excluded,
        "buckets": acc.buckets,
        "samples": acc.samples,
        "timeouts": acc.timeouts[:5],
        "n_timeouts": len(acc.timeouts),
        "harness_errors": acc.harness_errors[:3],
        "extra": prop.extra_evidence(),
        "cut_short": time.time() >= deadline,
    }


def _worker_main(args: tuple[Any, ...], out_path: str) -> None:
    import pickle

    try:
        part = _worker(args)
    except BaseException:  # noqa: BLE001
        part = {"fatal": traceback.format_exc()[-4000:]}
    with open(out_path + ".tmp", "wb") as fd:
        pickle.dump(part, fd)
    os.replace(out_path + ".tmp", out_path)


def _fan_out(
    prop_id: str, tier: str, seed: int, disabled: frozenset[str], deadline: float
) -> list[dict[str, Any]] | None:
    """Run the workers as plain processes; a worker that dies (segfault, OOM kill)
    is reported as a harness error with the case it was running, never a hang."""
    import pickle
    import shutil
    import tempfile

    ctx = mp.get_context("fork")
    tmp = tempfile.mkdtemp(prefix="lv-run-")
    os.environ["LV_CRUMB_DIR"] = tmp
    procs = []
    try:
        for i in range(NWORKERS):
            out = os.path.join(tmp, f"part{i}.pkl")
            pr = ctx.Process(target=_worker_main, args=((prop_id, tier, seed, i, disabled, deadline), out))
            pr.start()
            procs.append((i, pr, out))
        parts: list[dict[str, Any]] = []
        ok = True
        # A worker whose crumb (the case it is running) has not changed for STUCK_S seconds is stuck
        # in code the SIGALRM watchdog cannot interrupt: kill it and report its case as a timeout.
        stuck: dict[int, Any] = {}
        while any(pr.is_alive() for _, pr, _ in procs):
            time.sleep(0.5)
            now = time.time()
            for i, pr, out in procs:
                if not pr.is_alive() or os.path.exists(out):
                    continue
                crumb = os.path.join(tmp, f"crumb{i}.json")
                try:
                    age = now - os.path.getmtime(crumb)
                except OSError:
                    continue
                if age > STUCK_S:
                    try:
                        case = json.load(open(crumb))
                    except Exception:  # noqa: BLE001
                        case = None
                    pr.kill()
                    pr.join()
                    stuck[i] = case
                    print(f"worker {i} killed after {int(age)} s on one case (watchdog ignored)", file=sys.stderr,
                          flush=True)
        for i, pr, out in procs:
            pr.join()
            if i in stuck:
                parts.append({"idx": i, "cases": 1, "evaluations": 0, "nontrivial": set(), "labels": {},
                              "excluded": {}, "buckets": {}, "samples": [],
                              "timeouts": [stuck[i]] if stuck[i] is not None else [],
                              "n_timeouts": 1, "harness_errors": [], "extra": {"workers_killed": 1},
                              "cut_short": True})
                continue
            if not os.path.exists(out):
                ok = False
                crumb = os.path.join(tmp, f"crumb{i}.json")
                last = open(crumb).read()[:3000] if os.path.exists(crumb) else "?"
                print(f"HARNESS-ERROR: worker {i} died with exit code {pr.exitcode}; last case: {last}",
                      file=sys.stderr, flush=True)
                continue
            with open(out, "rb") as fd:
                part = pickle.load(fd)
            if "fatal" in part:
                ok = False
                print(f"HARNESS-ERROR: worker {i} failed:\n{part['fatal']}", file=sys.stderr, flush=True)
                continue
            parts.append(part)
        return parts if ok else None
    finally:
        shutil.rmtree(tmp, ignore_errors=True)


def _batch_seed(seed: int, idx: int, batch_no: int) -> int:
    return (seed * 1000 + idx) * 100000 + batch_no


def _hyp_batch(strat: Any, n: int, hseed: int, one: Any, batch_no: int, *, shrink=False):
    import hypothesis
    from hypothesis import HealthCheck
    from hypothesis import Phase
    from hypothesis import given
    from hypothesis import settings

    phases = [Phase.generate, Phase.shrink] if shrink else [Phase.generate]

    @hypothesis.seed(hseed)
    @settings(
        max_examples=n,
        database=None,
        deadline=None,
        derandomize=False,
        phases=phases,
        suppress_health_check=list(HealthCheck),
        report_multiple_bugs=False,
        verbosity=hypothesis.Verbosity.quiet,
    )
    @given(strat)
    def run(case: Any) -> None:
        one(case, {"kind": "random", "hseed": hseed, "n": n, "batch": batch_no})

    run()


def minimise(
    prop: Prop,
    bucket: str,
    info: dict[str, Any],
    tier: str,
    disabled: frozenset[str],
    budget_s: float,
) -> Any:
    """Shrink the failing case of `bucket` with Hypothesis' shrinker by re-running the
    batch that found it with the same seed; the smallest failing case seen is kept by
    us, so a wall-clock cap simply stops progress."""
    best = {"case": info["case"], "size": info["size"]}
    origin = info["origin"]
    if origin.get("kind") != "random":
        return best["case"]
    t_end = time.time() + budget_s
    strat = prop.strategy(tier, disabled)

    def one(case: Any, _origin: dict[str, Any]) -> None:
        if time.time() > t_end:
            return
        try:
            res = run_case(prop, case, disabled)
        except (CaseTimeout, Exception):
            return
        if any(f.bucket == bucket for f in res.failures):
            size = case_size(case)
            if size <= best["size"]:
                best.update(case=case, size=size)
            raise AssertionError(bucket)

    try:
        _hyp_batch(strat, origin["n"], origin["hseed"], one, origin["batch"], shrink=True)
    except BaseException:  # noqa: BLE001 - hypothesis re-raises / Flaky etc.
        pass
    return best["case"]


# --------------------------------------------------------------------------- main entry


def write_replay(prop_id: str, bucket: str, case: Any, failure: dict, seed: int, tier: str) -> str:
    h = hashlib.sha1(bucket.encode()).hexdigest()[:12]
    d = os.path.join(os.environ.get("LV_REPLAY_DIR") or os.path.join(VERIF, "replays"), prop_id)
    os.makedirs(d, exist_ok=True)
    path = os.path.join(d, f"{h}.json")
    with open(path, "w") as fd:
        json.dump(
            {
                "property": prop_id,
                "bucket": bucket,
                "failure": failure,
                "seed": seed,
                "tier": tier,
                "case": case,
            },
            fd,
            indent=1,
            default=_json_default,
        )
    return path


def run_property(prop_id: str, tier: str, seed: int) -> int:
    from lv.props import load_prop

    t0 = time.time()
    prop = load_prop(prop_id)
    prop.setup_worker()

    active, disabled, lines, regress = triage_known(prop)
    for line in lines:
        print(line, flush=True)

    budget = float(os.environ.get("LV_BUDGET_S", "0")) or (
        prop.budget_s(tier) if hasattr(prop, "budget_s") else (600 if tier == "quick" else 3600)
    )
    deadline = time.time() + budget
    parts = _fan_out(prop_id, tier, seed, disabled, deadline)
    if parts is None:
        return 2

    cases = sum(p["cases"] for p in parts)
    evaluations = sum(p["evaluations"] for p in parts)
    nontrivial: set[int] = set()
    labels: dict[str, int] = {}
    excluded: dict[str, int] = {}
    buckets: dict[str, dict[str, Any]] = {}
    samples: list[Any] = []
    harness_errors: list[str] = []
    n_timeouts = 0
    timeouts: list[Any] = []
    extra: dict[str, Any] = {}
    for p in parts:
        nontrivial |= p["nontrivial"]
        for k, v in p["labels"].items():
            labels[k] = labels.get(k, 0) + v
        for k, v in p["excluded"].items():
            excluded[k] = excluded.get(k, 0) + v
        for b, info in p["buckets"].items():
            cur = buckets.get(b)
            if cur is None:
                buckets[b] = info
            else:
                cur["count"] += info["count"]
                if info["size"] < cur["size"]:
                    cnt = cur["count"]
                    buckets[b] = info
                    buckets[b]["count"] = cnt
        samples.extend(p["samples"])
        harness_errors.extend(p["harness_errors"])
        n_timeouts += p["n_timeouts"]
        timeouts.extend(p["timeouts"])
        for k, v in p["extra"].items():
            if isinstance(v, (int, float)):
                extra[k] = extra.get(k, 0) + v
            else:
                extra.setdefault(k, v)

    if harness_errors:
        print("HARNESS-ERROR\n" + harness_errors[0], file=sys.stderr, flush=True)
        return 2

    # optional second engine (coverage-guided fuzzing) run by the main process
    post = getattr(prop, "post_campaign", None)
    if post is not None:
        tolerate = [e.get("bucket_regex") or __import__("re").escape(e["bucket"]) for e in active
                    if "bucket" in e or "bucket_regex" in e]
        info = post(tier, seed, tolerate)
        for k, v in (info.get("evidence") or {}).items():
            extra[k] = v
        for case in info.get("cases") or []:
            try:
                res = run_case(prop, case, disabled)
            except CaseTimeout:
                continue
            evaluations += res.evaluations
            cases += 1
            for f in res.failures:
                cur = buckets.get(f.bucket)
                if cur is None:
                    buckets[f.bucket] = {"count": 1, "size": case_size(case), "case": case,
                                         "failure": f.as_dict(), "origin": {"kind": "fuzz"}}
                else:
                    cur["count"] += 1

    # hang confirmation (only where non-termination is part of the property)
    inconclusive = n_timeouts
    if prop.hang_is_violation and timeouts:
        hard = [jdump(c) for p in parts if p.get("extra", {}).get("workers_killed") for c in p["timeouts"]]
        # cases that cost a worker its life (120 s, watchdog ignored) first; one confirming run is enough for those
        timeouts.sort(key=lambda c: jdump(c) not in hard)
        for case in timeouts[:3]:
            hung = 0
            need = 1 if jdump(case) in hard else 3
            for _ in range(need):
                try:
                    run_case_guarded(prop, case, disabled, 60)
                except CaseTimeout:
                    hung += 1
                except RuntimeError:
                    break
            if hung == need:
                buckets.setdefault(
                    "hang",
                    {
                        "count": 1,
                        "size": case_size(case),
                        "case": case,
                        "failure": {"oracle": "termination", "bucket": "hang", "detail": ""},
                        "origin": {"kind": "enum"},
                    },
                )

    # split into tolerated (known) and new
    new_buckets: dict[str, dict[str, Any]] = {}
    known_seen: dict[str, int] = {}
    for b, info in buckets.items():
        hit = next((e for e in active if _bucket_matches(e, b)), None)
        if hit is not None:
            known_seen[hit["id"]] = known_seen.get(hit["id"], 0) + info["count"]
        else:
            new_buckets[b] = info

    violations = 0
    for entry in regress:
        path = write_replay(
            prop_id, "regression:" + entry["id"], entry["witness"],
            {"oracle": "regression", "bucket": entry.get("bucket", ""), "detail": entry["description"]},
            seed, tier,
        )
        print(f"VIOLATION property={prop_id} replay={path}", flush=True)
        violations += 1

    min_budget = 45 if tier == "quick" else 180
    for b, info in sorted(new_buckets.items(), key=lambda kv: kv[1]["size"])[:5]:
        case = info["case"]
        if os.environ.get("LV_NO_SHRINK") != "1" and b != "hang":
            try:
                case = minimise(prop, b, info, tier, disabled, min_budget)
            except Exception:
                case = info["case"]
        failure = info["failure"]
        try:
            if b == "hang":  # never re-run a hanging case in this process: the watchdog may not reach it
                raise CaseTimeout()
            res = run_case(prop, case, disabled)
            for f in res.failures:
                if f.bucket == b:
                    failure = f.as_dict()
        except BaseException:  # noqa: BLE001
            pass
        path = write_replay(prop_id, b, case, failure, seed, tier)
        print(f"VIOLATION property={prop_id} replay={path}", flush=True)
        print(f"  bucket={b} count={info['count']} detail={failure.get('detail', '')[:300]!r}", flush=True)
        violations += 1
    if len(new_buckets) > 5:
        print(f"  ({len(new_buckets) - 5} further failing buckets not minimised: "
              f"{sorted(new_buckets)[5:15]})", flush=True)

    exhaustive = prop.enumerated_is_exhaustive(tier) and not any(p["cut_short"] for p in parts)
    coverage: dict[str, Any] = {
        "evaluations": evaluations,
        "cases": cases,
        "distinct_nontrivial": len(nontrivial),
        "rule": prop.rule,
        "samples": samples[:5],
        "labels": dict(sorted(labels.items())),
        "excluded_by_known_finding": excluded,
        "known_findings_seen": known_seen,
        "inconclusive_timeouts": inconclusive,
        "timeout_samples": [jdump(prop.sample(c))[:400] for c in timeouts[:3]],
        "failing_buckets": {b: i["count"] for b, i in new_buckets.items()},
        "exhaustive": bool(exhaustive),
        "cut_short_by_budget": any(p["cut_short"] for p in parts),
        "workers": NWORKERS,
    }
    coverage.update(extra)
    evidence = {
        "property_id": prop_id,
        "tier": tier,
        "seed": seed,
        "level": "exploration",
        "coverage": coverage,
        "assumptions": prop.assumptions,
        "wall_s": round(time.time() - t0, 2),
        "violations": violations,
    }
    evdir = os.environ.get("LV_EVIDENCE_DIR") or os.path.join(VERIF, "evidence")
    os.makedirs(evdir, exist_ok=True)
    with open(os.path.join(evdir, f"{prop_id}.json"), "w") as fd:
        json.dump(evidence, fd, indent=1, default=_json_default)

    print(
        f"{prop_id} {tier} seed={seed}: cases={cases} evaluations={evaluations} "
        f"nontrivial={len(nontrivial)} violations={violations} "
        f"known={sum(known_seen.values())} timeouts={inconclusive} "
        f"wall={time.time() - t0:.1f}s",
        flush=True,
    )
    if len(nontrivial) < 2:
        print("HARNESS-ERROR: fewer than 2 non-trivial cases generated", file=sys.stderr)
        return 2
    return 1 if violations else 0


def replay(path: str) -> int:
    from lv.props import load_prop

    with open(path) as fd:
        doc = json.load(fd)
    prop = load_prop(doc["property"])
    prop.setup_worker()
    bucket = doc.get("bucket", "")
    try:
        runner = run_case_guarded if prop.hang_is_violation else run_case
        res = runner(prop, doc["case"], frozenset())
        fails = res.failures
    except CaseTimeout:
        fails = [Failure("termination", "hang", "")]
    for f in fails:
        print(f"failure oracle={f.oracle} bucket={f.bucket}\n  {f.detail}")
    want = bucket.split("regression:", 1)[-1] if bucket.startswith("regression:") else bucket
    if any(f.bucket == want for f in fails) or (bucket.startswith("regression:") and fails):
        print(f"VIOLATION property={doc['property']} replay={path}")
        return 1
    if fails:
        print("(original bucket no longer fails; other failures shown above)")
        print(f"VIOLATION property={doc['property']} replay={path}")
        return 1
    print("replay passes: no failure")
    return 0
