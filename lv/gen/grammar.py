"""Hypothesis-driven generator of Liquid programs (our AST, see printer.py) and data.

One fixed, typed data schema is used so that expressions can be built *by construction*
with the documented operand types; `Cfg.confusion` is the rate at which an operand of an
arbitrary type is drawn instead.  All randomness is Hypothesis draws.
"""

from __future__ import annotations

from dataclasses import dataclass
from dataclasses import field
from typing import Any
from typing import Callable

from hypothesis import strategies as st

# --------------------------------------------------------------------------- schema

ITEM_KEYS = {"title": "str", "price": "num", "tags": "strs", "ok": "bool", "qty": "int"}
USER_KEYS = {"name": "str", "age": "int", "address": "hash:addr", "first": "str", "size": "int"}
ADDR_KEYS = {"city": "str", "zip": "str"}

SCHEMA: dict[str, str] = {
    "n": "int",
    "m": "int",
    "f": "float",
    "s": "str",
    "t": "str",
    "flag": "bool",
    "z": "nil",
    "nums": "ints",
    "words": "strs",
    "items": "hashes",
    "user": "hash:user",
    "grid": "grid",
    "key": "key",
    "idx": "int",
    "é": "str",
    "a-b": "int",
}

LOCAL_NAMES = ["v", "w", "acc", "s", "n", "items", "x", "é", "first", "size"]
LOOP_VARS = ["i", "it", "x", "row", "w"]

TEXT_ALPHABET = "abcXYZ019 \n\t.,:;!?-_'\"<>&/\\()[]|=%#}{$é日"

WORDS = ["apple", "Banana", "cherry", "a b", "", " ", "x", "10", "2", "-3", "1.5", "é", "日本", "a,b", "A", "b"]

small_ints = st.integers(-3, 12)
any_ints = st.one_of(
    small_ints,
    small_ints,
    st.sampled_from([0, 1, -1, 2**31, 2**53 + 1, -(2**63), 10**20]),
)
nice_floats = st.one_of(
    st.sampled_from([0.0, 1.5, -2.25, 3.0, 0.1, 10.75, 100.125, -0.5]),
    st.integers(-10**4, 10**4).map(lambda i: i / 8),
)
plain_text = st.text(alphabet=TEXT_ALPHABET, max_size=8)
word = st.one_of(st.sampled_from(WORDS), plain_text)


def _mk_item(d: Any) -> dict[str, Any]:
    item: dict[str, Any] = {}
    if d(st.integers(0, 9)) > 0:
        item["title"] = d(word)
    if d(st.integers(0, 9)) > 1:
        item["price"] = d(st.one_of(small_ints, nice_floats))
    if d(st.integers(0, 9)) > 3:
        item["tags"] = d(st.lists(word, max_size=3))
    if d(st.integers(0, 9)) > 2:
        item["ok"] = d(st.sampled_from([True, False, None]))
    if d(st.integers(0, 9)) > 4:
        item["qty"] = d(small_ints)
    return item


@st.composite
def data_strategy(draw: Any, allow_empty: bool = False) -> dict[str, Any]:
    d = draw
    if allow_empty and d(st.integers(0, 29)) == 0:
        # no data at all: every global lookup is undefined, namespaces start out empty
        return {}
    data: dict[str, Any] = {
        "n": d(any_ints),
        "m": d(small_ints),
        "f": d(nice_floats),
        "s": d(word),
        "t": d(word),
        "flag": d(st.booleans()),
        "nums": d(st.lists(small_ints, max_size=5)),
        "words": d(st.lists(word, max_size=5)),
        "items": [_mk_item(d) for _ in range(d(st.integers(0, 4)))],
        "grid": d(st.lists(st.lists(small_ints, max_size=3), max_size=3)),
        "key": d(st.sampled_from(["title", "price", "name", "missing", "tags", "qty", "size", "first"])),
        "idx": d(st.integers(-2, 4)),
        "é": d(word),
        "a-b": d(small_ints),
    }
    user: dict[str, Any] = {"name": d(word), "age": d(small_ints)}
    if d(st.booleans()):
        user["address"] = {"city": d(word), "zip": d(word)}
    if d(st.integers(0, 4)) == 0:
        user["first"] = d(word)
    if d(st.integers(0, 4)) == 0:
        user["size"] = d(small_ints)
    data["user"] = user
    if d(st.integers(0, 3)) == 0:
        data["z"] = None
    data["a b"] = data["a-b"]  # only reachable as ['a b'] (Cfg.spaced_names)
    data.update({"empty": data["s"], "blank": data["m"], "for": data["t"], "true": data["m"], "continue": 1,
                 "limit": data["m"], "reversed": data["t"]})
    return data


# --------------------------------------------------------------------------- filters
# name -> (left type, [arg types ('?' suffix = optional)], result type)

FILTERS: dict[str, tuple[str, list[str], str]] = {
    "append": ("str", ["str"], "str"),
    "prepend": ("str", ["str"], "str"),
    "capitalize": ("str", [], "str"),
    "downcase": ("str", [], "str"),
    "upcase": ("str", [], "str"),
    "lstrip": ("str", [], "str"),
    "rstrip": ("str", [], "str"),
    "strip": ("str", [], "str"),
    "strip_html": ("str", [], "str"),
    "strip_newlines": ("str", [], "str"),
    "newline_to_br": ("str", [], "str"),
    "escape": ("str", [], "str"),
    "escape_once": ("str", [], "str"),
    "url_encode": ("str", [], "str"),
    "url_decode": ("str", [], "str"),
    "remove": ("str", ["str"], "str"),
    "remove_first": ("str", ["str"], "str"),
    "remove_last": ("str", ["str"], "str"),
    "replace": ("str", ["str", "str?"], "str"),
    "replace_first": ("str", ["str", "str?"], "str"),
    "replace_last": ("str", ["str", "str"], "str"),
    "slice": ("seq", ["int", "int?"], "same"),
    "split": ("str", ["str"], "strs"),
    "truncate": ("str", ["int?", "str?"], "str"),
    "truncatewords": ("str", ["int?", "str?"], "str"),
    "size": ("any", [], "int"),
    "default": ("any", ["any"], "any"),
    "join": ("list", ["str?"], "str"),
    "first": ("list", [], "any"),
    "last": ("list", [], "any"),
    "concat": ("list", ["list"], "list"),
    "reverse": ("list", [], "same"),
    "sort": ("list", ["key?"], "same"),
    "sort_natural": ("list", ["key?"], "same"),
    "sort_numeric": ("list", ["key?"], "same"),
    "uniq": ("list", ["key?"], "same"),
    "compact": ("list", ["key?"], "same"),
    "map": ("hashes", ["key"], "list"),
    "where": ("hashes", ["key", "any?"], "hashes"),
    "reject": ("hashes", ["key", "any?"], "hashes"),
    "find": ("hashes", ["key", "any?"], "hash:item"),
    "find_index": ("hashes", ["key", "any?"], "int"),
    "has": ("hashes", ["key", "any?"], "bool"),
    "sum": ("list", ["key?"], "num"),
    "abs": ("num", [], "num"),
    "at_least": ("num", ["num"], "num"),
    "at_most": ("num", ["num"], "num"),
    "ceil": ("num", [], "int"),
    "floor": ("num", [], "int"),
    "round": ("num", ["int?"], "num"),
    "plus": ("num", ["num"], "num"),
    "minus": ("num", ["num"], "num"),
    "times": ("num", ["num"], "num"),
    "divided_by": ("num", ["num"], "num"),
    "modulo": ("num", ["num"], "num"),
    "json": ("jsonable", ["indent?"], "str"),
    "date": ("date", ["datefmt"], "str"),
    "safe": ("str", [], "str"),
}

LAMBDA_FILTERS = {"map", "where", "reject", "find", "find_index", "has", "sort", "sort_natural",
                  "sort_numeric", "uniq", "compact", "sum"}
LAMBDA_PATH_ONLY = {"map", "sort", "sort_natural", "sort_numeric", "uniq", "compact", "sum"}

SHOPIFY_FILTERS = {
    "base64_encode": ("str", [], "str"),
    "base64_decode": ("str", [], "str"),
    "base64_url_safe_encode": ("str", [], "str"),
    "base64_url_safe_decode": ("str", [], "str"),
}

LIST_TYPES = ("ints", "strs", "hashes", "grid", "list")


def compatible(have: str, want: str) -> bool:
    if have == "cap":
        return False
    if want in ("any", have):
        return True
    if want == "num":
        return have in ("int", "float")
    if want == "list":
        return have in LIST_TYPES
    if want == "seq":
        return have in LIST_TYPES or have == "str"
    if want == "jsonable":
        return have in ("int", "float", "str", "bool", "ints", "strs", "hashes", "grid", "hash:item", "hash:user",
                        "hash:addr")
    if want == "scalar":
        return have in ("int", "float", "str", "bool", "nil")
    if want == "date":
        return have in ("str", "int")
    if want == "key":
        return have in ("key", "str")
    if want == "datefmt":
        return have == "str"
    return False


# --------------------------------------------------------------------------- config


@dataclass
class Cfg:
    max_depth: int = 3
    max_stmts: int = 4
    budget: int = 16  # total statements
    expr_depth: int = 2
    max_filters: int = 3
    confusion: float = 0.05
    wc_rate: float = 0.0  # probability a marker position gets a non-default marker
    ws_text: bool = False  # text saturated with (unicode) whitespace
    filters: bool = True
    filter_names: list[str] | None = None
    lambdas: bool = True
    ternary: bool = True
    tstrings: bool = True
    arrays: bool = True
    comments: bool = True
    raw: bool = True
    liquid_tag: bool = True
    counters: bool = True
    cycle: bool = True
    with_tag: bool = True
    macros: bool = True
    partials: bool = True
    tablerow: bool = False
    shopify: bool = False
    breaks: bool = True
    case: bool = True
    offset_continue: bool = True
    quoted_names: bool = True  # 'a b' style roots / bracketed segments
    weird_idents: bool = True
    date: bool = False
    time_builtins: bool = False
    safe_filter: bool = False
    partial_names: list[str] = field(default_factory=lambda: ["card", "row.html", "snippets/foo.html"])
    text: Any = None  # override strategy for literal text
    strings: Any = None  # override strategy for string literals
    inspect_captures: bool = True  # allow size/slice/... on captured text
    range_vars: bool = True  # allow (small) variables as range bounds
    indirect_root: bool = False  # `[key]` / `[key].size`: the root of a path named by another variable
    huge_floats: bool = False  # float literals beyond the double range (1.5e999)
    spaced_names: bool = False  # the data variable "a b", which can only be written as ['a b']


WS_CHARS = " \t\n\r\x0b\x0c\x1c\x1d\x1e\x1f\x85\xa0        　"


def _fix_text(s: str) -> str:
    """Make literal text sound: no markup openers inside, no trailing '{'."""
    for a in ("{{", "{%", "{#"):
        while a in s:
            s = s.replace(a, a[0] + " " + a[1])
    while s.endswith("{"):
        s = s[:-1] + "("
    return s


class Gen:
    def __init__(self, draw: Callable[[Any], Any], cfg: Cfg) -> None:
        self.draw = draw
        # ConjectureData.draw_integer is ~3x cheaper than drawing from st.integers();
        # it is the same choice sequence, so shrinking and replay are unaffected.
        self._data = getattr(draw, "__self__", None)
        if not hasattr(self._data, "draw_integer"):
            self._data = None
        self.cfg = cfg
        self.scope: dict[str, str] = dict(SCHEMA)
        if cfg.spaced_names:
            self.scope["a b"] = "int"
            # variables named like keywords: only reachable as ['empty'], ['for'] ...
            self.scope["empty"] = "str"
            self.scope["blank"] = "int"
            self.scope["for"] = "str"
            self.scope["true"] = "int"
            # loop-argument words: after `for x in a, b` a bare `reversed` is the flag, ['reversed'] the variable
            self.scope["limit"] = "int"
            self.scope["reversed"] = "str"
        self.budget = cfg.budget
        self.macros: dict[str, list[tuple[str, bool]]] = {}
        self.partials: dict[str, list[dict[str, Any]]] = {}
        self.in_loop = 0
        self.in_liquid = False
        self.in_isolated = False
        self.captured: set[str] = set()
        fnames = cfg.filter_names or list(FILTERS)
        self.filter_table = {k: FILTERS[k] for k in fnames if k in FILTERS}
        if cfg.shopify:
            self.filter_table.update(SHOPIFY_FILTERS)
        if not cfg.date:
            self.filter_table.pop("date", None)
        if not cfg.safe_filter:
            self.filter_table.pop("safe", None)

    # ----------------------------------------------------------------- helpers

    def i(self, lo: int, hi: int) -> int:
        if self._data is not None:
            return self._data.draw_integer(lo, hi)
        return self.draw(st.integers(lo, hi))

    def p(self, prob: float) -> bool:
        if prob <= 0:
            return False
        return self.i(0, 999) < prob * 1000

    def pick(self, seq: list[Any]) -> Any:
        return seq[self.i(0, len(seq) - 1)]

    def wc(self) -> list[str]:
        if self.cfg.wc_rate <= 0:
            return ["", ""]
        return [self.wc1(), self.wc1()]

    def wc1(self) -> str:
        if self.cfg.wc_rate > 0 and self.p(self.cfg.wc_rate):
            return self.pick(["-", "~", "+"])
        return ""

    def string(self) -> str:
        if self.cfg.strings is not None:
            return self.draw(self.cfg.strings)
        return self.draw(word)

    def text(self) -> str:
        if self.cfg.text is not None:
            return _fix_text(self.draw(self.cfg.text))
        if self.cfg.ws_text:
            core = self.draw(st.text(alphabet="abX.,<", min_size=0, max_size=4))
            lead = self.draw(st.text(alphabet=WS_CHARS, max_size=3))
            trail = self.draw(st.text(alphabet=WS_CHARS, max_size=3))
            return _fix_text(lead + core + trail)
        return _fix_text(self.draw(st.one_of(
            st.sampled_from([" ", "\n", ", ", "x", "<b>", "  \n  ", "]"]),
            st.text(alphabet=TEXT_ALPHABET, min_size=1, max_size=6),
        )))

    # ----------------------------------------------------------------- expressions

    def names_of(self, want: str) -> list[str]:
        return [n for n, ty in self.scope.items() if compatible(ty, want)]

    def literal(self, want: str) -> list[Any]:
        if want in ("int",):
            return ["int", self.draw(any_ints)]
        if want == "float":
            return ["float", self.pick(["1.5", "0.25", "-2.0", "10.125", "3.0", "1e-2", "2.5E+1", "1.50", "1.0e16", "2.5e20",
                                        "1e-7", "-0.0", "123456789.125"]
                                       + (["1.5e999", "-2.0e400", "1e-999"] if self.cfg.huge_floats else []))]
        if want == "num":
            return self.literal(self.pick(["int", "int", "float"]))
        if want in ("str", "datefmt", "date", "key"):
            if want == "key":
                return ["str", self.pick(["title", "price", "ok", "qty", "tags", "missing", "name"])]
            if want == "datefmt":
                return ["str", self.pick(["%Y-%m-%d", "%H:%M", "%a, %b %d, %y", "%s", "%%", "%j"])]
            if want == "date":
                return self.pick([["str", "2001-02-03 04:05:06"], ["str", "March 14, 2016"], ["int", 1152098955],
                                  ["str", "1152098955"], ["str", "not a date"]])
            return ["str", self.string()]
        if want == "bool":
            return [self.pick(["true", "false"])]
        if want == "nil":
            return ["nil"]
        if want in LIST_TYPES or want == "seq":
            lo, hi = self.i(-2, 3), self.i(0, 5)
            return ["range", ["int", lo], ["int", hi]]
        if want == "scalar":
            return self.literal(self.pick(["int", "float", "str", "bool", "nil"]))
        # any
        return self.literal(self.pick(["int", "float", "str", "str", "bool", "nil", "list"]))

    def path(self, want: str, depth: int) -> list[Any] | None:  # noqa: PLR0911, PLR0912
        """A path expression whose static type is compatible with `want` (or None).

        Options are collected as cheap tuples first; draws happen only for the chosen one.
        """
        opts: list[tuple[Any, ...]] = []
        sc = self.scope
        for name, ty in sc.items():
            if compatible(ty, want):
                opts.append(("root", name))
            if ty == "hashes":
                for k, kt in ITEM_KEYS.items():
                    if compatible(kt, want):
                        opts.append(("idx_n", name, k))
                        opts.append(("fl_n", name, k))
                if compatible("hash:item", want):
                    opts.append(("idx", name))
            elif ty == "hash:item":
                for k, kt in ITEM_KEYS.items():
                    if compatible(kt, want):
                        opts.append(("n", name, k))
                if compatible("str", want) and depth > 0 and "key" in sc:
                    opts.append(("key", name))
            elif ty == "hash:user":
                for k, kt in USER_KEYS.items():
                    if compatible(kt, want):
                        opts.append(("n", name, k))
                if compatible("str", want):
                    opts.append(("city", name))
                    if depth > 0 and "key" in sc:
                        opts.append(("key", name))
            elif ty in ("ints", "strs", "grid"):
                el = {"ints": "int", "strs": "str", "grid": "ints"}[ty]
                if compatible(el, want):
                    opts.append(("idx", name))
                    opts.append(("fl", name))
                if ty == "grid" and compatible("int", want):
                    opts.append(("grid2", name))
            elif ty == "forloop":
                for k, kt in (("index", "int"), ("index0", "int"), ("rindex", "int"), ("rindex0", "int"),
                              ("first", "bool"), ("last", "bool"), ("length", "int")):
                    if compatible(kt, want):
                        opts.append(("n", name, k))
                if compatible("int", want) and self.in_loop > 1:
                    opts.append(("parent", name))
            elif ty == "pair" and want in ("any", "str", "scalar"):
                opts.append(("pair", name))
            if (ty in LIST_TYPES or ty in ("str", "hash:user", "hash:item")) and compatible("int", want):
                opts.append(("n", name, "size"))
        if self.cfg.indirect_root and "key" in sc and depth > 0 and want in ("any", "str", "scalar"):
            opts.append(("iroot", "key"))
        if not opts:
            return None
        o = self.pick(opts)
        kind, name = o[0], o[1]
        if kind == "iroot":
            if self.p(0.2):
                return ["path", self.i(0, 2), [] if self.p(0.6) else [["n", self.pick(["size", "a"])]]]
            if self.cfg.spaced_names and self.p(0.3):
                name = self.pick(["for", "empty"])  # [for], [empty.size]: keywords as variable names
            return ["path", ["path", name, []], [] if self.p(0.7) else [["n", "size"]]]
        if kind == "root":
            return ["path", name, []]
        if kind == "idx_n":
            return ["path", name, [self._idx_seg(depth), ["n", o[2]]]]
        if kind == "fl_n":
            return ["path", name, [["n", self.pick(["first", "last"])], ["n", o[2]]]]
        if kind == "idx":
            return ["path", name, [self._idx_seg(depth)]]
        if kind == "fl":
            return ["path", name, [["n", self.pick(["first", "last"])]]]
        if kind == "n":
            return ["path", name, [["n", o[2]]]]
        if kind == "key":
            return ["path", name, [["p", ["path", "key", []]]]]
        if kind == "city":
            return ["path", name, [["n", "address"], ["n", "city"]]]
        if kind == "grid2":
            return ["path", name, [["i", self.i(0, 2)], ["i", self.i(-1, 2)]]]
        if kind == "parent":
            return ["path", name, [["n", "parentloop"], ["n", "index"]]]
        if kind == "pair":
            return ["path", name, [["i", self.i(0, 1)]]]
        raise AssertionError(kind)

    def _idx_seg(self, depth: int) -> list[Any]:
        r = self.i(0, 9)
        if r < 6 or depth <= 0:
            return ["i", self.i(-2, 3)]
        if r < 8 and "idx" in self.scope:
            return ["p", ["path", "idx", []]]
        if r == 9 and self.cfg.spaced_names:
            # inside brackets a keyword is an ordinary variable name: a[true], a[blank]
            return ["p", ["path", self.pick(["true", "blank", "continue"]), []]]
        return ["i", self.i(0, 1)]

    def prim(self, want: str = "any", depth: int | None = None) -> list[Any]:
        depth = self.cfg.expr_depth if depth is None else depth
        if self.p(self.cfg.confusion):
            want = "any"
            if self.p(0.3):
                return ["path", self.pick(["nosuch", "missing", "user"]), [["n", "nope"]] if self.p(0.5) else []]
        r = self.i(0, 9)
        if r < 6:
            e = self.path(want, depth)
            if e is not None:
                return e
        if r == 9 and self.cfg.tstrings and compatible("str", want) and depth > 0:
            return self.tstr(depth - 1)
        if want == "any" and r == 8:
            return [self.pick(["empty", "blank"])]
        if want in LIST_TYPES + ("seq",) and r >= 8:
            # range bounds: small literals or variables that the data strategy keeps small
            # (a bound like 2**31 materialises gigabytes in reverse/join/sort - not a subject here)
            small = [v for v in ("m", "idx", "a-b") if self.scope.get(v) == "int"] if self.cfg.range_vars else []
            a = ["path", self.pick(small), []] if small and self.p(0.3) else ["int", self.i(-1, 3)]
            b = ["path", self.pick(small), []] if small and self.p(0.3) else ["int", self.i(0, 6)]
            return ["range", a, b]
        return self.literal(want)

    SAFE_ROOTS = {"int": ["n", "m", "idx", "a-b"], "float": ["f"], "str": ["s", "t", "é"], "bool": ["flag"]}

    def safe_prim(self, ty: str) -> list[Any]:
        """An operand that is always present with exactly type `ty` (literal or an
        un-shadowed root variable the data strategy always supplies): used where a missing
        or ill-typed operand would abort the render with a type error."""
        if ty == "num":
            ty = self.pick(["int", "int", "float"])
        roots = [r for r in self.SAFE_ROOTS.get(ty, []) if self.scope.get(r) == SCHEMA.get(r)]
        if roots and self.p(0.6) and not self.p(self.cfg.confusion):
            return ["path", self.pick(roots), []]
        if self.p(self.cfg.confusion):
            return self.prim("any", 0)
        return self.literal(ty)

    def tstr(self, depth: int) -> list[Any]:
        parts: list[Any] = []
        for _ in range(self.i(1, 3)):
            if self.p(0.5):
                parts.append(self.string())
            else:
                parts.append(self.fexpr("any", depth, allow_ternary=False, allow_array=False))
        # adjacent literal parts merge when lexed; normalise so the AST is canonical
        norm: list[Any] = []
        for part in parts:
            if isinstance(part, str) and norm and isinstance(norm[-1], str):
                norm[-1] += part
            elif isinstance(part, str) and part == "":
                continue
            else:
                norm.append(part)
        if not any(not isinstance(q, str) for q in norm):
            norm.append(self.fexpr("any", depth, allow_ternary=False, allow_array=False))
        return ["tstr", norm]

    def filter_for(self, have: str, depth: int) -> tuple[dict[str, Any], str] | None:
        names = [n for n, (lt, _, _) in self.filter_table.items() if compatible(have, lt)]
        if self.p(self.cfg.confusion):
            names = list(self.filter_table)
        if not names:
            return None
        name = self.pick(names)
        lt, argt, rt = self.filter_table[name]
        args: list[Any] = []
        if (
            self.cfg.lambdas and name in LAMBDA_FILTERS and self.p(0.4)
            and (have == "hashes" or name not in ("map", "where", "reject", "find", "find_index", "has"))
        ):
            args.append(self.lambda_arg(name, have, depth))
        else:
            for at in argt:
                opt = at.endswith("?")
                at = at.rstrip("?")
                if opt and self.p(0.4):
                    break
                if at == "key":
                    if have != "hashes" and opt:
                        break
                    args.append(["pos", ["str", self.pick(list(ITEM_KEYS) + ["missing"])]])
                elif at == "list":
                    lists = [r for r in ("nums", "words", "items", "grid") if self.scope.get(r) == SCHEMA.get(r)]
                    args.append(["pos", ["path", self.pick(lists), []] if lists else self.prim("list", 0)])
                elif at in ("int", "num") and name in ("divided_by", "modulo"):
                    args.append(["pos", self.pick([["int", 1], ["int", 2], ["int", 3], ["int", -2], ["float", "0.5"],
                                                   ["float", "2.5"], ["int", 7], ["int", 0]]) if not self.p(0.2)
                                 else self.safe_prim("num")])
                elif at in ("int", "num"):
                    args.append(["pos", self.safe_prim(at)])
                elif at == "indent":
                    # huge indents are a known finding (C02 json-indent-memoryerror): GBs per render
                    args.append(["pos", ["int", self.i(0, 6)]])
                else:
                    args.append(["pos", self.prim(at, max(depth - 1, 0))])
            if name == "default" and self.p(0.3):
                args.append(["kw", "allow_false", [self.pick(["true", "false"])]])
        if rt == "same":
            rt = have
        if name in ("first", "last"):
            rt = {"ints": "int", "strs": "str", "hashes": "hash:item", "grid": "ints"}.get(have, "any")
        if name == "map":
            rt = "list"
        return {"name": name, "args": args}, rt

    def lambda_arg(self, fname: str, have: str, depth: int) -> list[Any]:
        pname = self.pick(["x", "it", "item", "v"])
        two = self.p(0.2)
        params = [pname, "j"] if two else [pname]
        saved = dict(self.scope)
        el = {"ints": "int", "strs": "str", "hashes": "hash:item", "grid": "ints"}.get(have, "any")
        self.scope[pname] = el
        if two:
            self.scope["j"] = "int"
        try:
            if fname in LAMBDA_PATH_ONLY:
                if el == "hash:item":
                    body: list[Any] = ["path", pname, [["n", self.pick(list(ITEM_KEYS) + ["missing"])]]]
                else:
                    body = ["path", pname, []]
            else:
                body = self.cond(1)
                if self.p(0.6):
                    if el == "hash:item":
                        k = self.pick(list(ITEM_KEYS))
                        left = ["path", pname, [["n", k]]]
                        body = self.pick([left, ["cmp", "==", left, self.prim(ITEM_KEYS[k], 0)],
                                          ["cmp", self.pick(["<", ">", ">=", "<="]), ["path", pname, [["n", "qty"]]], ["int", self.i(0, 5)]]])
                    elif el == "int":
                        body = ["cmp", self.pick(["<", ">", "==", "!="]), ["path", pname, []], ["int", self.i(0, 5)]]
                    else:
                        body = ["cmp", self.pick(["==", "!=", "contains"]), ["path", pname, []], self.prim("str", 0)]
        finally:
            self.scope = saved
        return ["lambda", params, body]

    def fexpr(self, want: str = "any", depth: int | None = None, *, allow_ternary: bool = True,
              allow_array: bool = True) -> list[Any]:
        depth = self.cfg.expr_depth if depth is None else depth
        if self.cfg.arrays and allow_array and want in ("any", "list") and self.p(0.08):
            left: list[Any] = ["array", [self.prim("scalar", 0) for _ in range(self.i(1, 4))]]
            have = "list"
        else:
            left = self.prim(want if not self.cfg.filters or self.p(0.5) else "any", depth)
            have = self.static_type(left)
        e: list[Any] = left
        if self.cfg.filters and self.p(0.55):
            fl = []
            for _ in range(self.i(1, self.cfg.max_filters)):
                r = self.filter_for(have, depth)
                if r is None:
                    break
                f, have = r
                fl.append(f)
            if fl:
                e = ["filtered", left, fl]
        if allow_ternary and self.cfg.ternary and self.p(0.1):
            cond = self.cond(1)
            alt = self.prim("any", 0) if self.p(0.7) else None
            filters = []
            tail = []
            if alt is not None and self.cfg.filters and self.p(0.4):
                r = self.filter_for(self.static_type(alt), 0)
                if r:
                    filters.append(r[0])
            if self.cfg.filters and self.p(0.3):
                r = self.filter_for("any", 0)
                if r:
                    tail.append(r[0])
            e = ["ternary", e, cond, alt, filters, tail]
        return e

    def static_type(self, e: list[Any]) -> str:  # noqa: PLR0911
        k = e[0]
        if k in ("int", "float", "str", "nil"):
            return k
        if k in ("true", "false"):
            return "bool"
        if k == "range":
            return "ints"
        if k == "tstr":
            return "str"
        if k == "array":
            return "list"
        if k == "path":
            ty = self.scope.get(e[1], "any") if isinstance(e[1], str) else "any"
            for seg in e[2]:
                if seg[0] == "n" and seg[1] == "size":
                    ty = "int"
                elif ty == "hashes":
                    ty = "hash:item"
                elif ty == "hash:item" and seg[0] == "n":
                    ty = ITEM_KEYS.get(seg[1], "any")
                elif ty == "hash:user" and seg[0] == "n":
                    ty = USER_KEYS.get(seg[1], "any")
                elif ty == "hash:addr" and seg[0] == "n":
                    ty = ADDR_KEYS.get(seg[1], "any")
                elif ty == "ints":
                    ty = "int"
                elif ty == "strs":
                    ty = "str"
                elif ty == "grid":
                    ty = "ints"
                elif ty == "forloop":
                    ty = "bool" if seg[1] in ("first", "last") else "int"
                else:
                    ty = "any"
            return ty
        return "any"

    def cond(self, depth: int = 2) -> list[Any]:
        r = self.i(0, 11)
        if depth > 0 and r < 3:
            op = self.pick(["and", "or"])
            return [op, self.cond(depth - 1), self.cond(depth - 1)]
        if r == 3 and depth >= 0:
            # `not` binds tighter than and/or: also generated at the leaves and under groups
            return ["not", self.cond(depth - 1)]
        if r == 4 and depth >= 0:
            # an explicit group may hold any boolean expression, e.g. (not a) and b, (a or b) and c
            return ["grp", self.cond(depth if depth > 0 and self.p(0.5) else depth - 1)]
        if depth >= 0 and r == 5 and self.p(0.3):
            # a comparison whose operand is a grouped boolean expression: (a and b) == c
            return ["cmp", self.pick(["==", "!="]), ["grp", self.cond(depth - 1)], self.prim("bool", 0)]
        if r < 9:
            ty = self.pick(["int", "int", "str", "num", "bool", "any"])
            op = self.pick(["==", "!=", "<", ">", "<=", ">="] if ty in ("int", "str", "num") else ["==", "!="])
            if op in ("<", ">", "<=", ">="):
                # ordering raises a type error for nil / mixed types: keep operands well typed
                return ["cmp", op, self.safe_prim(ty), self.safe_prim(ty)]
            a = self.prim(ty, 1)
            b = self.prim(ty, 1) if not self.p(0.15) else [self.pick(["empty", "blank", "nil"])]
            return ["cmp", op, a, b]
        if r == 9:
            hk = self.pick(["str", "strs", "ints"])
            hay = self.safe_prim("str") if hk == "str" else ["path", {"strs": "words", "ints": "nums"}[hk], []]
            if hay[0] == "path" and self.scope.get(hay[1]) != SCHEMA.get(hay[1]):
                hay = self.literal("str")
            needle = self.prim("str" if hk != "ints" else "int", 0)
            if self.p(0.5):
                return ["cmp", "contains", hay, needle]
            return ["cmp", "in", needle, hay]
        return self.prim(self.pick(["bool", "any", "nil"]), 1)

    # ----------------------------------------------------------------- statements

    def block(self, depth: int, *, min_stmts: int = 0) -> list[dict[str, Any]]:
        n = self.i(min_stmts, self.cfg.max_stmts if depth > 0 else 2)
        saved = dict(self.scope)
        out = []
        for _ in range(n):
            if self.budget <= 0:
                break
            out.append(self.stmt(depth))
        # locals assigned in a block stay assigned (template scope) - keep them
        for k in list(self.scope):
            if k not in saved and self.scope[k] in ("forloop",):
                del self.scope[k]
        return self._merge_text(out)

    def else_block(self, depth: int) -> list[dict[str, Any]]:
        """An else branch; now and then completely empty (`{% else %}{% endif %}`)."""
        if self.p(0.12):
            return []
        return self.block(depth)

    def _merge_text(self, stmts: list[dict[str, Any]]) -> list[dict[str, Any]]:
        out: list[dict[str, Any]] = []
        for s in stmts:
            if s["t"] == "text" and s["s"] == "":
                continue
            if s["t"] == "text" and out and out[-1]["t"] == "text":
                out[-1] = {"t": "text", "s": _fix_text(out[-1]["s"] + s["s"])}
            else:
                out.append(s)
        return out

    def stmt(self, depth: int) -> dict[str, Any]:  # noqa: PLR0911, PLR0912, PLR0915
        self.budget -= 1
        c = self.cfg
        kinds = ["assign"] * 2
        if not self.in_liquid:
            kinds += ["text"] * 5 + ["out"] * 5
            if c.raw:
                kinds += ["raw"]
            if c.liquid_tag and depth > 0:
                kinds += ["liquid"]
        else:
            kinds += ["echo"] * 4
        kinds += ["echo"]
        if c.comments:
            kinds += ["comment"]
        if depth > 0:
            kinds += ["if"] * 3 + ["for"] * 3 + ["unless", "capture"]
            if c.case:
                kinds += ["case"]
            if c.with_tag:
                kinds += ["with"]
            if c.tablerow and c.shopify and not self.in_liquid:
                kinds += ["tablerow"]
        if c.counters:
            kinds += ["increment", "decrement"]
        if c.cycle:
            kinds += ["cycle"]
        if self.in_loop and c.breaks:
            kinds += ["break", "continue"]
        if c.macros and self.macros:
            kinds += ["call"] * 2
        if c.partials and self.partials:
            kinds += ["render"] * 2
            if not self.in_isolated:
                kinds += ["include"] * 2
        if not c.inspect_captures and not self.in_liquid:
            caps = [n for n, ty in self.scope.items() if ty == "cap"]
            if caps and self.p(0.25):
                return {"t": "out", "e": ["path", self.pick(caps), []], "wc": self.wc()}
        k = self.pick(kinds)
        if k == "text":
            return {"t": "text", "s": self.text()}
        if k == "out":
            return {"t": "out", "e": self.fexpr(), "wc": self.wc()}
        if k == "echo":
            return {"t": "echo", "e": self.fexpr(), "wc": self.wc()}
        if k == "raw":
            txt = self.text() if not self.p(0.3) else self.pick(["{{ x }}", "{% if %}", " {{ ", "{# c #}"])
            txt = txt.replace("endraw", "end_raw")
            s: dict[str, Any] = {"t": "raw", "s": txt}
            if c.wc_rate > 0:
                s["wc4"] = [self.wc1(), self.wc1(), self.wc1(), self.wc1()]
            return s
        if k == "comment":
            kind = self.pick(["hash", "inline", "block"])
            body = self.draw(st.text(alphabet="abc XYZ.,!?-", max_size=8))
            s = {"t": "comment", "kind": kind, "s": " " + body + " ", "wc": self.wc()}
            if kind == "hash":
                s["hashes"] = self.pick([1, 1, 2, 3])
                if s["s"].strip().endswith("-") or s["s"].strip().startswith("-"):
                    s["s"] = " c "
            if kind == "block" and c.wc_rate > 0:
                s["wc2"] = [self.wc1(), self.wc1()]
            return s
        if k == "assign":
            name = self.pick(LOCAL_NAMES) if c.weird_idents else self.pick(["v", "w", "acc"])
            e = self.fexpr()
            s = {"t": "assign", "name": name, "e": e, "wc": self.wc()}
            self.scope[name] = self._result_type(e)
            self.captured.discard(name)
            return s
        if k == "capture":
            name = self.pick(["cap", "v", "w"]) if c.inspect_captures else self.pick(["cap", "cap2"])
            body = self.block(depth - 1, min_stmts=1)
            # with inspect_captures off a captured variable has the opaque type "cap": no
            # expression may look at it (size, comparison, filters); it is only ever output
            self.scope[name] = "str" if c.inspect_captures else "cap"
            self.captured.add(name)
            return {"t": "capture", "name": name, "body": body, "wc": self.wc(), "wc_end": self.wc()}
        if k in ("if", "unless"):
            s = {"t": k, "cond": self.cond(), "body": self.block(depth - 1), "wc": self.wc(), "wc_end": self.wc()}
            ne = self.i(0, 2) if self.p(0.3) else 0
            s["elsifs"] = [[self.cond(1), self.block(depth - 1)] for _ in range(ne)]
            s["wc_elsifs"] = [self.wc() for _ in range(ne)]
            s["else"] = self.else_block(depth - 1) if self.p(0.5) else None
            s["wc_else"] = self.wc()
            return s
        if k == "case":
            subj = self.prim(self.pick(["int", "str", "any"]), 1)
            ty = self.static_type(subj)
            nw = self.i(0, 3)  # 0: a case tag with no when (only an else, or nothing at all)
            whens = []
            for _ in range(nw):
                vals = [self.prim(ty if ty in ("int", "str") else "scalar", 0) for _ in range(self.i(1, 3))]
                whens.append([vals, self.block(depth - 1)])
            s = {"t": "case", "e": subj, "whens": whens, "wc": self.wc(), "wc_end": self.wc(),
                 "wc_whens": [self.wc() for _ in range(nw)], "wc_else": self.wc(),
                 "else": self.else_block(depth - 1) if self.p(0.6) else None,
                 "lead_ws": self.pick(["", "", "\n", " "]) }
            return s
        if k in ("for", "tablerow"):
            var = self.pick(LOOP_VARS)
            it = self.prim(self.pick(["ints", "strs", "hashes", "list", "list", "hash:user"]), 1)
            if it[0] in ("str", "int", "float", "nil", "true", "false", "tstr"):
                it = ["path", "nums", []]
            el = {"ints": "int", "strs": "str", "hashes": "hash:item", "grid": "ints", "hash:user": "pair"}.get(
                self.static_type(it), "any")
            s = {"t": k, "var": var, "iter": it, "wc": self.wc(), "wc_end": self.wc(), "wc_else": self.wc()}
            if c.arrays and self.p(0.05) and k == "for":
                s["iter"] = ["array", [self.prim("scalar", 0) for _ in range(self.i(2, 3))]]
                el = "any"
            else:
                if self.p(0.3):
                    s["limit"] = self.safe_prim("int") if self.p(0.3) else ["int", self.i(0, 4)]
                if self.p(0.3):
                    if c.offset_continue and self.p(0.3) and k == "for":
                        s["offset"] = "continue"
                    elif c.spaced_names and self.p(0.15):
                        s["offset"] = ["path", "continue", []]  # a variable that is called `continue`
                    else:
                        s["offset"] = self.safe_prim("int") if self.p(0.3) else ["int", self.i(0, 3)]
                if k == "tablerow" and self.p(0.6):
                    s["cols"] = ["int", self.i(1, 3)]
                s["reversed"] = self.p(0.2)
            saved = dict(self.scope)
            self.scope[var] = el
            self.scope["forloop" if k == "for" else "tablerowloop"] = "forloop"
            self.in_loop += 1
            try:
                s["body"] = self.block(depth - 1, min_stmts=1)
            finally:
                self.in_loop -= 1
                for nm in (var, "forloop", "tablerowloop"):
                    if nm in saved:
                        self.scope[nm] = saved[nm]
                    else:
                        self.scope.pop(nm, None)
            s["else"] = self.else_block(depth - 1) if (k == "for" and self.p(0.3)) else None
            return s
        if k in ("break", "continue"):
            return {"t": k, "wc": self.wc()}
        if k in ("increment", "decrement"):
            return {"t": k, "name": self.pick(["c", "d", "n", "v"]), "wc": self.wc()}
        if k == "cycle":
            items = [self.prim("scalar", 0) for _ in range(self.i(1, 3))]
            grp = self.pick([None, None, "g", "h", "a b", ""]) if c.quoted_names else self.pick([None, "g", "h"])
            return {"t": "cycle", "group": grp, "items": items, "wc": self.wc()}
        if k == "liquid":
            self.in_liquid = True
            try:
                body = self.block(depth - 1, min_stmts=1)
            finally:
                self.in_liquid = False
            return {"t": "liquid", "body": body, "wc": self.wc()}
        if k == "with":
            args = [[self.pick(["p", "q", "s", "n"]), self.prim("any", 1)] for _ in range(self.i(1, 2))]
            saved = dict(self.scope)
            for a, v in args:
                self.scope[a] = self.static_type(v)
            try:
                body = self.block(depth - 1, min_stmts=1)
            finally:
                for a, _ in args:
                    if a in saved:
                        self.scope[a] = saved[a]
                    else:
                        self.scope.pop(a, None)
            return {"t": "with", "args": args, "body": body, "wc": self.wc(), "wc_end": self.wc()}
        if k == "call":
            name = self.pick(list(self.macros))
            params = self.macros[name]
            nargs = self.i(0, len(params) + 1)
            args = [self.prim("any", 1) for _ in range(nargs)]
            kwargs = []
            if self.p(0.4):
                kwargs.append([self.pick([p_[0] for p_ in params] + ["extra"]), self.prim("any", 1)])
            return {"t": "call", "name": name, "args": args, "kwargs": kwargs, "wc": self.wc()}
        if k in ("include", "render"):
            name = self.pick(list(self.partials))
            s = {"t": k, "name": ["str", name], "wc": self.wc()}
            r = self.i(0, 5)
            if r == 0:
                s["var"] = self.prim("any", 1)
                s["loop"] = False
            elif r == 1:
                s["var"] = self.prim("list", 1)
                s["loop"] = True
            if s.get("var") is not None and self.p(0.4):
                s["alias"] = self.pick(["p", "q", "it"])
            s["args"] = [[self.pick(["p", "q"]), self.prim("any", 1)] for _ in range(self.i(0, 2))]
            return s
        raise AssertionError(k)

    def _result_type(self, e: list[Any]) -> str:
        if e[0] == "filtered":
            ty = self.static_type(e[1])
            for f in e[2]:
                spec = self.filter_table.get(f["name"]) or FILTERS.get(f["name"])
                if spec is None:
                    return "any"
                rt = spec[2]
                if rt == "same":
                    rt = ty
                ty = rt
            return ty
        if e[0] == "ternary":
            return "any"
        return self.static_type(e)

    # ----------------------------------------------------------------- programs

    def partial_body(self, name: str) -> list[dict[str, Any]]:
        """Body of a partial template: sees globals, p/q args and its base-name binding."""
        saved = (dict(self.scope), self.in_isolated, self.budget, dict(self.partials))
        base = name.rsplit("/", 1)[-1].split(".")[0]
        self.scope = dict(SCHEMA)
        self.scope.update({"p": "any", "q": "any", base: "any", "it": "any"})
        self.in_isolated = True
        self.budget = 6
        self.partials = {}
        try:
            body = self.block(1, min_stmts=1)
            # make the bindings a caller can establish observable: the `with/for` binding is
            # named after the template's base name (or the alias), keyword args are p / q
            probes: list[dict[str, Any]] = []
            for nm in (base, "p", "q", "it"):
                if self.p(0.5):
                    probes.append({"t": "out", "e": ["path", nm, []], "wc": ["", ""]})
            if self.p(0.3):
                probes.append({"t": "out", "e": ["path", "forloop", [["n", "index"]]], "wc": ["", ""]})
            return probes + body
        finally:
            self.scope, self.in_isolated, self.budget, self.partials = saved

    def program(self) -> dict[str, Any]:
        c = self.cfg
        templates: dict[str, list[dict[str, Any]]] = {}
        if c.partials and self.p(0.5):
            for name in c.partial_names[: self.i(1, len(c.partial_names))]:
                templates[name] = self.partial_body(name)
            self.partials = templates
        head: list[dict[str, Any]] = []
        if c.macros and self.p(0.3):
            for mname in ["mac", "m2"][: self.i(1, 2)]:
                params = [[pn, (self.prim("scalar", 0) if self.p(0.4) else None)] for pn in ["a", "b"][: self.i(0, 2)]]
                saved = (dict(self.scope), self.in_isolated, dict(self.partials))
                self.scope = dict(SCHEMA)
                for pn, _ in params:
                    self.scope[pn] = "any"
                self.scope.update({"args": "list", "kwargs": "any"})
                self.in_isolated = True
                self.partials = {}
                try:
                    body = self.block(1, min_stmts=1)
                finally:
                    self.scope, self.in_isolated, self.partials = saved
                head.append({"t": "macro", "name": mname, "params": params, "body": body,
                             "wc": self.wc(), "wc_end": self.wc()})
                self.macros[mname] = [(pn, d is not None) for pn, d in params]
        main = head + self.block(c.max_depth, min_stmts=1)
        return {"main": main, "templates": templates}


def program_strategy(cfg: Cfg) -> Any:
    @st.composite
    def _prog(draw: Any) -> dict[str, Any]:
        return Gen(draw, cfg).program()

    return _prog()
