"""AST (ours, JSON-able) -> Liquid source text.

Statements are dicts with key "t"; expressions are lists whose first item is the kind.
Every concrete-syntax freedom is decided by a `Layout` object: `Layout(0)` is the
canonical layout (single spaces, dot notation, single quotes, no escapes that are not
needed); any other seed drives a private PRNG whose seed is a Hypothesis draw, so the
printed text is a pure function of (AST, seed).

Whitespace-control markers are *semantic* and live in the AST (key "wc").
"""

from __future__ import annotations

import random
import re
from typing import Any

RE_PROPERTY = re.compile(r"[\u0080-￿a-zA-Z_][\u0080-￿a-zA-Z0-9_-]*")
KEYWORDS = frozenset(
    "true false and or in not contains nil null if else with required as for empty blank "
    "limit offset reversed cols".split()  # the last four: loop-argument words after an array literal
)

SHORT_ESC = {"\n": "\\n", "\t": "\\t", "\r": "\\r", "\x08": "\\b", "\x0c": "\\f"}


class Layout:
    def __init__(self, seed: int = 0, *, line_mode: bool = False) -> None:
        self.seed = seed
        self.rnd = random.Random(seed) if seed else None
        self.line_mode = line_mode  # inside {% liquid %}: no newlines in markup

    def sub(self, *, line_mode: bool) -> "Layout":
        lay = Layout.__new__(Layout)
        lay.seed = self.seed
        lay.rnd = self.rnd
        lay.line_mode = line_mode
        return lay

    def chance(self, p: float) -> bool:
        return self.rnd is not None and self.rnd.random() < p

    def pick(self, options: list[Any]) -> Any:
        if self.rnd is None:
            return options[0]
        return self.rnd.choice(options)

    def ws(self, minimum: int = 1) -> str:
        """Whitespace inside markup."""
        if self.rnd is None:
            return " " * minimum
        if self.line_mode:
            n = self.rnd.choice([minimum, 1, 1, 2])
            return "".join(self.rnd.choice(" \t") for _ in range(max(n, minimum)))
        r = self.rnd.random()
        if r < 0.6:
            return " " * max(minimum, 1) if minimum else self.rnd.choice(["", " "])
        if r < 0.8:
            return self.rnd.choice(["  ", "\t", " \t "])
        return self.rnd.choice(["\n", " \n  ", "\r\n", "\n\t"])

    def ows(self) -> str:
        """Optional whitespace (may be empty)."""
        if self.rnd is None:
            return ""
        return self.ws(0) if self.rnd.random() < 0.3 else ""


# --------------------------------------------------------------------------- literals


def quote_string(s: str, lay: Layout, *, quote: str | None = None, raw_nl: bool = True) -> str:
    """A Liquid string literal denoting exactly `s` (chars must be >= U+0008)."""
    q = quote or lay.pick(["'", '"'])
    out: list[str] = []
    i = 0
    n = len(s)
    while i < n:
        ch = s[i]
        o = ord(ch)
        if ch == "\\":
            out.append("\\\\")
        elif ch == q:
            out.append("\\" + q)
        elif ch == "$" and i + 1 < n and s[i + 1] == "{":
            out.append("\\$")
        elif o < 0x20 or o == 0x7F:
            if ch in SHORT_ESC and (not raw_nl or lay.line_mode or not lay.chance(0.5)):
                out.append(SHORT_ESC[ch])
            elif ch in "\n\t\r" and raw_nl and not lay.line_mode:
                out.append(ch)
            elif ch in SHORT_ESC:
                out.append(SHORT_ESC[ch])
            else:
                out.append(f"\\u{o:04x}")
        elif 0xD800 <= o <= 0xDFFF:
            out.append(f"\\u{o:04x}")  # lone surrogate: invalid; only for negative tests
        elif lay.chance(0.08):
            if o > 0xFFFF:
                v = o - 0x10000
                hi, lo = 0xD800 + (v >> 10), 0xDC00 + (v & 0x3FF)
                fmt = lay.pick(["\\u{:04x}\\u{:04x}", "\\u{:04X}\\u{:04X}"])
                out.append(fmt.format(hi, lo))
            else:
                out.append(lay.pick(["\\u{:04x}", "\\u{:04X}"]).format(o))
        elif ch == "/" and lay.chance(0.2):
            out.append("\\/")
        elif ch == "$" and lay.chance(0.2):
            out.append("\\$")
        else:
            out.append(ch)
        i += 1
    return q + "".join(out) + q


def is_ident(name: str) -> bool:
    return bool(RE_PROPERTY.fullmatch(name)) and name not in KEYWORDS


# --------------------------------------------------------------------------- expressions


def p_prim(e: list[Any], lay: Layout) -> str:
    k = e[0]
    if k == "nil":
        return lay.pick(["nil", "null"])
    if k in ("true", "false", "empty", "blank"):
        return k
    if k == "int":
        return str(e[1])
    if k == "float":
        return e[1]  # spelling
    if k == "numlit":  # verbatim numeric spelling
        return e[1]
    if k == "str":
        return quote_string(e[1], lay)
    if k == "range":
        return f"({p_range_end(e[1], lay, start=True)}..{p_range_end(e[2], lay, start=False)})"
    if k == "path":
        return p_path(e, lay)
    if k == "tstr":
        return p_tstr(e, lay)
    if k == "raw":  # verbatim text (used by mutation based generators)
        return e[1]
    raise ValueError(f"not a primitive: {e!r}")


def p_range_end(e: list[Any], lay: Layout, *, start: bool) -> str:
    s = p_prim(e, lay)
    if start and e[0] == "path" and not e[2] and is_ident(e[1]):
        return s  # `n..` lexes as a path because '.' follows immediately
    return s


def p_path(e: list[Any], lay: Layout, nested: bool = False) -> str:
    _, root, segs = e
    # inside brackets a keyword (true, for, ...) is an ordinary variable name
    brackets_root = not isinstance(root, str) or not (RE_PROPERTY.fullmatch(root) if nested else is_ident(root))
    if isinstance(root, int):  # `[0]`: the variable whose name is the integer 0
        buf = ["[" + lay.ows() + str(root) + lay.ows() + "]"]
    elif not isinstance(root, str):  # indirect root: the variable is named by another path
        buf = ["[" + lay.ows() + p_path(root, lay, nested=True) + lay.ows() + "]"]
    elif brackets_root:
        buf = ["[" + lay.ows() + quote_string(root, lay, raw_nl=False) + lay.ows() + "]"]
    else:
        buf = [root]
    for seg in segs:
        kind = seg[0]
        if kind == "n":
            name = seg[1]
            if RE_PROPERTY.fullmatch(name) and not lay.chance(0.25):
                buf.append("." + name)
            else:
                buf.append("[" + lay.ows() + quote_string(name, lay, raw_nl=False) + lay.ows() + "]")
        elif kind == "i":
            buf.append("[" + lay.ows() + str(seg[1]) + lay.ows() + "]")
        elif kind == "si":  # shorthand index `.0`
            buf.append("." + str(seg[1]))
        elif kind == "p":
            buf.append("[" + lay.ows() + p_path(seg[1], lay, nested=True) + "]")
        else:
            raise ValueError(seg)
    return "".join(buf)


def p_tstr(e: list[Any], lay: Layout) -> str:
    q = lay.pick(['"', "'"])
    buf: list[str] = []
    for part in e[1]:
        if isinstance(part, str):
            buf.append(quote_string(part, lay, quote=q)[1:-1])
        else:
            inner = lay.sub(line_mode=True)
            buf.append("${" + inner.ows() + p_fexpr(part, inner) + inner.ows() + "}")
    return q + "".join(buf) + q


def p_arg(a: list[Any], lay: Layout) -> str:
    k = a[0]
    if k == "pos":
        return p_prim(a[1], lay)
    if k == "kw":
        sep = lay.pick([":", "="])
        return f"{a[1]}{lay.ows()}{sep}{lay.ows()}{p_prim(a[2], lay)}"
    if k == "lambda":
        params = a[1]
        if len(params) == 1 and not lay.chance(0.3):
            head = params[0]
        else:
            head = "(" + lay.ows() + ("," + lay.ws(0)).join(params) + lay.ows() + ")"
        return f"{head}{lay.ws(1)}=>{lay.ws(1)}{p_cond(a[2], lay)}"
    if k == "kwlambda":
        sep = lay.pick([":", "="])
        return f"{a[1]}{sep} " + p_arg(["lambda", a[2], a[3]], lay)
    raise ValueError(a)


def p_filters(filters: list[dict[str, Any]], lay: Layout, first_delim: str = "|") -> str:
    buf: list[str] = []
    for i, f in enumerate(filters):
        delim = first_delim if i == 0 else "|"
        s = f"{lay.ws(1)}{delim}{lay.ws(1)}{f['name']}"
        if f.get("args"):
            sep = "," + lay.ws(1)
            s += ":" + lay.ws(1) + sep.join(p_arg(a, lay) for a in f["args"])
            if lay.chance(0.05):
                s += ","
        buf.append(s)
    return "".join(buf)


def p_fexpr(e: list[Any], lay: Layout) -> str:
    """FilteredExpression position: primitive | array | filtered | ternary."""
    k = e[0]
    if k == "filtered":
        return p_left(e[1], lay) + p_filters(e[2], lay)
    if k == "ternary":
        _, left, cond, alt, filters, tail = e
        s = p_fexpr(left, lay) + f"{lay.ws(1)}if{lay.ws(1)}" + p_cond(cond, lay)
        if alt is not None:
            s += f"{lay.ws(1)}else{lay.ws(1)}" + p_prim(alt, lay)
            if filters:
                s += p_filters(filters, lay)
        if tail:
            s += p_filters(tail, lay, first_delim="||")
        return s
    return p_left(e, lay)


def p_left(e: list[Any], lay: Layout) -> str:
    if e[0] == "array":
        if len(e[1]) == 1:
            return p_prim(e[1][0], lay) + ","  # a one-item array literal needs the trailing comma
        return ("," + lay.ws(1)).join(p_prim(i, lay) for i in e[1])
    return p_prim(e, lay)


PREC = {"or": 3, "and": 4, "cmp": 5, "member": 6, "not": 7}


def p_cond(c: list[Any], lay: Layout) -> str:
    k = c[0]
    if k in ("and", "or"):
        return f"{p_cond(c[1], lay)}{lay.ws(1)}{k}{lay.ws(1)}{p_cond(c[2], lay)}"
    if k == "not":
        return f"not{lay.ws(1)}{p_cond(c[1], lay)}"
    if k == "grp":
        return "(" + lay.ows() + p_cond(c[1], lay) + lay.ows() + ")"
    if k == "cmp":
        op = c[1]
        if op == "!=" and lay.chance(0.3):
            op = "<>"
        return f"{p_cond(c[2], lay)}{lay.ws(1)}{op}{lay.ws(1)}{p_cond(c[3], lay)}"
    return p_prim(c, lay)


# --------------------------------------------------------------------------- statements


def tag(name: str, body: str, wc: list[str] | tuple[str, str], lay: Layout) -> str:
    if lay.line_mode:
        return (name + (" " + body if body else "")).rstrip()
    l, r = wc[0], wc[1]
    inner = name + (lay.ws(1) + body if body else "")
    return "{%" + l + lay.ws(1) + inner + lay.ws(1) + r + "%}"


def _wc(s: dict[str, Any], key: str = "wc") -> list[str]:
    return s.get(key) or ["", ""]


def p_kwargs(args: list[list[Any]], lay: Layout) -> str:
    sep = "," + lay.ws(1)
    out = []
    for k, v in args:
        s = lay.pick([":", "="])
        out.append(f"{k}{s}{lay.ows()}{p_prim(v, lay)}")
    return sep.join(out)


def p_stmts(stmts: list[dict[str, Any]], lay: Layout) -> str:
    if lay.line_mode:
        return "".join(p_stmt(s, lay) + "\n" for s in stmts)
    return "".join(p_stmt(s, lay) for s in stmts)


def p_block(stmts: list[dict[str, Any]], lay: Layout) -> str:
    """A nested block: in line mode each statement is already newline-terminated."""
    return p_stmts(stmts, lay)


def p_stmt(s: dict[str, Any], lay: Layout) -> str:  # noqa: PLR0911, PLR0912, PLR0915
    t = s["t"]
    lm = lay.line_mode

    def nl(x: str) -> str:
        return x + "\n" if lm else x

    def blk(body: list[dict[str, Any]]) -> str:
        return p_block(body, lay)

    if t == "text":
        assert not lm
        return s["s"]
    if t == "rawsrc":  # verbatim source (used by mutation based generators)
        return s["s"]
    if t == "out":
        assert not lm
        l, r = _wc(s)
        body = p_fexpr(s["e"], lay)
        # `{{-1 }}` would read as a whitespace-control marker followed by 1: keep a space after `{{`
        lead = lay.ws(1) if body.startswith(("-", "+", "~")) else lay.ws(0 if l or lay.chance(0.2) else 1)
        return "{{" + l + lead + body + lay.ws(1) + r + "}}"
    if t == "raw":
        assert not lm
        w = s.get("wc4") or ["", "", "", ""]
        return (
            "{%" + w[0] + lay.ws(1) + "raw" + lay.ws(1) + w[1] + "%}" + s["s"]
            + "{%" + w[2] + lay.ws(1) + "endraw" + lay.ws(1) + w[3] + "%}"
        )
    if t == "comment":
        kind = s["kind"]
        l, r = _wc(s)
        if lm:
            if kind == "block":
                return "comment\nnote " + s["s"].replace("\n", " ").replace("comment", "c") + "\nendcomment"
            return "# " + s["s"].replace("\n", " ")
        if kind == "hash":
            h = "#" * s.get("hashes", 1)
            return "{" + h + l + s["s"] + r + h + "}"
        if kind == "inline":
            return "{%" + l + lay.ows() + "#" + s["s"].replace("\n", "\n#") + r + "%}"
        w2 = s.get("wc2") or ["", ""]
        return (
            "{%" + l + lay.ws(1) + "comment" + lay.ws(1) + w2[0] + "%}" + s["s"]
            + "{%" + w2[1] + lay.ws(1) + "endcomment" + lay.ws(1) + r + "%}"
        )
    if t == "assign":
        return tag("assign", f"{s['name']}{lay.ws(1)}={lay.ws(1)}{p_fexpr(s['e'], lay)}", _wc(s), lay)
    if t == "echo":
        return tag("echo", p_fexpr(s["e"], lay), _wc(s), lay)
    if t == "capture":
        return "".join([
            nl(tag("capture", s["name"], _wc(s), lay)),
            blk(s["body"]),
            tag("endcapture", "", _wc(s, "wc_end"), lay),
        ])
    if t in ("if", "unless"):
        parts = [tag(t, p_cond(s["cond"], lay), _wc(s), lay)]
        if lm:
            parts[0] += "\n"
        parts.append(blk(s["body"]))
        for i, (c, b) in enumerate(s.get("elsifs") or []):
            w = (s.get("wc_elsifs") or [])[i] if s.get("wc_elsifs") else ["", ""]
            parts.append(nl(tag("elsif", p_cond(c, lay), w, lay)))
            parts.append(blk(b))
        if s.get("else") is not None:
            parts.append(nl(tag("else", "", _wc(s, "wc_else"), lay)))
            parts.append(blk(s["else"]))
        parts.append(tag("end" + t, "", _wc(s, "wc_end"), lay))
        return "".join(parts)
    if t == "case":
        parts = [nl(tag("case", p_prim(s["e"], lay), _wc(s), lay))]
        if not lm:
            parts.append(s.get("lead_ws", ""))
        for i, (vals, b) in enumerate(s["whens"]):
            w = (s.get("wc_whens") or [])[i] if s.get("wc_whens") else ["", ""]
            seps = [lay.pick([",", " or "]) for _ in vals]
            body = ""
            for j, v in enumerate(vals):
                if j:
                    body += seps[j] + (lay.ws(1) if seps[j] == "," else "")
                body += p_prim(v, lay)
            parts.append(nl(tag("when", body, w, lay)))
            parts.append(blk(b))
        if s.get("else") is not None:
            parts.append(nl(tag("else", "", _wc(s, "wc_else"), lay)))
            parts.append(blk(s["else"]))
        parts.append(tag("endcase", "", _wc(s, "wc_end"), lay))
        return "".join(parts)
    if t in ("for", "tablerow"):
        body = f"{s['var']}{lay.ws(1)}in{lay.ws(1)}{p_left(s['iter'], lay)}"
        opts = []
        for key in ("limit", "offset", "cols"):
            if s.get(key) is not None:
                v = s[key]
                if v == "continue":
                    sv = "continue"
                elif key == "offset" and v[0] == "path" and v[1] == "continue" and not v[2]:
                    # the variable named `continue`, not the keyword
                    sv = "[" + quote_string("continue", lay, raw_nl=False) + "]"
                else:
                    sv = p_prim(v, lay)
                opts.append(f"{key}{lay.pick([':', '='])}{lay.ows()}{sv}")
        if s.get("reversed"):
            opts.append("reversed")
        if lay.rnd is not None:
            lay.rnd.shuffle(opts)
        for o in opts:
            body += lay.pick([" ", " ", ", "]) + o
        parts = [nl(tag(t, body, _wc(s), lay)), blk(s["body"])]
        if s.get("else") is not None:
            parts.append(nl(tag("else", "", _wc(s, "wc_else"), lay)))
            parts.append(blk(s["else"]))
        parts.append(tag("end" + t, "", _wc(s, "wc_end"), lay))
        return "".join(parts)
    if t in ("break", "continue"):
        return tag(t, "", _wc(s), lay)
    if t in ("increment", "decrement"):
        return tag(t, p_name(s["name"], lay), _wc(s), lay)
    if t == "cycle":
        body = ""
        if s.get("group") is not None:
            body = p_name(s["group"], lay) + ":" + lay.ws(1)
        body += ("," + lay.ws(1)).join(p_prim(i, lay) for i in s["items"])
        return tag("cycle", body, _wc(s), lay)
    if t == "liquid":
        assert not lm
        inner = lay.sub(line_mode=True)
        l, r = _wc(s)
        lines = p_stmts(s["body"], inner)
        indent = lay.pick(["", "  ", "\t"])
        lines = "".join(indent + ln + "\n" for ln in lines.splitlines())
        return "{%" + l + " liquid\n" + lines + r + "%}"
    if t == "with":
        return "".join([
            nl(tag("with", p_kwargs(s["args"], lay), _wc(s), lay)),
            blk(s["body"]),
            tag("endwith", "", _wc(s, "wc_end"), lay),
        ])
    if t == "macro":
        ps = []
        for name, default in s["params"]:
            ps.append(name if default is None else f"{name}{lay.pick([':', '='])}{lay.ows()}{p_prim(default, lay)}")
        body = p_name(s["name"], lay) + ((lay.pick([" ", ", "]) + ("," + lay.ws(1)).join(ps)) if ps else "")
        return "".join([
            nl(tag("macro", body, _wc(s), lay)),
            blk(s["body"]),
            tag("endmacro", "", _wc(s, "wc_end"), lay),
        ])
    if t == "call":
        items = [p_prim(a, lay) for a in s["args"]] + [
            f"{k}{lay.pick([':', '='])}{lay.ows()}{p_prim(v, lay)}" for k, v in s["kwargs"]
        ]
        body = p_name(s["name"], lay) + ((lay.pick([" ", ", "]) + ("," + lay.ws(1)).join(items)) if items else "")
        return tag("call", body, _wc(s), lay)
    if t in ("include", "render"):
        body = p_prim(s["name"], lay)
        if s.get("var") is not None:
            body += lay.ws(1) + ("for" if s.get("loop") else "with") + lay.ws(1) + p_prim(s["var"], lay)
            if s.get("alias") is not None:
                body += lay.ws(1) + "as" + lay.ws(1) + p_name(s["alias"], lay)
        if s.get("args"):
            body += lay.pick([", ", " ", ","]) + p_kwargs(s["args"], lay)
        return tag(t, body, _wc(s), lay)
    if t == "extends":
        return tag("extends", p_prim(s["name"], lay), _wc(s), lay)
    if t == "block":
        head = p_name(s["name"], lay) + (lay.ws(1) + "required" if s.get("required") else "")
        end_name = p_name(s["name"], lay) if s.get("end_name", lay.chance(0.5)) else ""
        return "".join([
            nl(tag("block", head, _wc(s), lay)),
            blk(s["body"]),
            tag("endblock", end_name, _wc(s, "wc_end"), lay),
        ])
    if t == "translate":
        assert not lm
        body = p_kwargs(s.get("args") or [], lay)
        parts = [tag("translate", body, _wc(s), lay), s["text"]]
        if s.get("plural") is not None:
            parts.append(tag("plural", "", _wc(s, "wc_plural"), lay))
            parts.append(s["plural"])
        parts.append(tag("endtranslate", "", _wc(s, "wc_end"), lay))
        return "".join(parts)
    raise ValueError(f"unknown statement {t!r}")


def p_name(name: str, lay: Layout) -> str:
    """A position parsed by parse_string_or_identifier."""
    if is_ident(name) and not lay.chance(0.2):
        return name
    return quote_string(name, lay, raw_nl=False)


def to_source(stmts: list[dict[str, Any]], layout_seed: int = 0) -> str:
    return p_stmts(stmts, Layout(layout_seed))
