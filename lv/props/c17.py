"""C17 - tokens tile the source; every reported position lies inside it."""

from __future__ import annotations

import json
import random

from typing import Any

from hypothesis import strategies as st

from lv.core.runner import Prop
from lv.core.runner import Result
from lv.core.runner import exc_bucket
from lv.gen.grammar import Cfg
from lv.gen.grammar import program_strategy
from lv.gen.printer import to_source
from lv.harness.envs import corpus
from lv.harness.envs import make_env
from lv.props.c02 import PARTIALS
from lv.props.c02 import text_case

from liquid2 import RenderContext
from liquid2 import tokenize
from liquid2.exceptions import LiquidError
from liquid2.messages import line_number
from liquid2.token import BlockCommentToken
from liquid2.token import CommentToken
from liquid2.token import ContentToken
from liquid2.token import InlineCommentToken
from liquid2.token import LinesToken
from liquid2.token import OutputToken
from liquid2.token import PathToken
from liquid2.token import RangeToken
from liquid2.token import RawToken
from liquid2.token import TagToken
from liquid2.token import TemplateStringToken
from liquid2.token import Token
from liquid2.token import TokenType

PROG_CFG = Cfg(wc_rate=0.25, shopify=True, tablerow=True, date=True, confusion=0.1, budget=12)

STRING_TYPES = (TokenType.SINGLE_QUOTE_STRING, TokenType.DOUBLE_QUOTE_STRING)


def line_of(source: str, index: int) -> tuple[int, int, int]:
    """(line number, column, length of that line) with str.splitlines() semantics,
    computed independently of the library."""
    lines = source.splitlines(keepends=True)
    pos = 0
    for i, ln in enumerate(lines):
        if index < pos + len(ln):
            return i + 1, index - pos, len(ln)
        pos += len(ln)
    if not lines:
        return 1, 0, 0
    return len(lines), index - (pos - len(lines[-1])), len(lines[-1])


def path_shape(tok: PathToken) -> list[Any]:
    return [path_shape(s) if isinstance(s, PathToken) else s for s in tok.path]


def _shorthand(x: Any, rnd: Any) -> None:
    """Rewrite some non-negative index segments `[0]` as `.0` (Environment.shorthand_indexes)."""
    if isinstance(x, dict):
        for v in x.values():
            _shorthand(v, rnd)
    elif isinstance(x, list):
        if len(x) == 3 and x[0] == "path" and isinstance(x[2], list):
            for seg in x[2]:
                if isinstance(seg, list) and len(seg) == 2 and seg[0] == "i" and isinstance(seg[1], int) \
                        and seg[1] >= 0 and rnd.random() < 0.6:
                    seg[0] = "si"
        for v in x:
            _shorthand(v, rnd)


SHORTHAND_SEEDS = [
    "{{ a.0 }}", "{{ a.b.0 }}|{{ a.0.b }}", "{{ a[b.0] }}{{ a.0[1].2 }}", "{% for x in a.0 %}{{ x.1 }}{% endfor %}",
    "{% if a.0 == b.1 %}{{ a.0 | append: b.1 }}{% endif %}", "{{ a.0, b.1 | join: a.2 }}", "{{ (a.0..b.1) }}",
    "{% assign v = a.b.0 %}{% echo v.0 %}{% liquid echo a.0\nassign w = a.1.2 %}",
]


# malformed range expressions: the lexer reports these through raise_for_token()
RANGE_ERROR_SEEDS = [
    "{{ (1..3.5) }}", "abc\n{{ (1..3.5) }}", "{% if (1..2.5) %}{% endif %}", "{{ (1.5..3) }}", "{{ ('a'..3) }}",
    "{% for i in (1..'b') %}{% endfor %}", "{{ (1...3) }}", "{{ (..3) }}", "{{ (1..) }}", "{{ (a b..3) }}",
    "{{ (1..3 4) }}", "x{{ (1..true) }}", "{{ (nil..3) }}", "{% liquid\n echo (1..2.0)\n%}",
]


# free text inside the comment block of a liquid tag
LIQUID_COMMENT_SEEDS = [
    "{% liquid\n  comment\n    TODO: fix this\n    - item\n    1st {{ foo }}\n  endcomment\n  echo 'x'\n%}",
    "{% liquid\ncomment\nHello World\n\n  # x\ncomment\nNested Text\nendcomment\nendcomment\necho 'y' %}tail",
    "{% liquid\n comment\n Hello %}", "{% liquid\n comment\n Hello\n",
]


@st.composite
def prog_source(draw: Any) -> dict[str, Any]:
    prog = draw(program_strategy(PROG_CFG))
    lay = draw(st.integers(0, 50))
    shorthand = draw(st.integers(0, 3)) == 0
    if shorthand:
        prog = json.loads(json.dumps(prog))
        _shorthand(prog, random.Random(lay))
    src = to_source(prog["main"], lay)
    r = draw(st.integers(0, 9))
    if r < 3 and src:
        pos = draw(st.integers(0, len(src) - 1))
        op = draw(st.integers(0, 3))
        if op == 0:
            src = src[:pos]
        elif op == 1:
            src = src[:pos] + src[pos + 1:]
        elif op == 2:
            src = src[:pos] + draw(st.sampled_from(["{#", "#}", "{% # c %}", "{# c #}", "'", '"', "{{", "%}", "\n", " ", "(", "]"])) + src[pos:]
        else:
            src = src[pos:]
    return {"kind": "text", "src": src, "templates": {k: to_source(v, lay) for k, v in prog["templates"].items()},
            "data": {}, "origin": "program", "shorthand": shorthand}


class C17(Prop):
    id = "C17"
    title = "Tokens tile the source and every reported position lies inside it"
    technique = "property-based testing: tiling/round-trip oracle over generated and mutated sources (Hypothesis)"
    rule = (
        "sources are grammar programs printed with random layout (whitespace control, all comment kinds, raw, "
        "liquid tags, unicode), their truncation/edit mutants, CTS corpus mutants and Liquid-biased text; a case is "
        "non-trivial when tokenize() yields >= 3 markup tokens of >= 2 kinds, or an error is located after at "
        "least one complete markup; distinct by SHA-1 of the source"
    )
    assumptions = [
        "an empty error span exactly at len(source) counts as inside the source (end-of-input errors)",
        "line/column semantics are those of str.splitlines(), the definition the library documents by use",
        "template-string tokens are only required to nest inside their markup (their span is opening-quote exclusive by construction)",
    ]
    batch = 400

    def n_random(self, tier: str) -> int:
        return 20000 if tier == "quick" else 500000

    def strategy(self, tier: str, disabled: frozenset[str]):
        return st.one_of(prog_source(), prog_source(), text_case())

    def enumerate(self, tier: str, disabled: frozenset[str]):
        for t in corpus():
            yield {"kind": "text", "src": t["template"], "data": {}, "templates": t.get("templates") or {},
                   "origin": "corpus"}
        for src in LIQUID_COMMENT_SEEDS:
            yield {"kind": "text", "src": src, "data": {}, "templates": {}, "origin": "liquid-comment"}
        for src in RANGE_ERROR_SEEDS:
            yield {"kind": "text", "src": src, "data": {}, "templates": {}, "origin": "range-error"}
        for src in SHORTHAND_SEEDS:
            yield {"kind": "text", "src": src, "data": {}, "templates": {}, "origin": "shorthand", "shorthand": True}

    def budget_s(self, tier: str) -> float:
        return 240 if tier == "quick" else 3000

    def post_campaign(self, tier: str, seed: int, tolerate: list[str]) -> dict[str, Any]:
        """Thorough tier: coverage-guided campaign (atheris / libFuzzer) with this module's
        check() as the oracle inside the target; empty and CTS-seeded corpora."""
        if tier != "thorough":
            return {}
        from lv.core import fuzz

        seeds = [t["template"] for t in corpus()][::7]
        info = fuzz.run_campaign(self.id, seed, runs=int(__import__("os").environ.get("LV_FUZZ_RUNS", "2000000")),
                                 tolerate=tolerate, procs=8, seed_corpus=seeds, max_time_s=900)
        return {"cases": [c["case"] for c in info.get("cases", [])],
                "evidence": {"atheris_available": info.get("available", False), "atheris_runs": info.get("runs", 0),
                             "atheris_corpus_entries": info.get("corpus_entries", 0),
                             "atheris_violating_inputs": len(info.get("cases", []))}}

    # ------------------------------------------------------------------

    def check(self, case: Any, disabled: frozenset[str] = frozenset()) -> Result:  # noqa: PLR0912, PLR0915
        res = Result()
        src: str = case["src"]
        n = len(src)
        templates = dict(PARTIALS)
        templates.update(case.get("templates") or {})
        self._shorthand_case = bool(case.get("shorthand"))
        env = make_env(templates, shopify=True, shorthand=self._shorthand_case)
        markup_seen = 0

        # ---- 1. tokenize
        try:
            tokens = tokenize(env, src)
        except LiquidError as err:
            self._check_error(err, src, res)
            res.labels.append("lex-error")
            tok = err.token
            res.nontrivial = bool(tok is not None and tok.start > 0 and any(m in src[: tok.start] for m in ("}}", "%}", "#}")))
            return res
        except RecursionError:
            return res
        except Exception as err:  # noqa: BLE001 - C02's business, still a position-less crash
            res.labels.append("crash:" + exc_bucket(err))
            return res

        res.labels.append("lexed")
        pos = 0
        kinds = set()
        for i, tok in enumerate(tokens):
            kinds.add(type(tok).__name__)
            where = f"token {i} {type(tok).__name__} [{tok.start}:{tok.stop}]"
            if tok.start != pos:
                res.fail("tiling", f"tiling-gap:{type(tok).__name__}:after:{type(tokens[i - 1]).__name__ if i else 'BOF'}",
                         f"{where} starts at {tok.start}, expected {pos}; src={src!r}")
                break
            if not tok.start < tok.stop <= n:
                res.fail("tiling", f"tiling-empty-or-oob:{type(tok).__name__}", f"{where}; len={n}; src={src!r}")
                break
            pos = tok.stop
            text = src[tok.start:tok.stop]
            self._check_markup(tok, text, src, res)
            if res.failures:
                break
            markup_seen += 1
        else:
            if pos != n:
                res.fail("tiling", "tiling-short", f"tokens end at {pos}, len(source)={n}; src={src!r}")
        res.nontrivial = len(tokens) >= 3 and len(kinds) >= 2
        if res.failures:
            return res

        # ---- 2. parse: node / expression token positions
        try:
            tmpl = env.from_string(src)
        except LiquidError as err:
            self._check_error(err, src, res)
            res.labels.append("parse-error")
            return res
        except RecursionError:
            return res
        except Exception as err:  # noqa: BLE001
            res.labels.append("crash:" + exc_bucket(err))
            return res
        res.labels.append("parsed")
        try:
            ctx = RenderContext(tmpl)
            stack = list(tmpl.nodes)
            count = 0
            while stack and count < 2000:
                node = stack.pop()
                count += 1
                self._check_pos(node.token, src, f"node:{type(node).__name__}", res)
                exprs = list(node.expressions())
                while exprs:
                    e = exprs.pop()
                    tok = getattr(e, "token", None)
                    if tok is not None:
                        self._check_pos(tok, src, f"expr:{type(e).__name__}", res)
                    exprs.extend(e.children())
                stack.extend(node.children(ctx, include_partials=False))
        except LiquidError:
            pass

        # ---- 3. render errors carry positions too
        try:
            tmpl.render(**(case.get("data") or {}))
        except LiquidError as err:
            if err.token is not None and err.token.source == src:
                self._check_error(err, src, res)
                res.labels.append("render-error")
        except RecursionError:
            pass
        except Exception as err:  # noqa: BLE001
            res.labels.append("crash:" + exc_bucket(err))
        return res

    # ------------------------------------------------------------------

    def _check_pos(self, tok: Any, src: str, what: str, res: Result) -> None:
        if tok is None:
            return
        if tok.source != src:
            return  # token of a partial or the EOI sentinel
        start, stop = tok.start, tok.stop
        if start == -1 and tok.type_ == TokenType.EOI:
            return
        if not (0 <= start <= stop <= len(src)):
            res.fail("position", f"position-oob:{what}", f"{what} token [{start}:{stop}] outside source of length {len(src)}; src={src!r}")

    def _check_markup(self, tok: Any, text: str, src: str, res: Result) -> None:  # noqa: PLR0912
        name = type(tok).__name__
        if isinstance(tok, ContentToken):
            if tok.text != text:
                res.fail("span", "span-text:ContentToken", f"text={tok.text!r} slice={text!r}")
        elif isinstance(tok, RawToken):
            if not (text.startswith("{%") and text.endswith("%}") and tok.text in text and "raw" in text):
                res.fail("span", "span-text:RawToken", f"text={tok.text!r} slice={text!r}")
        elif isinstance(tok, BlockCommentToken):
            if not (text.startswith("{%") and text.endswith("%}") and tok.text in text and "endcomment" in text):
                res.fail("span", "span-text:BlockCommentToken", f"text={tok.text!r} slice={text!r}")
        elif isinstance(tok, InlineCommentToken):
            if not (text.startswith("{%") and text.endswith("%}") and tok.text in text and "#" in text):
                res.fail("span", "span-text:InlineCommentToken", f"text={tok.text!r} slice={text!r}")
        elif isinstance(tok, CommentToken):
            h = tok.hashes
            if not (text.startswith("{" + h) and text.endswith(h + "}") and tok.text in text[len(h) + 1: len(text) - len(h) - 1 + 0] + ""):
                res.fail("span", "span-text:CommentToken", f"text={tok.text!r} hashes={h!r} slice={text!r}")
        elif isinstance(tok, OutputToken):
            if not (text.startswith("{{") and text.endswith("}}")):
                res.fail("span", "span-text:OutputToken", f"slice={text!r}")
            self._check_expr(tok.expression, tok.start + 2, tok.stop - 2, src, res, name)
        elif isinstance(tok, TagToken):
            if not (text.startswith("{%") and text.endswith("%}") and tok.name in text):
                res.fail("span", "span-text:TagToken", f"name={tok.name!r} slice={text!r}")
            self._check_expr(tok.expression, tok.start + 2, tok.stop - 2, src, res, name)
        elif isinstance(tok, LinesToken):
            if not (text.startswith("{%") and text.endswith("%}") and "liquid" in text):
                res.fail("span", "span-text:LinesToken", f"slice={text!r}")
            p = tok.start + 2
            # the statements lie between the opening `{%` and the closing `%}` (with its marker), like the
            # expression of any other tag
            inner_stop = tok.stop - 2 - (1 if text[-3:-2] in "-+~" and len(text) > 4 else 0)
            for j, st_ in enumerate(tok.statements):
                if not (p <= st_.start < st_.stop <= inner_stop):
                    res.fail("nesting", f"line-statement-span:{type(st_).__name__}",
                             f"statement {j} [{st_.start}:{st_.stop}] not inside/after {p}..{inner_stop}; src={src!r}")
                    return
                if isinstance(st_, TagToken):
                    seg = src[st_.start:st_.stop]
                    if not seg.startswith(st_.name):
                        res.fail("span", "line-statement-text", f"name={st_.name!r} slice={seg!r}")
                        return
                    self._check_expr(st_.expression, st_.start, st_.stop, src, res, "line:" + st_.name)
                p = st_.stop

    def _check_expr(self, expr: list[Any], lo: int, hi: int, src: str, res: Result, where: str) -> None:  # noqa: PLR0912
        p = lo
        for tok in expr:
            tname = type(tok).__name__
            start, stop = tok.start, tok.stop
            if isinstance(tok, Token) and tok.type_ in STRING_TYPES and tok.value == "":
                ok = p <= start <= stop <= hi
            else:
                ok = p <= start < stop <= hi
            if not ok:
                res.fail("nesting", f"expr-span:{tname}:{tok.type_.name}",
                         f"{where}: {tname} [{start}:{stop}] not ordered/nested in {p}..{hi}; src={src!r}")
                return
            seg = src[start:stop]
            if isinstance(tok, Token):
                if seg != tok.value:
                    res.fail("span", f"expr-text:Token:{tok.type_.name}", f"value={tok.value!r} slice={seg!r}; src={src!r}")
                    return
            elif isinstance(tok, RangeToken):
                if not (seg.startswith("(") and seg.endswith(")") and ".." in seg):
                    res.fail("span", "expr-text:RangeToken", f"slice={seg!r}; src={src!r}")
                    return
                self._check_expr([tok.range_start, tok.range_stop], start + 1, stop - 1, src, res, where + ":range")
            elif isinstance(tok, PathToken):
                self._check_path(tok, seg, src, res)
            elif isinstance(tok, TemplateStringToken):
                q = lo
                for part in tok.template:
                    if not (q <= part.start <= part.stop <= stop):
                        res.fail("nesting", f"tstring-part-span:{type(part).__name__}",
                                 f"part [{part.start}:{part.stop}] not in {q}..{stop}; src={src!r}")
                        return
                    if isinstance(part, OutputToken):
                        self._check_expr(part.expression, part.start, part.stop, src, res, where + ":tstr")
                    q = part.stop
            if res.failures:
                return
            p = stop

    def _check_path(self, tok: PathToken, seg: str, src: str, res: Result) -> None:
        env = make_env({}, shopify=True, shorthand=self._shorthand_case)
        try:
            toks = tokenize(env, "{{ " + seg + " }}")
            inner = toks[0].expression if toks and isinstance(toks[0], OutputToken) else []
        except LiquidError:
            inner = []
        want = path_shape(tok)
        got: Any = None
        if len(inner) == 1 and isinstance(inner[0], PathToken):
            got = path_shape(inner[0])
        elif len(inner) == 1 and isinstance(inner[0], Token) and inner[0].type_ == TokenType.WORD:
            got = [inner[0].value]
        if got != want:
            # inside a range expression the lexer reads keywords (nil, true, ...) as variable names
            try:
                toks = tokenize(env, "{{ (" + seg + "..1) }}")
                inner = toks[0].expression if toks and isinstance(toks[0], OutputToken) else []
                rs = getattr(inner[0], "range_start", None) if len(inner) == 1 else None
                if isinstance(rs, PathToken):
                    got = path_shape(rs)
            except LiquidError:
                pass
        if got != want:
            res.fail("span", "expr-text:PathToken", f"path={want!r} but slice {seg!r} lexes to {got!r}; src={src!r}")

    def _check_error(self, err: LiquidError, src: str, res: Result) -> None:
        tok = err.token
        if tok is None or tok.source != src:
            return
        if tok.start == -1:
            return
        kind = type(err).__name__
        if not (0 <= tok.start <= len(src)):
            res.fail("error-position", f"error-oob:{kind}", f"token.start={tok.start} len={len(src)}; src={src!r}")
            return
        stop = getattr(tok, "stop", None)
        if isinstance(stop, int) and not (tok.start <= stop <= len(src)):
            res.fail("error-position", f"error-stop-oob:{type(tok).__name__}",
                     f"token span [{tok.start}:{stop}] does not lie inside the source (len={len(src)}); src={src!r}")
            return
        value = getattr(tok, "value", None)
        if type(tok).__name__ == "ErrorToken" and isinstance(stop, int) and isinstance(value, str) and value \
                and src[tok.start:stop] != value:
            res.fail("error-position", "error-span-not-its-text",
                     f"error token [{tok.start}:{stop}] covers {src[tok.start:stop]!r} but carries {value!r}; src={src!r}")
            return
        try:
            ctx = err.context()
            err.detailed_message()
        except Exception as exc:  # noqa: BLE001
            res.fail("error-position", f"error-context-raises:{exc_bucket(exc)}", f"{type(exc).__name__}: {exc}; src={src!r}")
            return
        if ctx is None:
            return
        line, col, _prev, cur, _next = ctx
        want_line, want_col, line_len = line_of(src, tok.start)
        nlines = max(len(src.splitlines()), 1)
        if not (1 <= line <= nlines):
            res.fail("error-position", f"error-line-range:{kind}", f"line {line} not in 1..{nlines}; src={src!r}")
        elif line != want_line or col != want_col:
            res.fail("error-position", f"error-line-col:{kind}",
                     f"reported {line}:{col}, token.start={tok.start} is at {want_line}:{want_col}; src={src!r}")
        elif not (0 <= col <= max(line_len, 0) + 1):
            res.fail("error-position", f"error-col-range:{kind}", f"col {col} line length {line_len}; src={src!r}")
        if tok.start < len(src):
            try:
                ln = line_number(tok)
                if ln != want_line:
                    res.fail("error-position", "messages-line-number", f"line_number={ln} want {want_line}; src={src!r}")
            except Exception as exc:  # noqa: BLE001
                res.fail("error-position", f"messages-line-number-raises:{type(exc).__name__}", f"{exc}; src={src!r}")

    def sample(self, case: Any) -> Any:
        return {"src": case["src"][:300], "origin": case.get("origin", "text")}


PROP = C17()
