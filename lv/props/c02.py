"""C02 - parsing and rendering are total over the LiquidError model.

Three generated input families (DESIGN §3 C02): Liquid-biased text / token soup,
mutants and prefixes of the CTS corpus, grammar programs on hostile data; plus
single-filter probes with arguments of every arity drawn from a hostile pool.
Oracle: only LiquidError subclasses escape from_string/render/render_async, and every
raised error can be turned into its message and location without raising.
"""

from __future__ import annotations

import asyncio
import atexit
import math
import os
import shutil
import tempfile
from typing import Any

from hypothesis import strategies as st

from lv.core.runner import Prop
from lv.core.runner import Result
from lv.core.runner import exc_bucket
from lv.gen.grammar import FILTERS
from lv.gen.grammar import SHOPIFY_FILTERS
from lv.gen.grammar import Cfg
from lv.gen.grammar import data_strategy
from lv.gen.grammar import program_strategy
from lv.gen.printer import Layout
from lv.gen.printer import quote_string
from lv.gen.printer import to_source
from lv.harness.envs import corpus
from lv.harness.envs import make_env
from lv.harness.envs import run_coro

from liquid2 import CachingFileSystemLoader
from liquid2 import ChoiceLoader
from liquid2 import DictLoader
from liquid2 import FileSystemLoader
from liquid2 import PackageLoader
from liquid2.exceptions import LiquidError

TOKENS = [
    "{{", "}}", "{%", "%}", "{#", "#}", "{%-", "-%}", "{{-", "-}}", "~", "+", "-", "'", '"', "\\", "${", "}",
    "|", "||", ":", ",", ".", "..", "[", "]", "(", ")", "=>", "==", "!=", "<>", "<", ">", "<=", ">=", "=", "!", "?",
    " ", "\n", "\t", "\r\n", "1", "0", "-1", "1.5", "1e3", "1e400", "1e-2", "1.", "9007199254740993", "٣", "²",
    "a", "x", "items", "forloop", "true", "false", "nil", "null", "empty", "blank", "and", "or", "not", "in",
    "contains", "if", "else", "with", "for", "as", "required", "limit", "offset", "continue", "reversed", "cols",
    "assign", "capture", "endcapture", "endif", "elsif", "unless", "endunless", "case", "when", "endcase",
    "endfor", "break", "increment", "decrement", "cycle", "echo", "liquid", "raw", "endraw", "comment",
    "endcomment", "include", "render", "extends", "block", "endblock", "macro", "endmacro", "call",
    "endwith", "translate", "plural", "endtranslate", "tablerow", "endtablerow", "#", "\\u0041", "\\ud83d",
    "\\n", "%", "é", "日", "\x00", "\x07", "\U0001f600",
] + list(FILTERS) + list(SHOPIFY_FILTERS) + ["t", "gettext", "ngettext", "pgettext", "npgettext", "date", "safe",
                                               "currency", "datetime", "decimal", "unit", "money"]

ALPHABET = "{}%#-~+'\"\\$|:,.[]()=!<>? \n\t\r0123456789eE_abcxyzé日٣²\x00\x07"

NAN = float("nan")
INF = float("inf")

JUNK: list[Any] = [
    NAN, INF, -INF, -0.0, 1e308, 5e-324, 10**400, -(10**30), 2**63, -1, 0, 1, 3, -7, 1.5,
    "inf", "-inf", "nan", "1e400", "1e309", "²", "٣", "50%", "%(x)s", "%s", "%", "", " ", "-1", "0x10", "1_000", "1.5",
    "9" * 50, "9" * 4400, "abc", "a,b", "<b>&amp;</b>", "&#x3c;", "now", "today", "2001-02-30", "1152098955",
    "99999999999999", "-99999999999999", "!!!!", "AA==", "_w", "%zz", "\ud800",
    [], {}, [[]], [None], [1, "a", None, 2.5], [{"a": 1}, {"a": "x"}, {}], {"a": {"b": {"c": [1, 2, 3]}}},
    None, True, False, [NAN, 1], ["abc", "10"], [[1, [2, [3, [4, [5, [6, [7]]]]]]]],
    99999999999999, -99999999999999, 253402300800, -62135596801,
]


def deep(n: int) -> Any:
    v: Any = 1
    for _ in range(n):
        v = [v]
    return v


JUNK.append(deep(50))
JUNK.append({"__pow10__": 5000})  # decoded to 10**5000 in check(): beyond the int <-> str conversion limit
JUNK.append({"__pow10__": -4400})
JUNK.append("1" + "0" * 17)  # a digit string that is a far too large timestamp
JUNK.append("-" + "9" * 25)
JUNK.append(2 ** 63 - 1)
JUNK.append({"k": [1, 2], "first": [], "size": -1})
JUNK.append({"first": 1, "size": "x", "last": None})

# decimal.Decimal values (callers pass them for money): decoded in check()
for _d in ("Infinity", "-Infinity", "NaN", "sNaN", "1e28", "1E+999999999", "3", "2.50", "-0"):
    JUNK.append({"__decimal__": _d})

junk = st.sampled_from(JUNK)


@st.composite
def hostile_data(draw: Any) -> dict[str, Any]:
    data = draw(data_strategy())
    for key in list(data):
        if draw(st.integers(0, 9)) < 5:
            data[key] = draw(junk)
        elif isinstance(data[key], list) and data[key] and draw(st.booleans()):
            data[key] = list(data[key])
            data[key][draw(st.integers(0, len(data[key]) - 1))] = draw(junk)
    return data


EXTRA_SEEDS = [
    "{% translate %}Hello, {{ you }}!{% endtranslate %}",
    "{% translate count: n, you: 'W' %}one {{ you }}{% plural %}{{ count }} {{ you }}s{% endtranslate %}",
    "{% translate context: 'greeting' %}Hi{% endtranslate %}{{ 'x' | t: 'ctx', plural: 'xs', count: n }}",
    "{{ 'Hello %(you)s' | gettext: you: x }}{{ 'a' | ngettext: 'b', n }}{{ 'a' | pgettext: 'c' }}{{ 'a' | npgettext: 'c', 'b', n }}",
    "{% macro m a, b: 2 %}{{ a }}{{ b }}{{ args }}{{ kwargs }}{% endmacro %}{% call m 1, 2, 3, x: 4 %}",
    "{% with a: 1, b: x %}{{ a }}{{ b }}{% endwith %}",
    "{% extends 'base' %}{% block a %}{{ block.super }}X{% endblock a %}",
    "{% block a required %}{% endblock %}{% block b %}{% block c %}{% endblock %}{% endblock b %}",
    "{% tablerow i in x cols: 2 limit: 3 offset: 1 %}{{ tablerowloop.col }}{{ i }}{% endtablerow %}",
    "{{ x | map: i => i.a | where: (i, j) => j < 2 | sort: i => i | sum }}",
    "{{ a if b else c | upcase || append: 'x' | default: nil, allow_false: true }}",
    "{{ \"a${b | upcase}c${ \"n${d}\" }\" }}{{ 'it\\'s \\u00e9 \\${x}' }}",
    "{% liquid\n  assign a = 1, 2, 3\n  for i in a reversed\n    echo i | times: 2\n  endfor\n  # c\n  comment\n  x\n  endcomment\n%}",
    "{% for i in (1..n) limit: 2 offset: continue %}{{ forloop.parentloop.index }}{% break %}{% else %}e{% endfor %}",
    "{% case x %}{% when 1, 2 or 3 %}a{% when 'b' %}b{% else %}c{% endcase %}{% cycle 'g': 1, 2 %}{% increment c %}{% decrement c %}",
    "{% capture c %}{% raw %}{{ x }}{% endraw %}{# c #}{% # i %}{% comment %}{% endcomment %}{% endcapture %}{{ c }}",
    "{% include 'a' with x as y, z: 1 %}{% render 'b' for y as i, k: 2 %}{% include n %}",
    "{{ (1..3) | join: ',' }}{{ a['b c'].d[e.f][0] }}{{ ['x y'] }}{{ x.size }}{{ x.first.last }}",
    "{% if a == empty or b != blank and not (c contains 'x' or d in e) %}{% elsif f <= 1.5e3 %}{% endif %}",
    "{% unless a %}{% elsif b %}{% else %}{% endunless %}{% echo x | date: '%Y' | json: 2 %}",
    "{{ n | money }}{{ n | currency: group_separator: false }}{{ x | datetime: format: 'short' }}{{ n | decimal }}{{ n | unit: 'length-meter' }}",
    "{{ s | base64_encode | base64_decode }}{{ s | base64_url_safe_encode | base64_url_safe_decode }}",
    "{{ x | map: k: i => i.a }}{{ x | where: a=1 => 2 }}{{ x | find: (i) => i }}{{ x | sort: i => i.b, 1 }}",
    "{{ [a] }}{{ [a].b }}{{ x[[a]] }}{{ x[a[b]] }}{{ ['a']['b'] }}",
    "{% if h contains l %}{% endif %}{% if l in h %}{% endif %}{% for i in (1..n) limit: 2 %}{% endfor %}",
]


def decode_junk(v: Any) -> Any:
    """JSON cannot carry ints beyond the interpreter's int->str digit limit; cases carry a marker."""
    if isinstance(v, dict):
        if set(v) == {"__pow10__"}:
            n = v["__pow10__"]
            return 10 ** n if n >= 0 else -(10 ** -n)
        if set(v) == {"__decimal__"}:
            import decimal

            return decimal.Decimal(v["__decimal__"])
        if set(v) == {"__deep_list__"}:  # [[[...[1]...]]]
            out: Any = [1]
            for _ in range(v["__deep_list__"]):
                out = [out]
            return out
        return {k: decode_junk(x) for k, x in v.items()}
    if isinstance(v, list):
        return [decode_junk(x) for x in v]
    return v


EXTRA_SEEDS += [
    "{{ a[" + "9" * 4301 + "] }}", "{% for x in a[-" + "9" * 4400 + "] %}{{ x }}{% endfor %}",
    "{{ a[1][" + "1" + "0" * 5000 + "].b }}", "{{ (1..2)[" + "7" * 4301 + "] }}",
]


# ranges with more items than len() can count, in every tag that loops
EXTRA_SEEDS += [
    "{% render 'a' for (1..99999999999999999999) %}", "{% include 'a' for (1..99999999999999999999) as x %}",
    "{% for i in (1..99999999999999999999) limit: 2 %}{{ i }}{% endfor %}",
    "{% tablerow i in (-99999999999999999999..99999999999999999999) limit: 2 %}{{ i }}{% endtablerow %}",
    "{{ (1..99999999999999999999) | size }}{{ (1..99999999999999999999) | last }}",
    "{% assign r = (1..99999999999999999999) %}{% render 'b', y: r %}{% cycle r, r %}{{ r | join: ',' | size }}",
]


EXTRA_SEEDS += [
    "{% assign r = (1..1e30) %}{{ r.size }}{{ r.first }}{{ r.last }}", "{% include 'a' with (1..1e30) %}",
    "{% assign x = 1e4299 | times: 10 %}{{ (1..x) }}{% echo (1..x) %}{% cycle (1..x) %}{{ '${(1..x)}' }}",
    "{{ '<![x]>' | strip_html }}{{ '<![foo[ bar ]]>' | strip_html }}{{ '<![ x y ]>' | strip_html }}{{ '<!x' | strip_html }}",
    "{% macro m %}{% extends 'a' %}{% endmacro %}{% call m %}",
    "{% assign translations = 1 %}{% translate %}Hi{% endtranslate %}",
    "{% assign x = 1e4299 | times: 10 %}{% translate context: x %}Hi{% endtranslate %}",
    "{% assign x = 1e4299 | times: 10 %}{% translate count: x %}Hi{% plural %}His{% endtranslate %}{{ 'a' | t: x }}",
]


# work that must not be proportional to the numeric value of a literal
EXTRA_SEEDS += [
    "{{ '%99999999999s' | t }}{{ '%(a)99999999999s' | gettext: a: 1 }}", "{% assign m = '%99999999999d' %}{{ m | ngettext: m, 2 }}",
    "{{ '%*s' | t }}{{ '%.99999999999f' | t }}{{ '%c' | t }}{{ '%(a' | t }}",
]

# settings the i18n filters read from the render context, as hostile strings
LOCALE_JUNK = ["xx-YY", "en-BR", "de-YY", "pt-001", "qq-US", "zh-Hant-YY", "en-US", "nosuchthing", "zz", "en_US_POSIX", "",
               "-", "_", "a-", "-a", "en--US", "x" * 60, "C", "POSIX", "und", "root", 5, None, True, ["en"], {"a": 1}]
I18N_TEMPLATE = ("{{ 1.5 | currency }}{{ 1234.5 | decimal }}{{ 'March 5 2020' | datetime }}{{ 3 | unit: 'length-meter' }}"
                 "{{ '1,5' | decimal }}{{ 1.5 | money }}{{ 1.5 | money_without_currency }}")
I18N_CASES = [{"template": I18N_TEMPLATE, "data": {key: v}}
              for key in ("locale", "input_locale", "timezone", "input_timezone", "currency_code", "datetime_format",
                          "decimal_format", "currency_format", "unit_format", "unit_length")
              for v in LOCALE_JUNK]

DECIMAL_CASES = [
    {"template": "{% if (1..5) contains x %}y{% endif %}{% if x in (1..5) %}y{% endif %}{{ x | plus: 1 }}{{ x | round }}"
                 "{{ x | abs }}{% for i in (1..x) limit: 1 %}{{ i }}{% endfor %}{{ nums[x] }}{{ x | at_most: 2 }}",
     "data": {"x": {"__decimal__": d}, "nums": [1, 2]}}
    for d in ("Infinity", "-Infinity", "NaN", "sNaN", "1e28", "1E+999999999", "3", "2.50")
]

EXTRA_SEEDS += [
    "{% if (1..1e18) contains 'a' %}y{% endif %}{% if 'a' in (1..1e18) %}y{% endif %}{% if (1..1e18) contains 2.5 %}y{% endif %}",
    "{% for i in (1..1000000000000) offset: 999999999990 limit: 3 %}{{ i }}{% endfor %}",
    "{% for i in (1..1000000000000) limit: 2 %}{{ i }}{% endfor %}{% for i in (1..1000000000000) offset: continue limit: 2 %}{{ i }}{% endfor %}",
    "{% if (1..1e18) contains nil %}y{% endif %}{% if (1..1e18) contains nosuch %}y{% endif %}{% if (1..1e18) contains 7 %}y{% endif %}",
]


# the interpreter's stack as the competing bound: deep nesting in the source and in the data
DEEP_CASES = [
    {"template": "{% if true %}" * 2000 + "x" + "{% endif %}" * 2000, "data": {}},
    {"template": "{% if " + "a and " * 900 + "a %}y{% endif %}", "data": {"a": True}},
    {"template": "{% if " + "not " * 1500 + "a %}y{% endif %}", "data": {"a": True}},
    {"template": "{{ " + "'${" * 400 + "x" + "}'" * 400 + " }}", "data": {"x": 1}},
    {"template": "{{ " + "(" * 1500 + "a" + ")" * 1500 + " }}", "data": {"a": 1}},
    {"template": "{{ x }}{{ x | join: ',' }}{{ x | json }}{% if x contains 1 %}{% endif %}",
     "data": {"x": {"__deep_list__": 600}}},
    {"template": "{% include 'defs' %}{% call m %}", "data": {},
     "templates": {"defs": "{% macro m %}{% extends 'a' %}{% endmacro %}"}},
]


def _corpus_sources() -> list[dict[str, Any]]:
    return corpus() + [{"template": t, "data": {}} for t in EXTRA_SEEDS]


@st.composite
def text_case(draw: Any) -> dict[str, Any]:
    r = draw(st.integers(0, 9))
    data: dict[str, Any] = {}
    templates: dict[str, str] = {}
    if r < 2:
        src = draw(st.text(alphabet=ALPHABET, max_size=60))
    elif r < 5:
        toks = draw(st.lists(st.sampled_from(TOKENS), max_size=25))
        src = draw(st.sampled_from(["", " ", ""])).join(toks)
    else:
        tests = _corpus_sources()
        t = tests[draw(st.integers(0, len(tests) - 1))]
        src = t["template"]
        data = t.get("data") or {}
        templates = t.get("templates") or {}
        for _ in range(draw(st.integers(1, 2))):
            op = draw(st.integers(0, 6))
            n = len(src)
            pos = draw(st.integers(0, max(n, 1) - 1)) if n else 0
            if op == 0:
                src = src[:pos]
            elif op == 1:
                src = src[:pos] + src[pos + 1:]
            elif op == 2:
                src = src[:pos] + draw(st.sampled_from(TOKENS)) + src[pos:]
            elif op == 3:
                src = src[:pos] + draw(st.sampled_from(list(ALPHABET))) + src[pos + 1:]
            elif op == 4 and pos + 1 < n:
                src = src[:pos] + src[pos + 1] + src[pos] + src[pos + 2:]
            elif op == 5:
                other = tests[draw(st.integers(0, len(tests) - 1))]["template"]
                cut = draw(st.integers(0, len(other)))
                src = src[:pos] + other[cut:]
            else:
                src = src[pos:]
        if draw(st.integers(0, 3)) == 0 and data:
            data = dict(data)
            k = draw(st.sampled_from(sorted(data)))
            data[k] = draw(junk)
    return {"kind": "text", "src": src[:400], "data": data, "templates": templates,
            "mode": draw(st.sampled_from(["sync", "sync", "async"]))}


# generous resource limits: nothing here comes near them, but the limited buffers and counters are in use
LIMITS = st.sampled_from([None, None, None, {"output_stream_limit": 10 ** 7},
                          {"output_stream_limit": 10 ** 7, "loop_iteration_limit": 10 ** 6,
                           "local_namespace_limit": 10 ** 8}])

PROG_CFG = Cfg(confusion=0.3, wc_rate=0.05, shopify=True, tablerow=True, date=True, max_depth=3, budget=10,
               range_vars=False)


@st.composite
def prog_case(draw: Any) -> dict[str, Any]:
    prog = draw(program_strategy(PROG_CFG))
    return {"kind": "prog", "prog": prog, "layout": draw(st.integers(0, 3)), "data": draw(hostile_data()),
            "mode": draw(st.sampled_from(["sync", "async"])), "limits": draw(LIMITS)}


# ---- template names handed to file-system / package loaders (from data or as literals)
HOSTILE_NAMES = [
    "", ".", "/", "./", "//", "a/.", "..", "../", "\x00", "a\x00b", "a" * 300, "a" * 5000, "a/" * 200 + "x", ".html",
    "~", "%", "a\nb", " ", "x" * 255, "x" * 256, "\u00e9" * 200, "dir", "dir/", "sub", "sub/.", "a.html", "a", "sub/b",
    "a.html/", "a.html/x", "/etc/passwd", "\\", "con", "a:b", "?", "*", "\ud800", "a" * 255 + ".html", ". ", ".a",
]
LOADERS = ["fs", "fs-ext", "cfs-ext", "pkg", "pkg-ext", "choice"]
LOAD_TAGS = ["include", "render", "extends", "include-data", "render-for-data", "get"]


@st.composite
def load_case(draw: Any) -> dict[str, Any]:
    r = draw(st.integers(0, 3))
    if r == 0:
        name: Any = draw(st.sampled_from(HOSTILE_NAMES))
    elif r == 1:
        name = draw(st.text(alphabet="./\\\x00 a~\u00e9%:*?\n", max_size=8))
    elif r == 2:
        name = draw(st.sampled_from(HOSTILE_NAMES)) + draw(st.sampled_from(["", "/", ".", ".html", "/..", "\x00"]))
    else:
        name = draw(junk)  # not even a string
    return {"kind": "load", "name": name, "tag": draw(st.sampled_from(LOAD_TAGS)),
            "loader": draw(st.sampled_from(LOADERS)), "mode": draw(st.sampled_from(["sync", "async"]))}


_LOAD_DIR: list[str] = []


def _load_dir() -> str:
    """A small template directory (created once per process, removed at exit)."""
    if not _LOAD_DIR:
        # inside the run's scratch directory when there is one (the parent removes it; forked workers leave
        # through os._exit and never run atexit handlers)
        d = tempfile.mkdtemp(prefix="lv-c02-", dir=os.environ.get("LV_CRUMB_DIR") or None)
        os.makedirs(os.path.join(d, "sub"))
        os.makedirs(os.path.join(d, "dir"))
        for rel in ("a.html", "a", "sub/b.html", "x.liquid"):
            with open(os.path.join(d, rel), "w", encoding="utf-8") as fd:
                fd.write("T:" + rel)
        _LOAD_DIR.append(d)
        atexit.register(shutil.rmtree, d, True)
    return _LOAD_DIR[0]


def _loader(kind: str) -> Any:
    d = _load_dir()
    if kind == "fs":
        return FileSystemLoader(d)
    if kind == "fs-ext":
        return FileSystemLoader([d, os.path.join(d, "sub")], ext=".html")
    if kind == "cfs-ext":
        return CachingFileSystemLoader(d, ext=".html")
    if kind == "pkg":
        return PackageLoader("liquid2", package_path="builtin")
    if kind == "pkg-ext":
        return PackageLoader("liquid2", package_path=["builtin", "utils"], ext=".py")
    return ChoiceLoader([DictLoader({"known": "K"}), FileSystemLoader(d, ext=".html"),
                         PackageLoader("liquid2", package_path="builtin")])


ALL_FILTERS = sorted(set(FILTERS) | set(SHOPIFY_FILTERS) | {
    "t", "gettext", "ngettext", "pgettext", "npgettext", "date", "safe", "currency", "datetime", "decimal",
    "unit", "money", "money_with_currency", "money_without_currency", "money_without_trailing_zeros"})


@st.composite
def filter_case(draw: Any) -> dict[str, Any]:
    name = draw(st.sampled_from(ALL_FILTERS))
    nargs = draw(st.integers(0, 3))
    args = [draw(junk) for _ in range(nargs)]
    kw = None
    if draw(st.integers(0, 5)) == 0:
        kw = [draw(st.sampled_from(["allow_false", "format", "x", "count", "context", "n", "plural", "currency_code",
                                    "group_separator", "decimal_quantization", "input_format", "denominator_unit"])),
              draw(junk)]
    return {"kind": "filter", "name": name, "left": draw(junk), "args": args, "kw": kw,
            "site": draw(st.sampled_from(["out", "assign", "for", "if", "tstr", "contains", "path", "range", "args"])),
            "mode": draw(st.sampled_from(["sync", "async"])), "limits": draw(LIMITS)}


PARTIALS = {
    "a": "A{{ x }}", "b": "{% for i in y %}{{ i }}{% endfor %}", "card": "{{ card }}{{ p }}",
    "base": "<{% block a %}A{% endblock %}|{% block b %}B{% endblock %}>",
}


class C02(Prop):
    id = "C02"
    title = "Parsing and rendering are total over the LiquidError error model"
    technique = "property-based fuzzing (Hypothesis text/mutation/grammar generators, exception-type oracle)"
    rule = (
        "cases are Liquid-biased text / token soup, 1-2 edit mutants and splices of the 995 CTS templates "
        "(thorough: every prefix enumerated), grammar programs rendered on hostile data, and single-filter "
        "probes with 0-3 hostile arguments; a case is non-trivial when the source contains at least one markup "
        "opener ({{, {% or {#) and, for program/filter cases, at least one hostile value was bound; distinct by "
        "SHA-1 of the whole case"
    )
    assumptions = [
        "RecursionError escaping from_string()/render()/render_async() IS reported (the library turns the interpreter's "
        "stack limit into LiquidSyntaxError / ContextDepthError); deep-nesting seeds (2000 nested ifs, 500-term boolean "
        "chains, 400 nested template strings, 600-deep lists) are enumerated",
        "time bound: only non-termination is detected (20 s watchdog, confirmed by 3 isolated 60 s re-runs)",
        "async renders are driven without an event loop (no awaiting loaders in this property)",
        "range literals in generated programs have small literal bounds: a loop or array whose size is the "
        "numeric value of hostile data ((1..n), n = 10**14) is legitimate work, not a hang",
    ]
    hang_is_violation = True
    batch = 400

    def n_random(self, tier: str) -> int:
        return 24000 if tier == "quick" else 600000

    def strategy(self, tier: str, disabled: frozenset[str]):
        return st.one_of(text_case(), text_case(), text_case(), text_case(), prog_case(), prog_case(), filter_case(),
                         filter_case(), load_case())

    def enumerate(self, tier: str, disabled: frozenset[str]):
        tests = _corpus_sources()
        step = 1 if tier == "thorough" else 7
        for ti, t in enumerate(tests):
            src = t["template"]
            yield {"kind": "text", "src": src, "data": t.get("data") or {},
                   "templates": t.get("templates") or {}, "mode": "async" if ti % 2 else "sync"}
            for k in range((ti % step), len(src), step):
                yield {"kind": "text", "src": src[:k], "data": t.get("data") or {},
                       "templates": t.get("templates") or {}, "mode": "sync"}

        for ti, t in enumerate(DEEP_CASES + DECIMAL_CASES + I18N_CASES):
            for mode in ("sync", "async"):
                yield {"kind": "text", "src": t["template"], "data": t["data"], "templates": t.get("templates") or {},
                       "mode": mode}

        for ji, junk_v in enumerate(JUNK):
            yield {"kind": "text", "src": "{% include 'a' %}{% render 'b', y: x %}{% include 'card' for x %}",
                   "data": {"uid": junk_v, "x": junk_v}, "templates": {}, "ns_key": "uid",
                   "mode": "async" if ji % 2 else "sync"}

        for ni, name in enumerate(HOSTILE_NAMES):
            for loader in LOADERS:
                for ti, tag in enumerate(LOAD_TAGS):
                    yield {"kind": "load", "name": name, "tag": tag, "loader": loader,
                           "mode": "async" if (ni + ti) % 2 else "sync"}

    def enumerated_is_exhaustive(self, tier: str) -> bool:
        return False

    def setup_worker(self) -> None:
        # created once by the main process (whose atexit handler removes it); forked workers and guarded
        # children inherit it instead of making one each
        _load_dir()

    def budget_s(self, tier: str) -> float:
        return 240 if tier == "quick" else 3000

    def post_campaign(self, tier: str, seed: int, tolerate: list[str]) -> dict[str, Any]:
        """Thorough tier: coverage-guided campaign (atheris / libFuzzer) with this module's
        check() as the oracle inside the target; empty and CTS-seeded corpora."""
        if tier != "thorough":
            return {}
        from lv.core import fuzz

        seeds = [t["template"] for t in corpus()][::7]
        info = fuzz.run_campaign(self.id, seed, runs=int(__import__("os").environ.get("LV_FUZZ_RUNS", "2000000")),
                                 tolerate=tolerate, procs=8, seed_corpus=seeds, max_time_s=900)
        return {"cases": [c["case"] for c in info.get("cases", [])],
                "evidence": {"atheris_available": info.get("available", False), "atheris_runs": info.get("runs", 0),
                             "atheris_corpus_entries": info.get("corpus_entries", 0),
                             "atheris_violating_inputs": len(info.get("cases", []))}}

    # ------------------------------------------------------------------ oracle

    def check(self, case: Any, disabled: frozenset[str] = frozenset()) -> Result:
        res = Result()
        kind = case["kind"]
        if kind == "load":
            return self._check_load(case, res)
        if kind == "text":
            src = case["src"]
            templates = dict(PARTIALS)
            templates.update(case.get("templates") or {})
            data = case.get("data") or {}
            shopify = True
            res.nontrivial = any(m in src for m in ("{{", "{%", "{#"))
            res.labels.append("text")
        elif kind == "prog":
            prog = case["prog"]
            src = to_source(prog["main"], case["layout"])
            templates = {k: to_source(v, case["layout"]) for k, v in prog["templates"].items()}
            data = case["data"]
            shopify = True
            res.nontrivial = True
            res.labels.append("prog")
        else:
            args = case["args"]
            data = {"x": case["left"], "a0": None, "a1": None, "a2": None, "kv": None}
            parts = []
            for i, a in enumerate(args):
                data[f"a{i}"] = a
                parts.append(f"a{i}")
            if case.get("kw"):
                data["kv"] = case["kw"][1]
                parts.append(f"{case['kw'][0]}: kv")
            call = f"x | {case['name']}" + (": " + ", ".join(parts) if parts else "")
            site = case["site"]
            src = {
                "out": "{{ " + call + " }}",
                "assign": "{% assign v = " + call + " %}{{ v }}",
                "for": "{% assign v = " + call + " %}{% for i in v limit: a0 offset: a1 %}{{ i }}{% endfor %}",
                "if": "{% assign v = " + call + " %}{% if v == a0 or v < a1 or v contains a2 %}y{% endif %}",
                "tstr": "{{ \"${" + call + "}\" }}",
                # membership with hostile operands on both sides
                "contains": "{% if x contains a0 %}a{% endif %}{% if a0 in x %}b{% endif %}{% if a1 contains x %}c{% endif %}"
                            "{% case x %}{% when a0, a1 %}d{% endcase %}{{ " + call + " }}",
                # hostile values as path segments, nested roots and keys
                "path": "{{ [a0] }}{{ x[a0] }}{{ x[a0][a1] }}{{ [a0].size }}{{ x.first }}{{ x.last }}{{ x.size }}"
                        "{{ a0[x] }}{{ " + call + " }}",
                # hostile range bounds (lazily iterated: at most two iterations)
                "range": "{% for i in (a0..a1) limit: 2 %}{{ i }}{% endfor %}{% for i in (1..x) limit: 1 %}{{ i }}{% endfor %}"
                         "{{ (x..a0) | first }}{{ " + call + " }}",
                # hostile values as tag arguments
                "args": "{% cycle x, a0 %}{% with p: x %}{{ p }}{% endwith %}{% increment c %}{% echo a0 %}"
                        "{% tablerow i in x cols: a0 limit: a1 %}{{ i }}{% endtablerow %}{{ " + call + " }}",
            }[site]
            templates = {}
            shopify = True
            res.nontrivial = True
            res.labels.append("filter:" + case["name"])

        data = decode_junk(data)
        if case.get("ns_key"):
            # a caching loader whose cache key is built from a render-context variable
            from liquid2 import CachingDictLoader

            all_t = dict(PARTIALS)
            all_t.update(templates)
            env = make_env(shopify=shopify, limits=case.get("limits"),
                           loader=CachingDictLoader(all_t, namespace_key=case["ns_key"]))
        else:
            env = make_env(templates, shopify=shopify, limits=case.get("limits"))
        if case.get("limits"):
            res.labels.append("limits")
        try:
            tmpl = env.from_string(src)
        except LiquidError as err:
            self._check_error(err, res, "parse")
            res.labels.append("parse-error")
            return res
        except Exception as err:  # noqa: BLE001 - RecursionError included: parse() reports it as a syntax error
            res.fail("escape-parse", exc_bucket(err), f"{type(err).__name__}: {err} | src={src[:300]!r}")
            return res

        try:
            if case.get("mode") == "async":
                run_coro(tmpl.render_async(**data))
            else:
                tmpl.render(**data)
            res.labels.append("rendered")
        except LiquidError as err:
            self._check_error(err, res, "render")
            res.labels.append("render-error")
        except Exception as err:  # noqa: BLE001 - RecursionError included: render() reports it as ContextDepthError
            res.fail("escape-render", exc_bucket(err), f"{type(err).__name__}: {err} | src={src[:300]!r}")
        return res

    def _check_load(self, case: Any, res: Result) -> Result:
        """A template name - any JSON value from the data, or any string literal - handed to a loader that
        touches the file system."""
        name = decode_junk({"n": case["name"]})["n"]
        tag = case["tag"]
        res.labels.append("load:" + case["loader"] + ":" + tag)
        res.nontrivial = True
        env = make_env(loader=_loader(case["loader"]), shopify=True)
        lit = quote_string(name, Layout(0)) if isinstance(name, str) else None
        if tag in ("include", "render", "extends") and lit is None:
            tag = "include-data"
        src = {"include": "{% include " + str(lit) + " %}", "render": "{% render " + str(lit) + " %}",
               "extends": "{% extends " + str(lit) + " %}", "include-data": "{% include n %}",
               "render-for-data": "{% for i in (1..2) %}{% include n with i %}{% endfor %}", "get": ""}[tag]
        use_async = case.get("mode") == "async"

        async def go_async() -> None:
            if tag == "get":
                await env.get_template_async(name)
            else:
                await env.from_string(src).render_async(n=name)
            # the blocking API is the same API when it is called from a coroutine, on what the async API has cached
            # (and the other way round)
            if tag == "get":
                env.get_template(name)
                await env.get_template_async(name)
            else:
                env.from_string(src).render(n=name)
                await env.from_string(src).render_async(n=name)

        try:
            if use_async:
                asyncio.run(go_async())  # file system loaders suspend in an executor: a running loop is needed
            elif tag == "get":
                env.get_template(name)
            else:
                env.from_string(src).render(n=name)
            res.labels.append("rendered")
        except LiquidError as err:
            self._check_error(err, res, "render")
            res.labels.append("render-error")
        except RecursionError:
            res.labels.append("recursion")
        except Exception as err:  # noqa: BLE001
            if tag == "get" and not isinstance(name, str):
                res.labels.append("api-misuse")  # get_template(<not a string>) is a Python caller's type error
                return res
            try:
                shown = repr(name)[:80]
            except ValueError:
                shown = f"<{type(name).__name__} too large to print>"
            res.fail("escape-load", exc_bucket(err),
                     f"{type(err).__name__}: {err} | loader={case['loader']} tag={tag} name={shown} src={src[:120]!r}")
        return res

    def _check_error(self, err: LiquidError, res: Result, phase: str) -> None:
        for name, fn in (("str", lambda: str(err)), ("detailed_message", err.detailed_message),
                         ("context", err.context)):
            try:
                fn()
            except Exception as exc:  # noqa: BLE001
                res.fail(
                    f"error-{name}", f"errmsg-{name}:{exc_bucket(exc)}",
                    f"{name}() of {type(err).__name__}({err.args[0] if err.args else ''!r}) raised "
                    f"{type(exc).__name__}: {exc}",
                )
                return

    def sample(self, case: Any) -> Any:
        if case["kind"] == "prog":
            return {"kind": "prog", "src": to_source(case["prog"]["main"], case["layout"])[:300],
                    "data_keys_hostile": sorted(k for k, v in case["data"].items() if _is_junk(v))[:8]}
        if case["kind"] == "load":
            return {**case, "name": repr(case["name"])[:80]}
        if case["kind"] == "text":
            return {"kind": "text", "src": case["src"][:200]}
        return {k: (repr(v)[:60] if k in ("left", "args") else v) for k, v in case.items()}


def _is_junk(v: Any) -> bool:
    if isinstance(v, float) and (math.isnan(v) or math.isinf(v)):
        return True
    return any(v is j for j in JUNK)


PROP = C02()
