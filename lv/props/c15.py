"""C15 - message extraction covers every catalog lookup a render can make.

A case is plain JSON::

    {"src": <final template source>,
     "sites": [{"id": "m3x", "kind": "t" | "gettext" | "ngettext" | "pgettext" | "npgettext" | "tag",
                "form": <generator form>, "family": <family the syntax denotes>,
                "place": "output" | "echo" | "assign" | "ternary-left" | "ternary-alt" | "tstring" |
                         "filter-arg" | "site-arg" | "<tag>-arg" | "block",
                "markup": <name of the enclosing markup>, "nest": [<enclosing block constructs>],
                "claim": bool, "why": <reason a site is outside the coverage claim>,
                "msgid": str | None, "plural": str | None, "context": str | None,
                "count": None | ["lit", v] | ["var", name] | ["none"],
                "markup_off", "literal_off", "markup_line", "literal_line", "path": [[var, value], ...]}],
     "comments": [{"id": "k2x", "kind": "hash" | "inline" | "block" | "line", "prefix": bool,
                   "multiline": bool, "start", "end", "start_line", "end_line"}],
     "data": [ {var: value}, ... ]}

Every message literal carries a unique token (``m<N>x``; values that only exist in the data carry
``d<N>x``), so a call logged by the `Translations` double is attributed to the site that made it.

Generator flags (switched off by active known findings through `disabled`; exclusions are counted in
`Result.excluded`):

    "count-zero"     0 is removed from every count pool (plural form with count 0)
    "count-one"      1 is removed from the count pools of the `t` filter
    "count-nil"      nil / a missing `count` is removed from the count pools of the `t` filter
    "empty-context"  `{% translate context: '' %}` is not generated
    "empty-template" the empty template is not generated
    "multiline-comment"  the "comment immediately preceding a message is attached" check skips comments
                     that span several lines
    "infix-lineno"   line numbers of messages inside the operands of an if/elsif condition are not checked
"""

from __future__ import annotations

import random
import re
from contextlib import contextmanager
from typing import Any
from typing import Callable
from typing import Iterator

from hypothesis import strategies as st

from lv.core.runner import Prop
from lv.core.runner import Result
from lv.core.runner import exc_bucket
from lv.gen.printer import Layout
from lv.gen.printer import quote_string
from lv.harness.envs import run_coro

from liquid2 import Environment
from liquid2.exceptions import LiquidError
from liquid2.messages import DEFAULT_KEYWORDS
from liquid2.messages import extract_from_template
from liquid2.messages import extract_from_templates

FLAGS = ("count-zero", "count-one", "count-nil", "empty-context", "empty-template", "multiline-comment",
         "infix-lineno")

TOKEN_RE = re.compile(r"[md]\d+x")
COMMENT_RE = re.compile(r"k\d+x")

# filter site forms -> (filter name, family the syntax denotes, inside the coverage claim?)
FILTER_FORMS: dict[str, tuple[str, str, bool]] = {
    "t": ("t", "gettext", True),
    "t-vars": ("t", "gettext", True),
    "t-ctx": ("t", "pgettext", True),
    "t-plural": ("t", "ngettext", True),
    "t-ctx-plural": ("t", "npgettext", True),
    # `plural: nil` is no plural at all: the lookup is gettext / pgettext
    # an empty message context written as a literal is still a context for the t filter (pgettext with '')
    "t-emptyctx": ("t", "pgettext", True),
    "t-emptyctx-plural": ("t", "npgettext", True),
    "t-nilplural": ("t", "gettext", True),
    "t-ctx-nilplural": ("t", "pgettext", True),
    "gettext": ("gettext", "gettext", True),
    "gettext-vars": ("gettext", "gettext", True),
    "ngettext": ("ngettext", "ngettext", True),
    "pgettext": ("pgettext", "pgettext", True),
    "npgettext": ("npgettext", "npgettext", True),
    # outside the claim: something the lookup depends on is not a literal
    "dyn-left": ("t", "gettext", False),
    "dyn-left-gettext": ("gettext", "gettext", False),
    "t-dynctx": ("t", "pgettext", False),
    "t-dynplural": ("t", "ngettext", False),
    "ngettext-dynplural": ("ngettext", "ngettext", False),
    "pgettext-dynctx": ("pgettext", "pgettext", False),
    "npgettext-dynctx": ("npgettext", "npgettext", False),
    "chain": ("t", "gettext", False),
}
CLAIM_FORMS = [f for f, v in FILTER_FORMS.items() if v[2]]
DYN_FORMS = [f for f, v in FILTER_FORMS.items() if not v[2]]

TAG_FORMS: dict[str, tuple[str, bool]] = {
    "tag": ("gettext", True),
    "tag-vars": ("gettext", True),
    "tag-ctx": ("pgettext", True),
    "tag-plural": ("ngettext", True),
    "tag-ctx-plural": ("npgettext", True),
    "tag-emptyctx": ("gettext", True),
    "tag-dynctx": ("pgettext", False),
    "tag-empty": ("gettext", False),
}

COUNT_POOL: list[Any] = [2, 1, 0, 5, "3", None]

MSG_DECOR = ["{t}", "Hello {t}", "{t}, World!", "{t}\nsecond line", "é😀 {t}", "it's \"{t}\"", "100%% {t}",
             "  {t}  ", "{t} \\ back", "{t} & <b>co</b>"]
TEXTS = ["\n", " ", "\n\n", "text ", "line one\nline two\n", "  \n\t", "\r\n", "Hello, World!\n", "", "a\n \n\nb"]
SEPS = ["", " ", "\n", "\n", "\n\n", "\n  \n\n", " text ", "\ntext\n", "\r\n", "  \n  "]

FILTER_PLACES = ["output", "echo", "assign", "ternary-left", "ternary-alt", "tstring", "filter-arg", "site-arg",
                 "if-arg", "elsif-arg", "with-arg", "call-arg", "macro-arg", "translate-arg", "cycle-arg",
                 "case-arg", "when-arg"]
LINE_PLACES = ["echo", "assign", "ternary-left", "ternary-alt", "tstring", "filter-arg", "site-arg", "if-arg"]
NESTS = ["top", "if", "elsif", "else", "unless", "unless-else", "for", "for-else", "for-range", "when", "when2",
         "case-else", "capture", "with", "macro", "liquid", "liquid-if", "liquid-else", "liquid-for",
         "liquid-capture", "liquid-when", "if/for", "capture/if", "macro/else"]


# --------------------------------------------------------------------------- choosers


class HypChooser:
    """Every structural decision is a Hypothesis draw (first option = simplest)."""

    _ints: dict[tuple[int, int], Any] = {}

    def __init__(self, draw: Any) -> None:
        self.draw = draw

    def int(self, lo: int, hi: int) -> int:  # noqa: A003
        s = self._ints.get((lo, hi))
        if s is None:
            s = self._ints[(lo, hi)] = st.integers(lo, hi)
        return self.draw(s)

    def pick(self, options: list[Any]) -> Any:
        return options[self.int(0, len(options) - 1)]

    def chance(self, pct: int) -> bool:
        return self.int(0, 99) >= 100 - pct


class RandChooser:
    """Deterministic chooser for the enumerated part (seeded by the case index)."""

    def __init__(self, seed: int) -> None:
        self.rnd = random.Random(seed)

    def int(self, lo: int, hi: int) -> int:  # noqa: A003
        return self.rnd.randint(lo, hi)

    def pick(self, options: list[Any]) -> Any:
        return self.rnd.choice(options)

    def chance(self, pct: int) -> bool:
        return self.rnd.randrange(100) < pct


# --------------------------------------------------------------------------- source builder


class Builder:
    """Emits source text sequentially and records where every translatable site and comment is."""

    def __init__(self, ch: Any, lay_seed: int, disabled: frozenset[str] = frozenset(), max_sites: int = 8) -> None:
        self.ch = ch
        self.lay = Layout(lay_seed)
        self.lay_line = self.lay.sub(line_mode=True)
        self.disabled = disabled
        self.out: list[str] = []
        self.pos = 0
        self.sites: list[dict[str, Any]] = []
        self.comments: list[dict[str, Any]] = []
        self.vars: dict[str, list[Any]] = {}  # control / count variables -> domain
        self.consts: dict[str, Any] = {}  # data that is the same in every data set
        self.n = 0
        self.nest: list[str] = []
        self.path: list[list[Any]] = []
        self.line_mode = False
        self.markup: tuple[int, str] = (0, "")
        self.budget = max_sites

    # ------------------------------------------------------------ primitives

    def emit(self, s: str) -> None:
        self.out.append(s)
        self.pos += len(s)

    def uid(self, prefix: str) -> str:
        self.n += 1
        return f"{prefix}{self.n}x"

    @property
    def qlay(self) -> Layout:
        return self.lay_line if self.line_mode else self.lay

    def ws(self) -> str:
        return self.qlay.ws(1)

    def ows(self) -> str:
        return self.qlay.ows()

    def wc(self) -> str:
        return self.lay.pick(["", "", "", "-", "~", "+"]) if self.lay.rnd is not None else ""

    def quote(self, s: str, quote: str | None = None) -> str:
        return quote_string(s, self.qlay, quote=quote)

    def newvar(self, prefix: str, domain: list[Any]) -> str:
        self.n += 1
        name = f"{prefix}{self.n}"
        self.vars[name] = domain
        return name

    @contextmanager
    def branch(self, nest: str | None, conds: list[list[Any]]) -> Iterator[None]:
        if nest is not None:
            self.nest.append(nest)
        self.path.extend(conds)
        try:
            yield
        finally:
            if conds:
                del self.path[-len(conds):]
            if nest is not None:
                self.nest.pop()

    def tag_open(self, name: str) -> int:
        if self.line_mode:
            self.emit(self.lay_line.pick(["", " ", "  ", "\t"]) if self.lay.rnd is not None else "  ")
            off = self.pos
            self.emit(name)
        else:
            off = self.pos
            self.emit("{%" + self.wc() + (self.ows() or " "))
            self.emit(name)
        self.markup = (off, name)
        return off

    def tag_close(self) -> None:
        if self.line_mode:
            self.emit(self.lay_line.pick(["", "", " "]) if self.lay.rnd is not None else "")
            self.emit("\n" if not self.lay.chance(0.15) else "\n\n")
        else:
            self.emit((self.ows() or " ") + self.wc() + "%}")

    def simple_tag(self, name: str, args: str = "") -> int:
        off = self.tag_open(name)
        if args:
            self.emit(self.ws() + args)
        self.tag_close()
        return off

    def text(self, s: str) -> None:
        if self.line_mode:
            return
        self.emit(s)

    def cond(self, var: str) -> None:
        form = self.lay.pick(["{v}", "{v}", "{v} == true", "true and {v}", "{v} and true", "{v} or false"])
        self.emit(form.format(v=var))

    # ------------------------------------------------------------ strings

    def message(self, tok: str) -> str:
        if self.lay.rnd is None:
            return tok
        return self.lay.pick(MSG_DECOR).format(t=tok)

    def count_domain(self, user: str) -> list[Any]:
        pool = list(COUNT_POOL)
        if user not in ("t", "tag"):
            pool.remove(None)  # ngettext/npgettext raise LiquidTypeError: no lookup at all (the tag counts nil as 1)
        if "count-zero" in self.disabled:
            pool.remove(0)
        if user == "t" and "count-one" in self.disabled:
            pool.remove(1)
        if user == "t" and "count-nil" in self.disabled and None in pool:
            pool.remove(None)
        return pool

    def emit_count(self, user: str, how: str | None = None) -> list[Any]:
        """Emit a count expression; returns the count record."""
        pool = self.count_domain(user)
        how = how or self.ch.pick(["var", "var", "lit", "lit", "str"] + (["nil"] if user == "tag" else []))
        if how == "lit":
            v = self.ch.pick([p for p in pool if isinstance(p, int)])
            self.emit(str(v))
            return ["lit", v]
        if how == "str":
            self.emit(self.quote("3"))
            return ["lit", "3"]
        if how == "nil" and None in pool:
            self.emit(self.lay.pick(["nil", "null"]))
            return ["lit", None]
        name = self.newvar("n", pool)
        self.emit(name)
        return ["var", name]

    # ------------------------------------------------------------ comments

    def comment(self, kind: str, prefix: bool, multiline: bool) -> dict[str, Any]:
        cid = self.uid("k")
        lead = "Translators:" if prefix else self.lay.pick(["", "translators:", "Translators", "NOTE:", "Translator:"])
        body = f"{lead} {cid} note" if lead else f"{cid} note"
        start = self.pos
        if self.line_mode and self.lay.rnd is not None and self.lay.chance(0.3):
            # a block comment written as line statements of the liquid tag
            kind = "liquid-block"
            ind = self.lay_line.pick(["", " ", "  "])
            self.emit(ind)
            start = self.pos
            self.emit("comment\n" + ind + "  " + body + "\n" + (ind + "  more about " + cid + "\n" if multiline else "")
                      + ind + "endcomment")
            end = self.pos
            self.emit("\n" + self.lay_line.pick(["", "", "\n", ind + "assign zz = 1\n"]))
        elif self.line_mode:
            kind = "line"
            multiline = False
            self.emit(self.lay_line.pick(["", " ", "  "]) if self.lay.rnd is not None else "  ")
            start = self.pos
            self.emit("#" + self.lay_line.pick(["", " "]) + body + "\n")
            end = self.pos - 1
        elif kind == "hash":
            h = self.lay.pick(["#", "#", "##"])
            pad = self.lay.pick([" ", "", "\n", "  "]) if multiline else self.lay.pick([" ", "", "  "])
            extra = "\nsecond line of " + cid + "\n" if multiline else ""
            self.emit("{" + h + pad + body + extra + self.lay.pick([" ", ""]) + h + "}")
            end = self.pos
        elif kind == "inline":
            extra = "\n  # more about " + cid if multiline else ""
            self.emit("{%" + self.wc() + self.lay.pick([" ", "", "  "]) + "#" + self.lay.pick([" ", ""]) + body
                      + extra + " " + self.wc() + "%}")
            end = self.pos
        else:
            kind = "block"
            extra = "\nmore about " + cid + "\n" if multiline else ""
            pad = self.lay.pick(["", " ", "\n"]) if multiline else self.lay.pick(["", " "])
            self.emit("{%" + self.wc() + " comment " + self.wc() + "%}" + pad + body + extra + pad
                      + "{%" + self.wc() + " endcomment " + self.wc() + "%}")
            end = self.pos
        rec = {"id": cid, "kind": kind, "prefix": prefix, "multiline": multiline, "start": start, "end": end,
               "liquid": self.line_mode}
        self.comments.append(rec)
        return rec

    # ------------------------------------------------------------ sites

    def _site(self, kind: str, form: str, family: str, place: str, claim: bool, why: str = "") -> dict[str, Any]:
        site = {"id": "", "kind": kind, "form": form, "family": family, "place": place, "markup": self.markup[1],
                "nest": list(self.nest), "claim": claim, "why": why, "msgid": None, "plural": None, "context": None,
                "count": None, "markup_off": self.markup[0], "literal_off": self.pos,
                "path": [list(p) for p in self.path]}
        self.sites.append(site)
        self.budget -= 1
        return site

    def emit_site(self, form: str, place: str, depth: int = 0, count_how: str | None = None) -> None:  # noqa: PLR0912, PLR0915
        """`<literal> | <translation filter>[: args]` at the current position."""
        fname, family, claim = FILTER_FORMS[form]
        why = "" if claim else form
        site = self._site(fname, form, family, place, claim, why)
        sep = lambda: self.emit(self.ows() + "," + self.ws())  # noqa: E731

        if form.startswith("dyn-left"):
            sid = site["id"] = self.uid("d")
            name = f"s{self.n}"
            self.consts[name] = f"dynamic {sid}"
            self.emit(name)
        else:
            sid = site["id"] = self.uid("m")
            msg = self.message(sid)
            if form.endswith("-vars"):
                msg += " %(you)s!"
            site["msgid"] = msg
            self.emit(self.quote(msg))
        if form == "chain":
            self.emit(self.ws() + "|" + self.ws() + "strip")
        self.emit(self.ws() + "|" + self.ows() + fname)

        def lit(prefix: str) -> str:
            tok = self.uid(prefix)
            val = self.message(tok) if self.lay.chance(0.5) else tok
            self.emit(self.quote(val))
            return val

        def dyn(prefix: str) -> str:
            self.n += 1
            name = f"{prefix}{self.n}"
            self.consts[name] = f"dynamic {prefix}{self.n}x"
            self.emit(name)
            return name

        if form in ("t", "gettext", "dyn-left", "dyn-left-gettext", "chain"):
            pass
        elif form in ("t-vars", "gettext-vars"):
            self.emit(":" + self.ws() + "you:" + self.ws())
            if depth < 2 and self.budget > 0 and self.ch.chance(30):
                self.emit_tstring(lambda: self.emit_T("site-arg", depth + 1))
            else:
                self.emit(self.quote("World"))
        elif form in ("t-ctx", "pgettext"):
            self.emit(":" + self.ws())
            if self.lay.chance(0.25):
                # a message variable as keyword argument in front of the positional context
                self.emit("you:" + self.ws() + self.quote("World"))
                sep()
            site["context"] = lit("c")
        elif form == "t-emptyctx":
            self.emit(":" + self.ws() + self.quote(""))
            site["context"] = ""
        elif form == "t-emptyctx-plural":
            self.emit(":" + self.ws() + self.quote(""))
            site["context"] = ""
            sep()
            self.emit("plural:" + self.ws())
            site["plural"] = lit("p")
            sep()
            self.emit("count:" + self.ws())
            site["count"] = self.emit_count("t", count_how or "var")
        elif form in ("t-nilplural", "t-ctx-nilplural"):
            self.emit(":" + self.ws())
            parts = ["p"] + (["x"] if form == "t-ctx-nilplural" else [])
            if self.lay.chance(0.5):
                parts.reverse()
            for i, part in enumerate(parts):
                if i:
                    sep()
                if part == "x":
                    site["context"] = lit("c")
                else:
                    self.emit("plural:" + self.ws() + self.lay.pick(["nil", "null"]))
        elif form in ("t-dynctx", "pgettext-dynctx"):
            self.emit(":" + self.ws())
            dyn("x")
        elif form in ("t-plural", "t-ctx-plural", "t-dynplural"):
            self.emit(":" + self.ws())
            order = self.lay.pick(["pc", "pc", "cp"])
            how = count_how or self.ch.pick(["var", "var", "lit", "str", "none", "nil"])
            if how == "none" and "count-nil" in self.disabled:
                how = "var"
            if how == "none":
                order = "p"
            if form == "t-ctx-plural":
                # the message context is the positional argument, wherever it stands among the keyword ones
                at = self.lay.pick([0, 0, 0, 1, len(order)])
                order = order[:at] + "x" + order[at:]
            for i, part in enumerate(order):
                if i:
                    sep()
                if part == "x":
                    site["context"] = lit("c")
                elif part == "p":
                    self.emit("plural:" + self.ws())
                    if form == "t-dynplural":
                        dyn("y")
                    else:
                        site["plural"] = lit("p")
                else:
                    self.emit("count:" + self.ws())
                    site["count"] = self.emit_count("t", how)
            if site["count"] is None:
                site["count"] = ["none"]
        elif form in ("ngettext", "ngettext-dynplural"):
            self.emit(":" + self.ws())
            if self.lay.chance(0.25):  # a message variable in front of the positional arguments
                self.emit("you:" + self.ws() + self.quote("World"))
                sep()
            if form == "ngettext":
                site["plural"] = lit("p")
            else:
                dyn("y")
            sep()
            site["count"] = self.emit_count("ngettext", count_how)
        elif form in ("npgettext", "npgettext-dynctx"):
            self.emit(":" + self.ws())
            if self.lay.chance(0.25):
                self.emit("you:" + self.ws() + self.quote("World"))
                sep()
            if form == "npgettext":
                site["context"] = lit("c")
            else:
                dyn("x")
            sep()
            site["plural"] = lit("p")
            sep()
            site["count"] = self.emit_count("npgettext", count_how)
        else:  # pragma: no cover
            raise AssertionError(form)
        if self.lay.chance(0.2):
            self.emit(self.ws() + "|" + self.ws() + self.lay.pick(["strip", "append: ''", "default: 'x'"]))

    def emit_tag_site(self, form: str, count_how: str | None = None) -> None:  # noqa: PLR0912
        """A `{% translate %}` block (normal mode only)."""
        family, claim = TAG_FORMS[form]
        if form == "tag-emptyctx" and "empty-context" in self.disabled:
            form = "tag"
        off = self.tag_open("translate")
        site = self._site("tag", form, family, "block", claim, "" if claim else form)
        site["markup_off"] = off
        sid = site["id"] = self.uid("m") if form != "tag-empty" else self.uid("d")
        args: list[Callable[[], None]] = []

        def a_ctx() -> None:
            self.emit("context:" + self.ws())
            if form == "tag-dynctx":
                self.n += 1
                name = f"x{self.n}"
                self.consts[name] = f"dynamic x{self.n}x"
                self.emit(name)
            elif form == "tag-emptyctx":
                site["context"] = ""
                self.emit(self.quote(""))
            else:
                self.n += 1
                site["context"] = f"c{self.n}x ctx"
                self.emit(self.quote(site["context"]))

        def a_count() -> None:
            self.emit("count:" + self.ws())
            site["count"] = self.emit_count("tag", count_how)

        def a_you() -> None:
            self.emit("you:" + self.ws())
            if self.budget > 0 and self.ch.chance(25):
                self.emit_tstring(lambda: self.emit_T("translate-arg", 1))
            else:
                self.emit(self.quote("World"))

        if form in ("tag-ctx", "tag-ctx-plural", "tag-dynctx", "tag-emptyctx"):
            args.append(a_ctx)
        plural = form in ("tag-plural", "tag-ctx-plural")
        if plural:
            if count_how == "none" or (count_how is None and self.ch.chance(15)):
                site["count"] = ["none"]
            else:
                args.append(a_count)
        if form == "tag-vars" or self.lay.chance(0.3):
            args.append(a_you)
        if self.lay.rnd is not None:
            self.lay.rnd.shuffle(args)
        if args and self.lay.chance(0.1):
            self.emit(",")
        for i, arg in enumerate(args):
            self.emit(self.ws() if i == 0 else self.ows() + "," + self.ws())
            arg()
        self.tag_close()
        if form == "tag-empty":
            self.emit(self.lay.pick(["", " ", "\n"]))
        else:
            self.emit(self.lay.pick(["", " ", "\n", "\n    "]))
            site["literal_off"] = self.pos
            self.emit(self.message(sid).replace("%%", "%").replace('"', "").replace("\\", "/"))
            if form == "tag-vars" or self.lay.chance(0.3):
                self.emit(self.lay.pick([" ", ", ", "\n"]) + "{{" + self.ows() + "you" + self.ows() + "}}!")
            self.emit(self.lay.pick(["", " ", "\n", "\n  "]))
        if plural:
            self.emit("{%" + self.wc() + " plural " + self.wc() + "%}")
            self.emit(self.lay.pick(["", " ", "\n    "]))
            self.n += 1
            self.emit(f"Hellos p{self.n}x")
            if self.lay.chance(0.3):
                self.emit(" {{ you }} {{ count }}")
            self.emit(self.lay.pick(["", "\n"]))
        self.emit("{%" + self.wc() + " endtranslate " + self.wc() + "%}")

    # ------------------------------------------------------------ expressions

    def emit_tstring(self, inner: Callable[[], None], parts: int = 1) -> None:
        q = self.lay.pick(['"', "'"])
        txt = lambda s: self.quote(s, quote=q)[1:-1]  # noqa: E731
        self.emit(q + txt(self.lay.pick(["", "x ", "a\nb ", "it's "]) if self.lay.rnd is not None else ""))
        for _ in range(parts):
            self.emit("${" + self.ows())
            inner()
            self.emit(self.ows() + "}" + txt(self.lay.pick(["", " y", "\n"]) if self.lay.rnd is not None else ""))
        self.emit(q)

    def emit_E(self, place: str, depth: int) -> None:  # noqa: N802
        """primitive [| filters] holding (usually) one site."""
        if depth >= 2 or self.budget <= 1:
            kind = "site"
        else:
            kind = self.ch.pick(["site", "site", "site", "site", "tstring", "filter-arg", "dyn"])
        if kind == "site":
            self.emit_site(self.ch.pick(CLAIM_FORMS), place, depth)
        elif kind == "dyn":
            self.emit_site(self.ch.pick(DYN_FORMS), place, depth)
        elif kind == "tstring":
            self.emit_tstring(lambda: self.emit_T("tstring", depth + 1), parts=1 + int(self.ch.chance(20)))
            if self.lay.chance(0.3):
                self.emit(self.ws() + "|" + self.ws() + "strip")
        else:
            self.emit(self.quote("q") + self.ws() + "|" + self.ws() + "append:" + self.ws())
            self.emit_tstring(lambda: self.emit_T("filter-arg", depth + 1))

    def emit_T(self, place: str, depth: int, force: str | None = None) -> None:  # noqa: N802
        """E | E if cond [else E] [|| tail]."""
        tern = force or ("ternary" if depth < 2 and self.budget > 1 and self.ch.chance(25) else "plain")
        if tern == "plain":
            self.emit_E(place, depth)
            return
        b = self.newvar("b", [True, False])
        with self.branch(None, [[b, True]]):
            self.emit_E("ternary-left", depth + 1)
        self.emit(self.ws() + "if" + self.ws())
        self.cond(b)
        if self.ch.chance(85):
            self.emit(self.ws() + "else" + self.ws())
            with self.branch(None, [[b, False]]):
                self.emit_E("ternary-alt", depth + 1)
        if self.lay.chance(0.15):
            self.emit(self.ws() + "||" + self.ws() + "strip")

    def emit_tail_ternary(self) -> None:
        """`'A' if b else 'B' || t`: the operand of the tail filter is not a literal (outside the claim)."""
        b = self.newvar("b", [True, False])
        for i, val in enumerate((True, False)):
            with self.branch(None, [[b, val]]):
                site = self._site("t", "tail", "gettext", "ternary-tail", False, "tail-filter")
                site["id"] = self.uid("m")
                site["msgid"] = self.message(site["id"])
                self.emit(self.quote(site["msgid"]))
            if i == 0:
                self.emit(self.ws() + "if" + self.ws() + b + self.ws() + "else" + self.ws())
        self.emit(self.ws() + "||" + self.ws() + "t")

    # ------------------------------------------------------------ markup holding expression sites

    def output_open(self) -> None:
        if self.line_mode:
            self.tag_open("echo")
            self.emit(self.ws())
            return
        off = self.pos
        self.emit("{{" + self.wc() + self.ows())
        self.markup = (off, "output")

    def output_close(self) -> None:
        if self.line_mode:
            self.tag_close()
        else:
            self.emit((self.ows() or " ") + self.wc() + "}}")

    def place_site(self, place: str, inner: Callable[[str], None]) -> None:  # noqa: PLR0912, PLR0915
        """Emit one complete markup that holds `inner(place)` at position `place`."""
        if place in ("output", "tstring", "filter-arg", "site-arg", "ternary-left", "ternary-alt"):
            top = self.ch.pick(["output", "echo", "assign"])
        else:
            top = place
        if self.line_mode and top == "output":
            top = "echo"

        def body() -> None:
            if place in ("output", "echo", "assign"):
                inner(place)
            elif place == "tstring":
                self.emit_tstring(lambda: inner("tstring"))
            elif place == "filter-arg":
                self.emit(self.quote("q") + self.ws() + "|" + self.ws() + "append:" + self.ws())
                self.emit_tstring(lambda: inner("filter-arg"))
            elif place == "site-arg":
                site = self._site("t", "t-vars", "gettext", top, True)
                site["id"] = self.uid("m")
                site["msgid"] = self.message(site["id"]) + " %(you)s"
                self.emit(self.quote(site["msgid"]) + self.ws() + "|" + self.ws() + "t:" + self.ws() + "you:" + self.ws())
                self.emit_tstring(lambda: inner("site-arg"))
            elif place in ("ternary-left", "ternary-alt"):
                b = self.newvar("b", [True, False])
                if place == "ternary-left":
                    with self.branch(None, [[b, True]]):
                        inner(place)
                    self.emit(self.ws() + "if" + self.ws())
                    self.cond(b)
                    if self.lay.chance(0.6):
                        self.emit(self.ws() + "else" + self.ws() + self.quote("other"))
                else:
                    self.emit(self.quote("other") + self.ws() + "if" + self.ws())
                    self.cond(b)
                    self.emit(self.ws() + "else" + self.ws())
                    with self.branch(None, [[b, False]]):
                        inner(place)
                if self.lay.chance(0.2):
                    self.emit(self.ws() + "||" + self.ws() + "strip")

        if top == "output":
            self.output_open()
            body()
            self.output_close()
        elif top == "echo":
            self.tag_open("echo")
            self.emit(self.ws())
            body()
            self.tag_close()
        elif top == "assign":
            self.tag_open("assign")
            self.emit(self.ws() + f"v{self.n}" + self.ows() + "=" + self.ows())
            body()
            self.tag_close()
        elif top == "if-arg":
            self.tag_open("if")
            self.emit(self.ws())
            self.emit_tstring(lambda: inner("if-arg"))
            self.emit(self.ws() + "==" + self.ws() + self.quote("never"))
            self.tag_close()
            self.simple_tag("endif")
        elif top == "elsif-arg":
            b = self.newvar("b", [True, False])
            self.simple_tag("if", b)
            self.tag_open("elsif")
            self.emit(self.ws())
            with self.branch(None, [[b, False]]):
                self.emit_tstring(lambda: inner("elsif-arg"))
            self.emit(self.ws() + "==" + self.ws() + self.quote("never"))
            self.tag_close()
            self.simple_tag("endif")
        elif top == "with-arg":
            self.tag_open("with")
            self.emit(self.ws() + "w:" + self.ws())
            self.emit_tstring(lambda: inner("with-arg"))
            self.tag_close()
            self.text("{{ w }}")
            self.simple_tag("endwith")
        elif top == "call-arg":
            f = f"f{self.n + 1}"
            self.n += 1
            self.simple_tag("macro", f + " a")
            self.text("{{ a }}")
            self.simple_tag("endmacro")
            self.tag_open("call")
            self.emit(self.ws() + f + self.ws())
            self.emit_tstring(lambda: inner("call-arg"))
            self.tag_close()
        elif top == "macro-arg":
            f = f"f{self.n + 1}"
            self.n += 1
            self.tag_open("macro")
            self.emit(self.ws() + f + self.ws() + "a" + self.ows() + "=" + self.ows())
            self.emit_tstring(lambda: inner("macro-arg"))
            self.tag_close()
            self.text("{{ a }}")
            self.simple_tag("endmacro")
            self.simple_tag("call", f)
        elif top == "translate-arg":
            off = self.tag_open("translate")
            tsite = self._site("tag", "tag-vars", "gettext", "block", True)
            tsite["markup_off"] = off
            tsite["id"] = self.uid("m")
            self.emit(self.ws() + "you:" + self.ws())
            self.emit_tstring(lambda: inner("translate-arg"))
            self.tag_close()
            tsite["literal_off"] = self.pos
            self.emit(f"Hi {tsite['id']} " + "{{ you }}")
            self.emit("{% endtranslate %}")
        elif top == "cycle-arg":
            self.tag_open("cycle")
            self.emit(self.ws())
            self.emit_tstring(lambda: inner("cycle-arg"))
            self.emit(self.ows() + "," + self.ws() + self.quote("b"))
            self.tag_close()
        elif top == "case-arg":
            self.tag_open("case")
            self.emit(self.ws())
            self.emit_tstring(lambda: inner("case-arg"))
            self.tag_close()
            self.simple_tag("when", self.quote("never"))
            self.simple_tag("endcase")
        elif top == "when-arg":
            self.simple_tag("case", self.quote("subject"))
            self.tag_open("when")
            self.emit(self.ws())
            self.emit_tstring(lambda: inner("when-arg"))
            self.tag_close()
            self.simple_tag("endcase")
        else:  # pragma: no cover
            raise AssertionError(place)

    # ------------------------------------------------------------ block constructs

    def c_if(self, fill: Callable[[str], None], *, unless: bool = False, elsif: bool = False, els: bool = True) -> None:
        b = self.newvar("b", [True, False])
        self.tag_open("unless" if unless else "if")
        self.emit(self.ws())
        self.cond(b)
        self.tag_close()
        with self.branch("unless" if unless else "if", [[b, not unless]]):
            fill("unless" if unless else "if")
        rest = [[b, unless]]
        if elsif:
            b2 = self.newvar("b", [True, False])
            self.tag_open("elsif")
            self.emit(self.ws())
            self.cond(b2)
            self.tag_close()
            with self.branch("elsif", rest + [[b2, True]]):
                fill("elsif")
            rest = rest + [[b2, False]]
        if els:
            self.simple_tag("else")
            with self.branch("unless-else" if unless else "else", rest):
                fill("unless-else" if unless else "else")
        self.simple_tag("endunless" if unless else "endif")

    def c_for(self, fill: Callable[[str], None], *, ranged: bool = False, els: bool = True) -> None:
        if ranged:
            self.simple_tag("for", "i in (1..2)")
            with self.branch("for-range", []):
                fill("for-range")
            self.simple_tag("endfor")
            return
        a = self.newvar("a", [[1, 2], []])
        self.simple_tag("for", f"i in {a}")
        with self.branch("for", [[a, [1, 2]]]):
            fill("for")
        if els:
            self.simple_tag("else")
            with self.branch("for-else", [[a, []]]):
                fill("for-else")
        self.simple_tag("endfor")

    def c_case(self, fill: Callable[[str], None]) -> None:
        k = self.newvar("k", [1, 2, 3, 9])
        self.simple_tag("case", k)
        self.text(self.lay.pick(["", "\n", " \n "]) if self.lay.rnd is not None else "")
        self.simple_tag("when", "1")
        with self.branch("when", [[k, 1]]):
            fill("when")
        self.simple_tag("when", "2, 3")
        with self.branch("when2", [[k, self.lay.pick([2, 3])]]):
            fill("when2")
        self.simple_tag("else")
        with self.branch("case-else", [[k, 9]]):
            fill("case-else")
        self.simple_tag("endcase")

    def c_capture(self, fill: Callable[[str], None]) -> None:
        self.n += 1
        v = f"cap{self.n}"
        self.simple_tag("capture", v)
        with self.branch("capture", []):
            fill("capture")
        self.simple_tag("endcapture")
        if self.lay.chance(0.5):
            if self.line_mode:
                self.simple_tag("echo", v)
            else:
                self.emit("{{ " + v + " }}")

    def c_with(self, fill: Callable[[str], None]) -> None:
        self.simple_tag("with", "you: 'Sue', q: 1")
        with self.branch("with", []):
            fill("with")
        self.simple_tag("endwith")

    def c_macro(self, fill: Callable[[str], None]) -> None:
        self.n += 1
        f = f"f{self.n}"
        self.simple_tag("macro", f + self.lay.pick(["", " a", " a, b='x'"]) if self.lay.rnd is not None else f)
        with self.branch("macro", []):
            fill("macro")
        self.simple_tag("endmacro")
        self.text(self.lay.pick(["", "\n", " between "]) if self.lay.rnd is not None else "")
        self.simple_tag("call", f)

    def c_liquid(self, fill: Callable[[str], None]) -> None:
        assert not self.line_mode
        self.emit("{%" + self.wc() + self.lay.pick([" ", "", "\n"]) + "liquid")
        self.emit(self.lay.pick(["\n", "\n", " ", "\n\n"]) if self.lay.rnd is not None else "\n")
        self.line_mode = True
        try:
            with self.branch("liquid", []):
                fill("liquid")
        finally:
            self.line_mode = False
        self.emit(self.wc() + "%}")

    # ------------------------------------------------------------ random programs

    def gen_items(self, depth: int, lo: int = 1, hi: int = 3) -> None:
        for _ in range(self.ch.int(lo, hi)):
            self.gen_item(depth)

    def gen_site_markup(self, depth: int) -> None:
        if self.budget <= 0:
            self.text("no more ")
            if self.line_mode:
                self.simple_tag("echo", "'x'")
            return
        kinds = ["expr", "expr", "expr", "tag", "tagarg", "expr", "tag", "expr", "tagarg", "expr", "expr", "tail"]
        kind = self.ch.pick(kinds)
        if kind == "tag" and not self.line_mode:
            forms = list(TAG_FORMS)
            if "empty-context" in self.disabled:
                forms.remove("tag-emptyctx")
            self.emit_tag_site(self.ch.pick(forms))
        elif kind == "tagarg":
            places = ["if-arg"] if self.line_mode else [p for p in FILTER_PLACES if p.endswith("-arg") and p not in ("filter-arg", "site-arg")]
            self.place_site(self.ch.pick(places), lambda pl: self.emit_T(pl, 1))
        elif kind == "tail":
            self.output_open()
            self.emit_tail_ternary()
            self.output_close()
        else:
            top = self.ch.pick(["output", "echo", "assign"])
            if self.line_mode and top == "output":
                top = "echo"
            self.place_site(top, lambda pl: self.emit_T(pl, 0))

    def gen_comment(self) -> None:
        kind = self.ch.pick(["hash", "inline", "block"])
        self.comment(kind, self.ch.chance(75), self.ch.chance(20))

    def gen_item(self, depth: int) -> None:  # noqa: PLR0912
        leaf = ["site", "site", "site", "comment+site", "comment+site", "text", "comment", "plain"]
        blocks = ["if", "for", "case", "capture", "macro", "with", "unless", "liquid"]
        options = leaf + blocks if depth < 3 and self.budget > 0 else leaf
        kind = self.ch.pick(options)
        if kind == "liquid" and self.line_mode:
            kind = "if"
        fill = lambda _br: self.gen_items(depth + 1, 0 if self.ch.chance(25) else 1, 2)  # noqa: E731
        if kind == "site":
            self.gen_site_markup(depth)
            self.text(self.ch.pick(SEPS))
        elif kind == "comment+site":
            self.gen_comment()
            self.text(self.ch.pick(SEPS))
            if self.ch.chance(15):
                self.gen_comment()
                self.text(self.ch.pick(SEPS))
            self.gen_site_markup(depth)
            self.text(self.ch.pick(SEPS))
            if self.ch.chance(30):
                self.gen_site_markup(depth)
        elif kind == "text":
            self.text(self.ch.pick(TEXTS))
            if self.line_mode:
                self.simple_tag("assign", "q = 1")
        elif kind == "comment":
            self.gen_comment()
        elif kind == "plain":
            if self.line_mode:
                self.simple_tag(*self.ch.pick([("echo", "q"), ("assign", "q = 'plain' | upcase"), ("increment", "z")]))
            else:
                self.emit(self.ch.pick(["{{ q }}", "{% assign q = 1 %}", "{% raw %}\n{{ 'r' | t }}\n{% endraw %}",
                                        "{{ 'plain' | upcase }}", "{{\n q\n}}"]))
        elif kind in ("if", "unless"):
            self.c_if(fill, unless=kind == "unless", elsif=kind == "if" and self.ch.chance(30), els=self.ch.chance(60))
        elif kind == "for":
            self.c_for(fill, ranged=self.ch.chance(30), els=self.ch.chance(50))
        elif kind == "case":
            self.c_case(fill)
        elif kind == "capture":
            self.c_capture(fill)
        elif kind == "macro":
            self.c_macro(fill)
        elif kind == "with":
            self.c_with(fill)
        elif kind == "liquid":
            self.c_liquid(fill)

    # ------------------------------------------------------------ finish

    def data_sets(self, extra: int = 0, sweep_counts: bool = False) -> list[dict[str, Any]]:
        partial: list[dict[str, Any]] = []
        for site in self.sites:
            need = {k: v for k, v in site["path"]}
            for ds in partial:
                if all(ds.get(k, v) == v for k, v in need.items()):
                    ds.update(need)
                    break
            else:
                partial.append(dict(need))
        if not partial:
            partial.append({})
        count_vars = [v for v in self.vars if v.startswith("n")]
        out: list[dict[str, Any]] = []
        for ds in partial:
            full = dict(self.consts)
            for var, dom in self.vars.items():
                full[var] = ds[var] if var in ds else self.ch.pick(dom)
            out.append(full)
        if count_vars and sweep_counts:
            base = list(out)
            pool = max((self.vars[v] for v in count_vars), key=len)
            for i in range(1, len(pool)):
                for ds in base:
                    cp = dict(ds)
                    for v in count_vars:
                        dom = self.vars[v]
                        cp[v] = dom[i % len(dom)]
                    out.append(cp)
        elif count_vars:
            for _ in range(extra):
                cp = dict(out[self.ch.int(0, len(out) - 1)])
                for v in count_vars:
                    cp[v] = self.ch.pick(self.vars[v])
                out.append(cp)
        return out

    def finish(self, extra: int = 0, sweep_counts: bool = False) -> dict[str, Any]:
        src = "".join(self.out)
        line = lambda off: 1 + src.count("\n", 0, off)  # noqa: E731
        for s in self.sites:
            s["markup_line"] = line(s["markup_off"])
            s["literal_line"] = line(s["literal_off"])
        for c in self.comments:
            c["start_line"] = line(c["start"])
            c["end_line"] = line(max(c["end"] - 1, c["start"]))
        return {"src": src, "sites": self.sites, "comments": self.comments,
                "data": self.data_sets(extra, sweep_counts)}


# --------------------------------------------------------------------------- strategies / enumeration


@st.composite
def case_strategy(draw: Any, disabled: frozenset[str]) -> dict[str, Any]:
    ch = HypChooser(draw)
    r = ch.int(0, 199)
    if r == 199 and "empty-template" not in disabled:
        return {"src": "", "sites": [], "comments": [], "data": [{}]}
    if r >= 196:
        return {"src": ch.pick(TEXTS + ["just text", "a\nb\nc"]), "sites": [], "comments": [], "data": [{}]}
    b = Builder(ch, ch.int(0, 100000), disabled, max_sites=ch.int(2, 9))
    b.text(ch.pick(TEXTS))
    b.gen_items(0, 2, 5)
    return b.finish(extra=ch.int(0, 2))


def nest_wrap(b: Builder, nest: str, body: Callable[[], None]) -> None:  # noqa: PLR0912
    """Put `body()` into the branch `nest`; every other branch gets plain content."""
    if "/" in nest:
        outer, inner = nest.split("/", 1)
        nest_wrap(b, outer, lambda: nest_wrap(b, inner, body))
        return

    def fill(br: str) -> None:
        if br == target:
            body()
        elif b.line_mode:
            b.simple_tag("echo", "'other'")
        else:
            b.text("other ")

    target = nest
    if nest == "top":
        body()
    elif nest in ("if", "elsif", "else"):
        b.c_if(fill, elsif=True, els=True)
    elif nest in ("unless", "unless-else"):
        b.c_if(fill, unless=True)
    elif nest in ("for", "for-else"):
        b.c_for(fill)
    elif nest == "for-range":
        b.c_for(fill, ranged=True)
    elif nest in ("when", "when2", "case-else"):
        b.c_case(fill)
    elif nest == "capture":
        b.c_capture(fill)
    elif nest == "with":
        b.c_with(fill)
    elif nest == "macro":
        b.c_macro(fill)
    elif nest.startswith("liquid"):
        sub = nest[7:] or "top"
        target = "liquid"
        b.c_liquid(lambda _br: nest_wrap(b, sub, body))
    else:  # pragma: no cover
        raise AssertionError(nest)


def build_enum(idx: int, lay: int, form: str, place: str, nest: str, disabled: frozenset[str],
               comment: tuple[str, bool, bool, str] | None = None) -> dict[str, Any]:
    b = Builder(RandChooser(idx), lay, disabled, max_sites=50)
    b.text("intro\n")

    def body() -> None:
        if comment is not None:
            kind, prefix, multi, sep = comment
            b.comment(kind, prefix, multi)
            b.text(sep)
        if form in TAG_FORMS:
            if b.line_mode:
                b.simple_tag("echo", "'no tag here'")
            else:
                b.emit_tag_site(form, count_how="var" if "plural" in form else None)
        else:
            pl = place
            if b.line_mode and pl not in LINE_PLACES:
                pl = "echo"
            plural = FILTER_FORMS[form][1] in ("ngettext", "npgettext")
            b.place_site(pl, lambda p: b.emit_site(form, p, 2, "var" if plural else None))

    nest_wrap(b, nest, body)
    # a second, different-family site so that the case can be non-trivial
    b.text("\n")
    fam = FILTER_FORMS[form][1] if form in FILTER_FORMS else TAG_FORMS[form][0]
    other = "t" if fam == "pgettext" else "pgettext"
    b.place_site("output", lambda p: b.emit_site(other, p, 2))
    b.text("\nend")
    return b.finish(sweep_counts=True)


def _witnesses() -> dict[str, dict[str, Any]]:
    """One minimal case per generator flag (the shape that flag switches off); replayed by the
    runner as known-finding witnesses and always part of the enumerated cases."""
    out: dict[str, dict[str, Any]] = {"empty-template": {"src": "", "sites": [], "comments": [], "data": [{}]}}

    def one(fn: Callable[[Builder], None]) -> dict[str, Any]:
        b = Builder(RandChooser(0), 0, frozenset(), max_sites=9)
        fn(b)
        return b.finish()

    def zero(b: Builder) -> None:
        b.emit_tag_site("tag-plural", count_how="var")
        b.text("\n")
        b.place_site("output", lambda p: b.emit_site("t-plural", p, 2, "var"))
        for name in b.vars:
            b.vars[name] = [0]

    def t_plural(how: str, value: Any) -> Callable[[Builder], None]:
        def fn(b: Builder) -> None:
            b.place_site("output", lambda p: b.emit_site("t-plural", p, 2, how))
            for name in b.vars:
                b.vars[name] = [value]
        return fn

    def multiline(b: Builder) -> None:
        b.comment("hash", True, True)
        b.text("\n")
        b.place_site("output", lambda p: b.emit_site("t", p, 2))

    def infix(b: Builder) -> None:
        b.tag_open("if")
        b.emit(" ")
        b.emit_tstring(lambda: b.emit_site("t", "if-arg", 2))
        b.emit(" == 'never'\n\n or q")
        b.tag_close()
        b.simple_tag("endif")

    out["count-zero"] = one(zero)
    out["count-one"] = one(t_plural("var", 1))
    out["count-nil"] = one(t_plural("none", None))
    out["empty-context"] = one(lambda b: b.emit_tag_site("tag-emptyctx"))
    out["multiline-comment"] = one(multiline)
    out["infix-lineno"] = one(infix)
    return out


WITNESSES = _witnesses()


def enumerate_cases(disabled: frozenset[str]) -> Iterator[dict[str, Any]]:
    for flag in FLAGS:
        if flag not in disabled:
            yield WITNESSES[flag]
    yield {"src": "just text\n", "sites": [], "comments": [], "data": [{}]}
    idx = 0
    combos: list[tuple[str, str, str]] = []
    for form in list(FILTER_FORMS):
        for place in FILTER_PLACES:
            combos.append((form, place, "top"))
            combos.append((form, place, "capture"))
        for nest in NESTS:
            combos.append((form, "output", nest))
    for place in FILTER_PLACES:
        for nest in NESTS:
            combos.append(("t", place, nest))
            combos.append(("t-ctx-plural", place, nest))
    for form in TAG_FORMS:
        for nest in NESTS:
            if not nest.startswith("liquid"):
                combos.append((form, "block", nest))
    seen = set()
    for lay in (0, 11):
        for combo in combos:
            if (lay, combo) in seen:
                continue
            seen.add((lay, combo))
            idx += 1
            yield build_enum(idx, lay, *combo, disabled)
    # comments at controlled distances before each kind of message
    for lay in (0, 13):
        for kind in ("hash", "inline", "block"):
            for prefix in (True, False):
                for multi in (False, True):
                    for sep in ("", " ", "\n", "\n\n", "\n \n\n", " text ", "\ntext\n", "{{ q }}", "\n{% assign q = 1 %}\n"):
                        for form in ("t", "npgettext", "tag-plural", "tag"):
                            for nest in ("top", "if", "liquid"):
                                idx += 1
                                yield build_enum(idx, lay, form, "output", nest, disabled, (kind, prefix, multi, sep))


# --------------------------------------------------------------------------- oracle helpers


class LoggingTranslations:
    """Records every catalog lookup; returns the message unchanged (singular / plural by n)."""

    def __init__(self) -> None:
        self.calls: list[tuple[str, str | None, str, str | None, Any]] = []

    def gettext(self, message: str) -> str:
        self.calls.append(("gettext", None, message, None, None))
        return message

    def ngettext(self, singular: str, plural: str, n: int) -> str:
        self.calls.append(("ngettext", None, singular, plural, n))
        return singular if n == 1 else plural

    def pgettext(self, context: str, message: str) -> str:
        self.calls.append(("pgettext", context, message, None, None))
        return message

    def npgettext(self, context: str, singular: str, plural: str, n: int) -> str:
        self.calls.append(("npgettext", context, singular, plural, n))
        return singular if n == 1 else plural


FAMILY_ALIAS = {"t": "gettext", "trans": "gettext", "translate": "gettext", "gettext": "gettext",
                "ngettext": "ngettext", "pgettext": "pgettext", "npgettext": "npgettext"}


def normalise(funcname: str, message: Any) -> tuple[str, str | None, str, str | None] | None:
    """(family, context, msgid, plural) of an extracted MessageTuple according to the argument
    spec `DEFAULT_KEYWORDS` gives its funcname; None when the shape does not fit the spec."""
    if funcname not in DEFAULT_KEYWORDS or funcname not in FAMILY_ALIAS:
        return None
    family = FAMILY_ALIAS[funcname]
    if isinstance(message, str):
        message = (message,)
    if not isinstance(message, (tuple, list)):
        return None
    try:
        if family == "gettext":
            (msgid,) = message
            out = (family, None, msgid, None)
        elif family == "ngettext":
            msgid, plural = message
            out = (family, None, msgid, plural)
        elif family == "pgettext":
            (ctx, mark), msgid = message
            out = (family, ctx, msgid, None) if mark == "c" else None
        else:
            (ctx, mark), msgid, plural = message
            out = (family, ctx, msgid, plural) if mark == "c" else None
    except (TypeError, ValueError):
        return None
    if out is None or not all(isinstance(x, str) or x is None for x in out):
        return None
    return out  # type: ignore[return-value]


def count_class(site: dict[str, Any], data: dict[str, Any]) -> str:
    cnt = site.get("count")
    if cnt is None:
        return ""
    if cnt[0] == "none":
        return "nil"
    val = cnt[1] if cnt[0] == "lit" else data.get(cnt[1])
    if val is None:
        return "nil"
    if val in (0, "0") and not isinstance(val, bool):
        return "zero"
    if val in (1, "1") and not isinstance(val, bool):
        return "one"
    return "other"


def site_label(site: dict[str, Any]) -> str:
    return f"{site['kind']}@{site['place']}/{site['nest'][-1] if site['nest'] else 'top'}"


# --------------------------------------------------------------------------- the property


class C15(Prop):
    id = "C15"
    title = "Message extraction covers every catalog lookup a render can make"
    technique = ("property-based testing: differential oracle between lookups logged by an instrumented "
                 "Translations double at render time and extract_from_template / extract_from_templates")
    rule = (
        "multi-line programs from a dedicated generator mixing translate blocks (+-plural, +-literal/dynamic/empty "
        "context, count literal/variable/absent, message variables) and the t/gettext/ngettext/pgettext/npgettext "
        "filters on literal and non-literal operands, placed in outputs, echo, assign, both ternary branches, "
        "template-string interpolations, filter arguments, tag arguments (if/elsif/with/call/macro/translate/cycle/"
        "case/when) and liquid-tag lines, nested in if/elsif/else/unless/for/else/case/capture/with/macro/liquid, "
        "with comments of three kinds (+-'Translators:', single/multi-line) at varying distances; data sets toggle "
        "every branch and drive counts through {0,1,2,5,'3',nil}; plus an enumerated form x place x nest matrix, "
        "the empty template and text-only templates. Non-trivial: >= 2 literal sites of different gettext families, "
        ">= 1 of them inside a nested construct (block, ternary, template string or argument), and every literal "
        "site looked up at least once over the data sets; distinct by SHA-1 of the case"
    )
    assumptions = [
        "a lookup is attributed to its site through a unique token in the message id; lookups whose operand, "
        "plural or context is not a string literal (or whose translation filter is not the first filter, or is a "
        "tail filter of a ternary) are outside the claim and only counted",
        "function families are compared modulo the funcname aliases of DEFAULT_KEYWORDS (t/trans/translate = gettext)",
        "a reported line number is accepted when it lies between the line of the markup's start and the line of "
        "the message literal's start (this includes the line of the enclosing top-level expression)",
        "comment attachment: only 'attached comment = nearest preceding Translators: comment, no other extracted "
        "message (of another markup) in between, not attached twice' and 'a Translators: comment separated from a "
        "single-line translatable markup by at most one newline is attached' are asserted",
        "line numbers count '\\n' (generated sources contain no other line boundary recognised by str.splitlines)",
        "render errors (LiquidError or otherwise) are not failures of this property; lookups made before them count",
    ]
    batch = 300

    def n_random(self, tier: str) -> int:
        return 14000 if tier == "quick" else 250000

    def budget_s(self, tier: str) -> float:
        return 240 if tier == "quick" else 3000

    def strategy(self, tier: str, disabled: frozenset[str]):
        return case_strategy(disabled)

    def enumerate(self, tier: str, disabled: frozenset[str]):
        return enumerate_cases(disabled)

    def sample(self, case: Any) -> Any:
        return {"src": case["src"][:400], "sites": len(case["sites"]), "data_sets": len(case["data"])}

    # ------------------------------------------------------------------

    def check(self, case: Any, disabled: frozenset[str] = frozenset()) -> Result:  # noqa: PLR0912, PLR0915
        res = Result()
        res.evaluations = 0
        src: str = case["src"]
        sites: dict[str, dict[str, Any]] = {s["id"]: s for s in case["sites"]}
        comments: dict[str, dict[str, Any]] = {c["id"]: c for c in case["comments"]}
        if src == "" and "empty-template" in disabled:
            res.excluded.append("empty-template")
            return res

        # a third of the cases render under auto-escape: literal messages are markup there, and the catalog must
        # still be asked for the text as written (and as extracted), in both render modes
        env = Environment(auto_escape=len(src) % 3 == 0)
        try:
            tmpl = env.from_string(src)
        except LiquidError as err:
            res.labels.append("unparsable:" + type(err).__name__)
            return res
        res.labels.append("parsed")

        # ---- 1. extraction never raises on a template that parsed
        res.evaluations += 1
        try:
            raw = list(extract_from_template(tmpl))
        except RecursionError:
            return res
        except Exception as err:  # noqa: BLE001
            res.fail("extract-never-raises", "extract-raises:" + exc_bucket(err),
                     f"extract_from_template: {type(err).__name__}: {err}; src={src!r}")
            return res
        catalog = None
        res.evaluations += 1
        try:
            catalog = extract_from_templates(tmpl)
        except Exception as err:  # noqa: BLE001
            res.fail("extract-never-raises", "extract-templates-raises:" + exc_bucket(err),
                     f"extract_from_templates: {type(err).__name__}: {err}; src={src!r}")

        # ---- 1b. several templates in one call: a translator comment that nothing follows in one template is
        # not attached to a message of the next one
        if raw:
            res.evaluations += 1
            try:
                stray = env.from_string("intro\n{# Translators: kSTRAYx note #}")
                multi = extract_from_templates(stray, tmpl, env.from_string("{# Translators: kSTRAYx note #}"), tmpl)
                for message in multi:
                    if any("kSTRAYx" in c for c in (message.auto_comments or [])):
                        res.fail("comments", "comment-misattached:other-template",
                                 f"extract_from_templates(stray, template, ...): the trailing comment of another template "
                                 f"is attached to {message.id!r}; src={src!r}")
                        break
            except RecursionError:
                pass
            except Exception as err:  # noqa: BLE001
                res.fail("extract-never-raises", "extract-templates-raises:" + exc_bucket(err),
                         f"extract_from_templates with several templates: {type(err).__name__}: {err}; src={src!r}")

        # ---- 2. index the extracted messages by site
        by_site: dict[str, list[tuple[tuple[str, str | None, str, str | None], Any]]] = {}
        ordered: list[tuple[str | None, Any]] = []
        for m in raw:
            norm = normalise(m.funcname, m.message)
            if norm is None:
                res.fail("extract-shape", f"extract-malformed:{m.funcname}",
                         f"message {m.message!r} does not fit the argument spec of {m.funcname!r}; src={src!r}")
                ordered.append((None, m))
                continue
            tok = TOKEN_RE.search(norm[2])
            sid = tok.group() if tok else None
            ordered.append((sid, m))
            if sid is not None:
                by_site.setdefault(sid, []).append((norm, m))

        # ---- 3. render over the data sets, compare every lookup of a literal site
        executed: set[str] = set()
        seen: set[tuple[Any, ...]] = set()
        for i, data in enumerate(case["data"]):
            log = LoggingTranslations()
            res.evaluations += 1
            try:
                if i % 3 == 2:
                    run_coro(tmpl.render_async(translations=log, **data))
                else:
                    tmpl.render(translations=log, **data)
            except LiquidError as err:
                res.labels.append("render-error:" + type(err).__name__)
            except RecursionError:
                pass
            except Exception as err:  # noqa: BLE001 - C02's business
                res.labels.append("render-crash:" + exc_bucket(err))
            for func, ctx, msgid, plural, _n in log.calls:
                tok = TOKEN_RE.search(msgid) if isinstance(msgid, str) else None
                site = sites.get(tok.group()) if tok else None
                if site is None:
                    res.labels.append("lookup:dynamic")
                    continue
                executed.add(site["id"])
                if not site["claim"]:
                    res.labels.append("lookup:outside-claim:" + site["why"])
                    continue
                cls = count_class(site, data)
                key = (site["id"], func, ctx, msgid, plural, cls)
                if key in seen:
                    continue
                seen.add(key)
                want = (func, None if ctx is None else str(ctx), str(msgid), None if plural is None else str(plural))
                got = by_site.get(site["id"], [])
                hit = next((m for norm, m in got if norm == want), None)
                where = site_label(site)
                if hit is None:
                    suffix = ""
                    if site["count"] is not None:
                        suffix = ":count=" + cls
                    elif site["form"] == "tag-emptyctx":
                        suffix = ":empty-context"
                    flag = {":count=zero": "count-zero", ":count=one": "count-one", ":count=nil": "count-nil",
                            ":empty-context": "empty-context"}.get(suffix)
                    if flag is not None and flag in disabled and (flag != "count-one" or site["kind"] == "t") \
                            and (flag != "count-nil" or site["kind"] == "t"):
                        res.excluded.append(flag)
                        continue
                    detail = (f"render looked up {func}(context={ctx!r}, msgid={msgid!r}, plural={plural!r}) for the "
                              f"{site['form']} site at line {site['markup_line']} ({where}, data={_short(data)}); "
                              f"extracted for that site: {[(m.lineno, m.funcname, m.message) for _, m in got]!r}; "
                              f"src={src!r}")
                    if not got:
                        res.fail("coverage", f"missed:{func}:{self._culprit(site, case['sites'], by_site)}", detail)
                    else:
                        same_ids = [norm for norm, _ in got if norm[2] == want[2]]
                        fams = sorted({norm[0] for norm in same_ids if norm[0] != func})
                        if fams:
                            res.fail("coverage", f"family-mismatch:{func}-vs-{fams[0]}:{site['kind']}{suffix}", detail)
                        else:
                            res.fail("coverage", f"msgid-mismatch:{func}:{site['kind']}{suffix}", detail)
                    continue
                lo, hi = site["markup_line"], site["literal_line"]
                if not (lo <= hit.lineno <= hi) and "infix-lineno" in disabled and site["markup"] in ("if", "elsif"):
                    res.excluded.append("infix-lineno")
                elif not (lo <= hit.lineno <= hi):
                    res.fail("lineno", f"lineno:{site['markup']}",
                             f"extracted lineno={hit.lineno} for {msgid!r}; markup starts on line {lo}, the literal "
                             f"on line {hi} ({where}); src={src!r}")
                elif hit.lineno not in (lo, hi):
                    res.labels.append("lineno:interior")
                if catalog is not None and msgid:
                    self._check_catalog(catalog, func, ctx, msgid, plural, hit.lineno, site, src, res)

        # ---- 4. translator comments
        self._check_comments(ordered, sites, comments, src, disabled, res)

        # ---- 5. bookkeeping
        claim = [s for s in case["sites"] if s["claim"]]
        for flag, kinds in (("count-zero", ("t", "tag")), ("count-one", ("t",)), ("count-nil", ("t",))):
            if flag in disabled and flag not in res.excluded and any(s["count"] is not None and s["count"][0] == "var" and s["kind"] in kinds
                                        for s in claim):
                res.excluded.append(flag)  # the value is missing from this case's count pool
        fams = {s["family"] for s in claim}
        nested = any(s["nest"] or s["place"] not in ("output", "echo", "assign", "block") for s in claim)
        all_run = all(s["id"] in executed for s in claim)
        res.nontrivial = len(claim) >= 2 and len(fams) >= 2 and nested and all_run
        if claim and not all_run:
            res.labels.append("some-site-not-executed")
        for s in case["sites"]:
            res.labels.append(("site:" if s["claim"] else "site-outside-claim:") + s["form"])
            if s["claim"]:
                res.labels.append("place:" + s["place"])
                res.labels.append("nest:" + (s["nest"][-1] if s["nest"] else "top"))
        for c in case["comments"]:
            res.labels.append(f"comment:{c['kind']}:{'prefix' if c['prefix'] else 'plain'}")
        return res

    # ------------------------------------------------------------------

    @staticmethod
    def _culprit(site: dict[str, Any], all_sites: list[dict[str, Any]], by_site: dict[str, Any]) -> str:
        """Name the likely root cause of a missed site: the tightest enclosing construct under which
        *every* literal site (at least two) is missing from the extraction, else the site's own
        expression position and innermost construct."""
        chain = site["nest"]

        def group(i: int) -> list[str]:
            return [s["id"] for s in all_sites if s["claim"] and s["nest"][:i] == chain[:i]]

        for i in range(1, len(chain) + 1):
            ids = group(i)
            if len(ids) >= 2 and not any(sid in by_site for sid in ids):
                # tightest construct that still explains the same set of missing sites
                while i < len(chain) and group(i + 1) == ids:
                    i += 1  # noqa: PLW2901
                return f"{site['kind']}@*/{chain[i - 1]}"
        return site_label(site)

    def _check_catalog(self, catalog: Any, func: str, ctx: Any, msgid: str, plural: Any, lineno: int,
                       site: dict[str, Any], src: str, res: Result) -> None:
        """extract_from_templates (the documented entry point) reports the same message, plural,
        context and line as extract_from_template."""
        try:
            entry = catalog.get(msgid, context=ctx)
        except Exception as err:  # noqa: BLE001
            res.fail("catalog", f"catalog-get-raises:{type(err).__name__}", f"{err}; src={src!r}")
            return
        if entry is None:
            res.fail("catalog", f"catalog-missing:{func}:{site['kind']}",
                     f"extract_from_templates has no entry for msgid={msgid!r} context={ctx!r}; src={src!r}")
            return
        is_plural = isinstance(entry.id, (tuple, list))
        if is_plural != (plural is not None) or (is_plural and entry.id[1] != plural):
            res.fail("catalog", f"catalog-plural:{func}:{site['kind']}",
                     f"catalog entry id={entry.id!r}, lookup plural={plural!r}; src={src!r}")
        elif not any(ln == lineno for _name, ln in entry.locations):
            res.fail("catalog", f"catalog-lineno:{site['kind']}",
                     f"catalog locations {entry.locations!r}, extract_from_template says line {lineno}; src={src!r}")

    def _check_comments(self, ordered: list[tuple[str | None, Any]], sites: dict[str, dict[str, Any]],
                        comments: dict[str, dict[str, Any]], src: str, disabled: frozenset[str],
                        res: Result) -> None:
        attached: dict[str, list[str]] = {}  # comment id -> site ids of the messages carrying it
        msg_sites = [sites[sid] for sid, _m in ordered if sid in sites]
        for sid, m in ordered:
            for text in m.comments:
                tok = COMMENT_RE.search(text)
                c = comments.get(tok.group()) if tok else None
                if c is None:
                    if sites:
                        res.fail("comments", "comment-misattached:unknown-text", f"comment {text!r} on {m!r}; src={src!r}")
                    continue
                res.labels.append("comment-attached:" + c["kind"])
                kind = c["kind"]
                if not c["prefix"] or not text.startswith("Translators:"):
                    res.fail("comments", f"comment-misattached:no-prefix:{kind}",
                             f"comment {text!r} has no 'Translators:' prefix but is attached to {m.message!r}; src={src!r}")
                    continue
                site = sites.get(sid) if sid else None
                if site is None:
                    continue
                attached.setdefault(c["id"], []).append(site["id"])
                if c["start"] >= site["markup_off"]:
                    res.fail("comments", f"comment-misattached:after:{kind}",
                             f"comment {c['id']} at offset {c['start']} does not precede the markup at "
                             f"{site['markup_off']} of {m.message!r}; src={src!r}")
                    continue
                if site["markup_line"] - c["end_line"] > 1:
                    res.fail("comments", f"comment-misattached:not-immediate:{kind}",
                             f"comment {c['id']} ends on line {c['end_line']} but is attached to {m.message!r}, whose "
                             f"markup only starts on line {site['markup_line']}; src={src!r}")
                    continue
                nearer = [o for o in comments.values()
                          if o["prefix"] and c["start"] < o["start"] < site["markup_off"]]
                if nearer:
                    res.fail("comments", f"comment-misattached:not-nearest:{kind}",
                             f"comment {c['id']} attached to {m.message!r} although {nearer[0]['id']} is nearer; src={src!r}")
                between = [s for s in msg_sites
                           if s["markup_off"] != site["markup_off"] and c["start"] < s["markup_off"] < site["markup_off"]]
                if between:
                    res.fail("comments", f"comment-misattached:message-between:{kind}",
                             f"comment {c['id']} attached to {m.message!r} (line {m.lineno}) although the message of "
                             f"site {between[0]['id']} (line {between[0]['markup_line']}) lies in between; src={src!r}")
        for cid, sids in attached.items():
            if len(sids) > 1:
                res.fail("comments", f"comment-reused:{comments[cid]['kind']}",
                         f"comment {cid} is attached to {len(sids)} messages (sites {sids}); src={src!r}")

        # a Translators: comment immediately preceding a (single-line) translatable markup is attached
        starts: dict[int, list[dict[str, Any]]] = {}
        for s in sites.values():
            starts.setdefault(s["markup_off"], []).append(s)
        extracted_ids = {sid for sid, _m in ordered if sid}
        for c in comments.values():
            if not c["prefix"] or c["liquid"]:
                continue
            j = c["end"]
            while j < len(src) and src[j] in " \t\r\n":
                j += 1
            here = starts.get(j)
            if not here or src.count("\n", c["end"], j) > 1:
                continue
            if any(s["markup"] not in ("output", "echo", "assign", "translate") for s in here):
                continue
            if any(s["literal_line"] != s["markup_line"] or not s["claim"] or s["id"] not in extracted_ids for s in here):
                continue
            if c["id"] in attached:
                continue
            multi = c["start_line"] != c["end_line"]
            if multi and "multiline-comment" in disabled:
                res.excluded.append("multiline-comment")
                continue
            res.fail("comments", f"comment-dropped:{c['kind']}" + (":multiline" if multi else ""),
                     f"'Translators:' comment {c['id']} (lines {c['start_line']}..{c['end_line']}) immediately precedes "
                     f"the {here[0]['markup']} markup on line {here[0]['markup_line']} but is attached to no message; "
                     f"src={src!r}")


def _short(data: dict[str, Any]) -> str:
    return repr({k: v for k, v in sorted(data.items()) if not isinstance(v, str) or not v.startswith("dynamic ")})[:200]


PROP = C15()
