"""C16 - strict undefined raises only for missing data and refines the default policy."""

from __future__ import annotations

import copy
import re
from collections.abc import Mapping
from collections.abc import Sequence
from typing import Any

from hypothesis import strategies as st

from lv.core.runner import Prop
from lv.core.runner import Result
from lv.core.runner import exc_bucket
from lv.gen.grammar import Cfg
from lv.gen.grammar import data_strategy
from lv.gen.grammar import program_strategy
from lv.gen.printer import to_source
from lv.harness.envs import make_env
from lv.harness.envs import run_coro

from liquid2 import FalsyStrictUndefined
from liquid2 import RenderContext
from liquid2 import StrictUndefined
from liquid2 import Undefined
from liquid2.exceptions import LiquidError
from liquid2.exceptions import UndefinedError

CFG = Cfg(confusion=0.0, wc_rate=0.0, shopify=True, tablerow=True, budget=10, max_depth=3, comments=False, raw=False)

FACTORY_LOG: list[str] = []


def _recording(base: Any) -> Any:
    """A subclass of an undefined policy that logs every instance the engine creates
    (path lookups, missing macros / macro arguments, parentloop, block.super ...)."""

    class Recording(base):  # type: ignore[misc, valid-type]
        def __init__(self, path: str, **kwargs: Any) -> None:
            super().__init__(path, **kwargs)
            FACTORY_LOG.append(str(path))

    Recording.__name__ = base.__name__
    Recording.__qualname__ = base.__qualname__
    return Recording


POLICIES = {"default": _recording(Undefined), "strict": _recording(StrictUndefined),
            "falsy": _recording(FalsyStrictUndefined)}


@st.composite
def complete_data(draw: Any) -> dict[str, Any]:
    """Data in which every path the generator can reference is bound."""
    d = draw(data_strategy())
    word = st.sampled_from(["apple", "Banana", "x", "a b", "10", "é", ""])
    d["z"] = None
    d["key"] = draw(st.sampled_from(["title", "price", "name", "qty", "tags"]))
    d["idx"] = draw(st.integers(-2, 3))
    d["n"] = draw(st.integers(-3, 12))
    for name, el in (("nums", st.integers(-3, 12)), ("words", word)):
        while len(d[name]) < 4:
            d[name] = d[name] + [draw(el)]
    d["grid"] = [[draw(st.integers(0, 9)) for _ in range(3)] for _ in range(4)]
    items = list(d["items"])
    while len(items) < 4:
        items.append({})
    for it in items:
        it.setdefault("title", draw(word))
        it.setdefault("price", draw(st.integers(0, 20)))
        it.setdefault("tags", [draw(word)])
        it.setdefault("ok", draw(st.sampled_from([True, False, None])))
        it.setdefault("qty", draw(st.integers(-2, 5)))
        it.update({"name": draw(word)})
    d["items"] = items
    u = d["user"]
    u.setdefault("address", {"city": draw(word), "zip": "1"})
    u.setdefault("first", draw(word))
    u.setdefault("size", draw(st.integers(0, 5)))
    for k in ("title", "price", "qty", "tags"):
        u.setdefault(k, draw(word))
    return d


@st.composite
def case_strategy(draw: Any) -> dict[str, Any]:
    return {
        "prog": draw(program_strategy(CFG)),
        "layout": draw(st.integers(0, 3)),
        "data": draw(complete_data()),
        "multi": draw(st.lists(st.integers(0, 30), max_size=3)),
        "mode": draw(st.sampled_from(["sync", "sync", "async"])),
    }


def paths_of(node: Any, out: list[tuple[str, tuple[Any, ...]]]) -> None:
    """All ["path", root, segs] occurrences in a JSON AST."""
    if isinstance(node, list):
        if len(node) == 3 and node[0] == "path" and isinstance(node[1], str) and isinstance(node[2], list):
            segs = []
            for seg in node[2]:
                if seg[0] == "n":
                    segs.append(seg[1])
                elif seg[0] in ("i", "si"):
                    segs.append(seg[1])
                else:
                    segs.append(None)
                    paths_of(seg[1], out)
            out.append((node[1], tuple(segs)))
        else:
            for x in node:
                paths_of(x, out)
    elif isinstance(node, dict):
        for v in node.values():
            paths_of(v, out)


def deletions(prog: dict[str, Any], data: dict[str, Any]) -> list[list[Any]]:
    """Deletion candidates: a referenced root, or a referenced property of a hash."""
    found: list[tuple[str, tuple[Any, ...]]] = []
    paths_of(prog, found)
    cands: list[list[Any]] = []
    for root, segs in sorted(set(found), key=repr):
        if root not in data:
            continue
        if [root] not in cands:
            cands.append([root])
        names = [s for s in segs if isinstance(s, str) and s not in ("size", "first", "last")]
        if names:
            c = [root, names[0]]
            if c not in cands:
                cands.append(c)
    return cands


def delete(data: dict[str, Any], cand: list[Any]) -> dict[str, Any]:
    d = copy.deepcopy(data)
    if len(cand) == 1:
        d.pop(cand[0], None)
        return d
    root, prop = cand
    obj = d.get(root)
    if isinstance(obj, dict):
        obj.pop(prop, None)
    elif isinstance(obj, list):
        for it in obj:
            if isinstance(it, dict):
                it.pop(prop, None)
    return d


_MISSING = object()
RE_UNDEF_REPR = re.compile(r"(?:Falsy)?StrictUndefined\(")


def _root_of(path: list[Any]) -> str:
    head = path[0] if path else ""
    return re.split(r"[.\[]", str(head), maxsplit=1)[0]


def _mentions(text: str, name: str) -> bool:
    return bool(name) and re.search(r"(?<![\w-])" + re.escape(name) + r"(?![\w-])", text) is not None


def _scope_get(scope: Any, key: Any) -> Any:
    """The innermost layer that has `key` decides - a nil binding is a binding.  Walks the layers of the
    engine's chain maps itself instead of trusting their `__getitem__`."""
    maps = getattr(scope, "_maps", None)
    if maps is None:
        maps = getattr(scope, "maps", None)  # collections.ChainMap
    if maps is not None:
        for m in list(maps):
            got = _scope_get(m, key)
            if got is not _MISSING:
                return got
        return _MISSING
    try:
        if isinstance(scope, dict):
            return scope[key] if key in scope else _MISSING
        return scope[key]
    except (KeyError, TypeError, IndexError):
        return _MISSING


def ref_lookup(scope: Any, path: list[Any]) -> Any:
    """Independent resolution of a path (str/int segments) in the render scope."""
    obj = _scope_get(scope, path[0])
    if obj is _MISSING:
        return _MISSING
    if isinstance(obj, Undefined):
        return _MISSING  # an undefined value bound to a name (e.g. passed as an argument) propagates
    for seg in path[1:]:
        if hasattr(seg, "__liquid__"):
            seg = seg.__liquid__()
        got = _MISSING
        if isinstance(obj, Mapping):
            try:
                got = obj[seg]
            except (KeyError, TypeError, IndexError):
                got = _MISSING
            if got is _MISSING:
                if seg == "size":
                    got = len(obj)
                elif seg == "first" and len(obj):
                    got = next(iter(obj.items()))
        elif isinstance(obj, (Sequence, range)) or isinstance(obj, str):
            if isinstance(seg, int) and not isinstance(seg, bool):
                try:
                    got = obj[seg]
                except IndexError:
                    got = _MISSING
            elif seg == "size":
                got = len(obj)
            elif seg == "first" and not isinstance(obj, str) and len(obj):
                got = obj[0]
            elif seg == "last" and not isinstance(obj, str) and len(obj):
                got = obj[-1]
        if got is _MISSING or isinstance(got, Undefined):
            return _MISSING
        obj = got
    return obj


PROBE_DATA = {"fa": [False, 0], "na": [None, 1], "a": ["x", "y", "z"], "h": {"k": 1, "x": "v"}, "s": "xyz", "n": 3,
              "items": [{"k": 1}, {"k": None}, {}]}
PROBE_PARTIALS = {"p": "[{{ q }}|{{ p }}]", "silent": "ok"}
PROBE_X = ["nosuch", "h.nope", "a[9]", "nosuch.deep.er", "items[2].k"]
PROBE_FILTER_ARGS = ["", ": 1", ": 'a'", ": 'k'", ": 'k', 1", ": X", ": 'k', X", ": 1, X", ": X, X"]


# the missing operand X is never evaluated (PROBE_DATA: n = 3 is truthy, fa[0] is false)
NEVER_EVALUATED = frozenset([
    "{% if false and X == 1 %}t{% else %}f{% endif %}", "{% if n or X contains 'a' %}t{% else %}f{% endif %}",
    "{% if fa[0] and X < 1 %}t{% else %}f{% endif %}", "{% if n or X.y == 1 and X %}t{% else %}f{% endif %}",
    "{% if nil and (X == 1 or X contains 2) %}t{% else %}f{% endif %}", "{{ 'a' if n or X == 1 else 'b' }}",
    "{% unless n or X > 1 %}t{% else %}f{% endunless %}", "{% if n %}t{% elsif X == 1 %}e{% endif %}",
    # the values of a `when` are tried from left to right up to the first match
    "{% case n %}{% when 3, X %}a{% endcase %}", "{% case n %}{% when 3 or X %}a{% else %}e{% endcase %}", "{% case 'q' %}{% when 'q', X, X.y %}a{% endcase %}",
])


def probe_templates(filters: list[str]) -> list[str]:
    """Every value-flow position, with X standing for the operand that is missing."""
    t = [
        "{{ X }}", "{% echo X %}", "{% assign v = X %}{{ v }}", "{% capture c %}{{ X }}{% endcapture %}{{ c }}",
        "{% if X %}t{% else %}f{% endif %}", "{% unless X %}t{% else %}f{% endunless %}",
        "{% if X and n %}t{% else %}f{% endif %}", "{% if n or X %}t{% else %}f{% endif %}",
        "{% if not X %}t{% else %}f{% endif %}",
        # short-circuit: the operand that is never evaluated cannot fail
        "{% if false and X == 1 %}t{% else %}f{% endif %}", "{% if n or X contains 'a' %}t{% else %}f{% endif %}",
        "{% if fa[0] and X < 1 %}t{% else %}f{% endif %}", "{% if n or X.y == 1 and X %}t{% else %}f{% endif %}",
        "{% if nil and (X == 1 or X contains 2) %}t{% else %}f{% endif %}", "{{ 'a' if n or X == 1 else 'b' }}",
        "{% unless n or X > 1 %}t{% else %}f{% endunless %}", "{% if n %}t{% elsif X == 1 %}e{% endif %}",
        "{% case n %}{% when 3, X %}a{% endcase %}", "{% case n %}{% when 3 or X %}a{% else %}e{% endcase %}", "{% case 'q' %}{% when 'q', X, X.y %}a{% endcase %}",
        "{{ 'a' if X else 'b' }}", "{{ X if n else 'b' }}", "{{ 'a' if n else X }}", "{{ 'a' if false else X | upcase }}",
        "{{ 'a' if X || upcase }}",
        "{% for i in X %}{{ i }}{% else %}e{% endfor %}", "{% for i in a limit: X %}{{ i }}{% endfor %}",
        "{% for i in a offset: X %}{{ i }}{% endfor %}", "{% for i in (1..X) %}{{ i }}{% endfor %}",
        "{% for i in (X..2) %}{{ i }}{% endfor %}", "{% tablerow i in X %}{{ i }}{% endtablerow %}",
        "{% tablerow i in a cols: X %}{{ i }}{% endtablerow %}",
        "{{ h[X] }}", "{{ a[X] }}", "{{ h[X].y }}", "{{ \"a${X}b\" }}", "{{ \"${X | upcase}\" }}",
        "{% cycle X, 1 %}{% cycle X, 1 %}", "{% cycle 'g': 1, X %}",
        "{% case X %}{% when nil %}n{% when 1 %}1{% else %}e{% endcase %}",
        "{% case 1 %}{% when X %}x{% else %}e{% endcase %}", "{% case nil %}{% when X %}x{% else %}e{% endcase %}",
        "{% case false %}{% when X %}x{% else %}e{% endcase %}",
        "{% render 'p', q: X %}", "{% render 'silent', q: X %}", "{% include 'p', q: X %}", "{% include 'p' with X as q %}",
        "{% render 'p' with X as q %}", "{% render 'p' for X as q %}", "{% include 'p' for X as q %}",
        "{% with q: X %}{{ q }}{% endwith %}", "{% with q: X %}silent{% endwith %}",
        "{% macro m q %}[{{ q }}]{% endmacro %}{% call m X %}", "{% macro m q %}silent{% endmacro %}{% call m X %}",
        "{% macro m q: X %}[{{ q }}]{% endmacro %}{% call m %}", "{% macro m q %}[{{ q }}]{% endmacro %}{% call m %}",
        "{% call nomacro 1 %}", "{{ a | map: i => X | json }}", "{{ a | where: i => i == X | json }}",
        "{{ items | where: 'k', X | json }}", "{{ items | find: 'k', X | json }}", "{{ items | has: 'k', X }}",
        "{{ a | where: i => X | json }}", "{{ a | find: i => X | json }}", "{{ a | sort: i => X | json }}",
        "{{ forloop.index }}", "{% for i in a %}{{ forloop.parentloop.index }}{% endfor %}",
        "{{ block.super }}", "{% liquid\n echo X\n if X\n echo 't'\n endif\n%}",
        "{{ X | default: 'd' }}", "{{ X | default: 'd', allow_false: true }}", "{{ X | default: X }}",
        "{{ false | default: X }}", "{{ nil | default: X, allow_false: X }}",
    ]
    for op in ("==", "!=", "<", ">", "<=", ">=", "contains", "in"):
        for other in ("nil", "false", "true", "1", "'a'", "empty", "blank", "X", "fa", "na", "a", "s", "h"):
            t.append("{% if X " + op + " " + other + " %}t{% else %}f{% endif %}")
            t.append("{% if " + other + " " + op + " X %}t{% else %}f{% endif %}")
    for f in filters:
        for args in PROBE_FILTER_ARGS:
            if "X" not in args:
                t.append("{{ X | " + f + args + " }}")
            else:
                for left in ("s", "a", "n", "items"):
                    t.append("{{ " + left + " | " + f + args + " }}")
    # the missing operand is a property of the lambda's own parameter, missing for some items only
    # (items[2] has no k, items[1].k is nil): whatever the body does with it, a strict render either raises
    # UndefinedError or gives the default policy's text
    for f in ("map", "where", "reject", "find", "find_index", "has", "sort", "sort_natural", "sort_numeric", "uniq",
              "compact", "sum"):
        for body in ("i.k", "i.k == 1", "i.k != 1", "i.k == nil", "i.k != nil", "not i.k", "i.k and n", "i.k or n",
                     "n and i.k", "i.nope != 'sale'", "i.nope == X", "not i.nope", "i.k < 2", "i.k contains 'a'",
                     "'a' in i.k", "i.k.deep != 1", "not i[X]"):
            t.append("{{ items | " + f + ": i => " + body + " | json }}")
        t.append("{{ items | " + f + ": (i, j) => i.k != j | json }}")
    # nothing is missing at all: a strict render may not raise UndefinedError, whatever optional settings the
    # filter looks up on its own
    for f in filters:
        for args in ("", ": 1", ": 'a'", ": 'k'", ": 'k', 1", ": 'length-meter'", ": 'USD'", ": s, n"):
            for left in ("s", "a", "n", "items", "'2001-02-03'"):
                t.append("{{ " + left + " | " + f + args + " }}")
    return t


class C16(Prop):
    id = "C16"
    title = "Strict undefined raises only for missing variables and refines the default"
    technique = "differential / metamorphic property-based testing across undefined policies with data deletions"
    rule = (
        "grammar programs (confusion off) x complete data D (every referenced path bound) x every D' obtained by "
        "deleting one referenced root or hash property (all single deletions, at most 12) plus one Hypothesis-drawn "
        "multi-deletion x {Undefined, StrictUndefined, FalsyStrictUndefined}, sync or async; a case is non-trivial "
        "when at least one deleted path is dynamically reached (an undefined value is created); distinct by SHA-1"
    )
    assumptions = [
        "an undefined value is 'for something missing' when an independent resolver cannot find the path in the "
        "render scope at the moment RenderContext.get returns it (paths with nested-path segments already evaluated)",
        "outcome classes other than UndefinedError must coincide between a strict policy and the default policy",
    ]
    batch = 200

    def n_random(self, tier: str) -> int:
        return 5000 if tier == "quick" else 120000

    def strategy(self, tier: str, disabled: frozenset[str]):
        return case_strategy()

    def budget_s(self, tier: str) -> float:
        return 240 if tier == "quick" else 3000

    def enumerate(self, tier: str, disabled: frozenset[str]):
        env = make_env({}, shopify=True)
        filters = sorted(f for f in env.filters if f not in ("date", "datetime", "safe"))
        xs = PROBE_X if tier == "thorough" else PROBE_X[:3]
        for tmpl in probe_templates(filters):
            for x in (xs if "X" in tmpl else xs[:1]):
                if "falsy-contains" in disabled and (" contains X" in tmpl or "X in " in tmpl):
                    continue
                if tmpl in NEVER_EVALUATED:
                    for m in ("sync", "async"):
                        yield {"kind": "probe", "src": tmpl.replace("X", x), "mode": m, "no_raise": True}
                    continue
                yield {"kind": "probe", "src": tmpl.replace("X", x), "mode": "sync"}
                if tier == "thorough" or " and " in tmpl or " or " in tmpl:
                    yield {"kind": "probe", "src": tmpl.replace("X", x), "mode": "async"}

    def enumerated_is_exhaustive(self, tier: str) -> bool:
        return True

    # ------------------------------------------------------------------

    def setup_worker(self) -> None:
        self._created: list[tuple[list[Any], bool]] = []
        prop = self
        orig_get = RenderContext.get
        orig_get_async = RenderContext.get_async

        def note(ctx: Any, path: list[Any], rv: Any) -> None:
            if isinstance(rv, Undefined):
                plain = all(isinstance(p, (str, int)) and not isinstance(p, bool) for p in path)
                exists = plain and ref_lookup(ctx.scope, list(path)) is not _MISSING
                prop._created.append((list(path) if plain else [repr(p) for p in path], exists))

        def get(self: Any, path: list[Any], **kw: Any) -> Any:
            path = list(path)
            rv = orig_get(self, path, **kw)
            note(self, path, rv)
            return rv

        async def get_async(self: Any, path: list[Any], **kw: Any) -> Any:
            path = list(path)
            rv = await orig_get_async(self, path, **kw)
            note(self, path, rv)
            return rv

        RenderContext.get = get  # type: ignore[method-assign]
        RenderContext.get_async = get_async  # type: ignore[method-assign]

    def _render(self, src: str, templates: dict[str, str], data: dict[str, Any], policy: str, mode: str) -> tuple[Any, list[Any]]:
        env = make_env(templates, shopify=True, undefined=POLICIES[policy])
        self._created = []
        del FACTORY_LOG[:]
        try:
            t = env.from_string(src)
            if mode == "async":
                out: Any = ("ok", run_coro(t.render_async(**copy.deepcopy(data))))
            else:
                out = ("ok", t.render(**copy.deepcopy(data)))
        except LiquidError as err:
            out = ("err", type(err).__name__, str(err.args[0])[:80] if err.args else "")
        return out, list(self._created) + [([p], False) for p in FACTORY_LOG[len(self._created):]]

    def check(self, case: Any, disabled: frozenset[str] = frozenset()) -> Result:  # noqa: PLR0912
        res = Result()
        if case.get("kind") == "probe":
            return self._check_variants(res, case["src"], dict(PROBE_PARTIALS), [("probe", dict(PROBE_DATA))],
                                        case["mode"], probe=True, no_raise=bool(case.get("no_raise")))
        prog = case["prog"]
        src = to_source(prog["main"], case["layout"])
        templates = {k: to_source(v, case["layout"]) for k, v in prog["templates"].items()}
        data = case["data"]
        mode = case["mode"]
        cands = deletions(prog, data)[:12]
        variants: list[tuple[str, dict[str, Any]]] = [("complete", data)]
        for c in cands:
            variants.append(("del:" + ".".join(map(str, c)), delete(data, c)))
        if case["multi"] and len(cands) >= 2:
            d = data
            names = []
            for i in case["multi"]:
                c = cands[i % len(cands)]
                d = delete(d, c)
                names.append(".".join(map(str, c)))
            variants.append(("multi:" + "+".join(names), d))
        return self._check_variants(res, src, templates, variants, mode, probe=False)

    def _check_variants(self, res: Result, src: str, templates: dict[str, str],
                        variants: list[tuple[str, dict[str, Any]]], mode: str, *, probe: bool,
                        no_raise: bool = False) -> Result:  # noqa: PLR0912
        res.evaluations = 0
        try:
            for label, d in variants:
                base, created = self._render(src, templates, d, "default", mode)
                res.evaluations += 1
                if base[0] == "err" and base[1] == "LiquidSyntaxError":
                    res.labels.append("unparsable")
                    return res
                if base[0] == "err" and base[1] == "UndefinedError":
                    res.fail("default-raises", "default-policy-raises-UndefinedError", f"{label} src={src!r} -> {base!r}")
                    return res
                for path, exists in created:
                    if exists:
                        res.fail("spurious-undefined", "undefined-created-for-existing-path:default",
                                 f"{label}: path {path!r} exists in scope but resolved to undefined; src={src!r}")
                        return res
                reached = bool(created)
                if label != "complete" and reached:
                    res.nontrivial = True
                if probe:
                    res.labels.append("probe:undefined-reached" if reached else "probe:not-reached")
                for pol in ("strict", "falsy"):
                    out, created_s = self._render(src, templates, d, pol, mode)
                    res.evaluations += 1
                    for path, exists in created_s:
                        if exists:
                            res.fail("spurious-undefined", f"undefined-created-for-existing-path:{pol}",
                                     f"{label}: path {path!r} exists in scope but resolved to undefined; src={src!r}")
                            return res
                    if out[0] == "err" and out[1] == "UndefinedError" and no_raise:
                        res.fail("raises-without-undefined", f"UndefinedError-for-operand-never-evaluated:{pol}",
                                 f"{label} ({mode}): {out!r}, but the missing operand sits behind a short-circuit or "
                                 f"in a branch that is not taken; src={src!r}")
                        return res
                    if out[0] == "err" and out[1] == "UndefinedError":
                        res.labels.append(f"{pol}:raised")
                        if not created_s:
                            res.fail("raises-without-undefined", f"UndefinedError-without-missing-data:{pol}",
                                     f"{label}: {out!r} but no undefined value was created; src={src!r}")
                            return res
                        roots = {_root_of(path) for path, _e in created_s}
                        if not any(_mentions(text, r) for r in roots for text in (src, *templates.values())):
                            # every undefined value belongs to a name that no template mentions: an optional
                            # setting the engine looks up on its own account is not data the render "uses"
                            res.fail("raises-without-undefined", f"UndefinedError-for-implicit-variable:{pol}",
                                     f"{label}: {out!r}; undefined values were only created for {sorted(roots)!r}, "
                                     f"which the template never mentions; src={src!r}")
                            return res
                        continue
                    if reached:
                        res.labels.append(f"{pol}:survived-undefined")
                    if out[:2] != base[:2]:
                        kind = "output" if out[0] == base[0] == "ok" else f"{base[1] if base[0] == 'err' else 'ok'}-vs-{out[1] if out[0] == 'err' else 'ok'}"
                        if kind == "output" and RE_UNDEF_REPR.sub("Undefined(", out[1]) == base[1]:
                            # the texts differ only in the class name inside the Python repr of an undefined
                            # value that sits in a hash printed with str(dict)
                            kind = "output:undefined-repr-in-hash"
                        res.fail("refinement", f"refinement:{pol}:{kind}",
                                 f"{label}: default={base!r} {pol}={out!r}; src={src!r} templates={templates!r}")
                        return res
        except RecursionError:
            pass
        except Exception as err:  # noqa: BLE001 - C02's business
            res.labels.append("crash:" + exc_bucket(err))
        return res

    def sample(self, case: Any) -> Any:
        if case.get("kind") == "probe":
            return case
        return {"src": to_source(case["prog"]["main"], case["layout"])[:300], "mode": case["mode"],
                "deletions": [".".join(map(str, c)) for c in deletions(case["prog"], case["data"])[:12]]}


PROP = C16()
