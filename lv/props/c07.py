"""C07 - render/macro scopes are isolated and block scopes do not leak.

Model-free non-interference oracles over programs generated on ONE shared pool of five
names (so that every shadowing pattern occurs between caller, callee and block bindings):

O1  caller -> callee   the caller's local bindings are drawn twice; the text between the
                       sentinels delimiting the `render` / `call` output is identical
O2  callee -> caller   the callee's assignments / captures / counters / cycles are drawn twice;
                       the caller's text outside the sentinels is identical
O0  (sanity)           a literal argument passed to the callee is visible in it
O3  include refused    an executed `include` inside a rendered template / macro body raises
                       DisabledTagError
O4  block scope        a probe of all pool names immediately before and immediately after any
                       block construct whose body has no effect on pool names prints the same
                       text (also when inner blocks are left through break / continue, possibly
                       raised from an included partial), and deleting the outermost block leaves
                       every probe outside it unchanged
O5  balance            a harness-made RenderContext passed to render_with_context has the same
                       scope.size(), len(loops), template and disabled_tags after the call
                       returns or raises, and then resolves every name like a fresh context with
                       the same locals / counters does
"""

from __future__ import annotations

import gc
import io
import os
import re
from collections.abc import Mapping
from typing import Any

from hypothesis import strategies as st

from lv.core.runner import Prop
from lv.core.runner import Result
from lv.gen.printer import to_source
from lv.harness.envs import make_env
from lv.harness.envs import run_coro

from liquid2 import RenderContext
from liquid2 import StrictUndefined
from liquid2.exceptions import LiquidError
from liquid2.exceptions import LiquidTypeError

POOL = ["a", "b", "c", "x", "forloop"]
SCRATCH = ["z", "y"]  # never read by a probe
SPECIAL = ["tablerowloop", "args", "kwargs"]
S_OPEN, S_CLOSE = "⟦", "⟧"  # callee output / "before" probe
A_OPEN, A_CLOSE = "⟪", "⟫"  # "after" probe

EXTRA_DISABLED = frozenset(x for x in os.environ.get("LV_C07_DISABLE", "").split(",") if x)

CYCLES: list[dict[str, Any]] = [
    {"t": "cycle", "group": None, "items": [["int", 1], ["int", 2], ["int", 3]]},
    {"t": "cycle", "group": "g", "items": [["int", 1], ["int", 2], ["int", 3]]},
    {"t": "cycle", "group": "g", "items": [["str", "p"], ["str", "q"]]},
]

PATH_ONLY = ("map", "sort", "sum", "uniq", "compact", "sort_natural")
PREDICATE = ("where", "reject", "find", "find_index", "has")
LIST_RESULT = ("map", "sort", "uniq", "compact", "sort_natural", "where", "reject")


# --------------------------------------------------------------------------- AST helpers


def T(s: str) -> dict[str, Any]:
    return {"t": "text", "s": s}


def P(name: str, *segs: str) -> list[Any]:
    return ["path", name, [["n", s] for s in segs]]


def OUT(e: list[Any]) -> dict[str, Any]:
    return {"t": "out", "e": e}


def ASSIGN(name: str, e: list[Any]) -> dict[str, Any]:
    return {"t": "assign", "name": name, "e": e}


def CAPTURE(name: str, body: list[dict[str, Any]]) -> dict[str, Any]:
    return {"t": "capture", "name": name, "body": body}


def IF(cond: list[Any], body: list[dict[str, Any]]) -> dict[str, Any]:
    return {"t": "if", "cond": cond, "body": body, "elsifs": [], "else": None}


def cycle_key(s: dict[str, Any]) -> str:
    return f"{s.get('group')}:{s['items']}"


def probe(tag: str) -> list[dict[str, Any]]:
    """Text that shows every pool name (and the loop helpers) as seen at this point."""
    out = [T(tag + "{")]
    for n in POOL:
        out += [T(f"{n}="), OUT(P(n)), T(";")]
    out += [
        T("fi="), OUT(P("forloop", "index")), T(";fl="), OUT(P("forloop", "length")),
        T(";tc="), OUT(P("tablerowloop", "col")), T(";ar="), OUT(P("args")),
        T(";kw="), OUT(P("kwargs", "k")), T("}"),
    ]
    return out


PROBE_SRC = to_source(probe(""))

FIELD_NAME = {"fi": "forloop", "fl": "forloop", "tc": "tablerowloop", "ar": "args", "kw": "kwargs"}


def parse_probe(text: str) -> dict[str, str]:
    inner = text[text.index("{") + 1:] if "{" in text else text
    inner = inner[: inner.rindex("}")] if "}" in inner else inner
    out: dict[str, str] = {}
    for part in inner.split(";"):
        k, _, v = part.partition("=")
        out[k] = v
    return out


def side_of(sides: dict[str, str], who: str | None) -> str:
    """`who` is "<party>:<variation id>"; a side can be chosen per variation or per party."""
    if who is None:
        return "a"
    if who in sides:
        return sides[who]
    return sides.get(who.split(":", 1)[0], "a")


def resolve(stmts: list[dict[str, Any]], sides: dict[str, str]) -> list[dict[str, Any]]:
    """Choose an alternative for every `var` meta node / `alt` overlay."""
    out: list[dict[str, Any]] = []
    for s in stmts:
        if s["t"] == "var":
            out.extend(resolve(s[side_of(sides, s["who"])], sides))
            continue
        s2 = dict(s)
        alt = s2.pop("alt", None)
        who = s2.pop("alt_who", None)
        if alt and side_of(sides, who) == "b":
            s2.update(alt)
        for key in ("body", "else"):
            if isinstance(s2.get(key), list):
                s2[key] = resolve(s2[key], sides)
        out.append(s2)
    return out


# --------------------------------------------------------------------------- static reads


def expr_reads(e: Any, bound: frozenset[str], out: set[tuple[str, str]]) -> None:
    if isinstance(e, dict):
        for v in e.values():
            expr_reads(v, bound, out)
        return
    if not isinstance(e, list) or not e:
        return
    if e[0] == "path" and len(e) == 3 and isinstance(e[1], str):
        if e[1] not in bound:
            out.add(("var", e[1]))
        for seg in e[2]:
            if seg and seg[0] == "p":
                expr_reads(seg[1], bound, out)
        return
    if e[0] == "lambda":
        expr_reads(e[2], bound | frozenset(e[1]), out)
        return
    for v in e:
        expr_reads(v, bound, out)


RE_PLACEHOLDER = re.compile(r"\{\{\s*(\w+)\s*\}\}")


def stmt_reads(  # noqa: PLR0912
    stmts: list[dict[str, Any]],
    templates: dict[str, list[dict[str, Any]]],
    bound: frozenset[str],
    killed: set[str],
    out: set[tuple[str, str]],
    depth: int = 0,
) -> None:
    """Names a fragment reads from its environment (free reads, conservative).

    Pass a `NoKill` set as `killed` to collect every reference instead."""

    def ex(e: Any, b: frozenset[str] = bound) -> None:
        tmp: set[tuple[str, str]] = set()
        expr_reads(e, b, tmp)
        out.update(r for r in tmp if r[1] not in killed)

    for s in stmts:
        t = s["t"]
        if t in ("out", "echo"):
            ex(s["e"])
        elif t == "assign":
            ex(s["e"])
            killed.add(s["name"])
        elif t == "capture":
            stmt_reads(s["body"], templates, bound, killed, out, depth)
            killed.add(s["name"])
        elif t in ("increment", "decrement"):
            out.add(("counter", s["name"]))
        elif t == "cycle":
            out.add(("cycle", cycle_key(s)))
        elif t in ("for", "tablerow"):
            ex(s["iter"])
            helper = "forloop" if t == "for" else "tablerowloop"
            stmt_reads(s["body"], templates, bound | {s["var"], helper}, killed, out, depth)
        elif t == "with":
            for _k, v in s["args"]:
                ex(v)
            stmt_reads(s["body"], templates, bound | {k for k, _ in s["args"]}, killed, out, depth)
        elif t in ("if", "unless"):
            ex(s["cond"])
            stmt_reads(s["body"], templates, bound, killed, out, depth)
            if s.get("else"):
                stmt_reads(s["else"], templates, bound, killed, out, depth)
        elif t in ("render", "include"):
            if s.get("var") is not None:
                ex(s["var"])
            for _k, v in s.get("args") or []:
                ex(v)
            name = s["name"][1]
            body = templates.get(name)
            if body is None or depth > 4:
                continue
            names = {k for k, _ in s.get("args") or []}
            if s.get("var") is not None:
                names.add(s.get("alias") or name.split(".")[0])
                if s.get("loop") and t == "render":
                    names.add("forloop")
            if t == "render":
                stmt_reads(body, templates, frozenset(names), set(), out, depth + 1)
            else:
                stmt_reads(body, templates, bound | names, killed, out, depth + 1)
        elif t == "call":
            for v in s["args"]:
                ex(v)
            for _k, v in s["kwargs"]:
                ex(v)
        elif t == "translate":
            names = {k for k, _ in s.get("args") or []}
            for _k, v in s.get("args") or []:
                ex(v)
            for m in RE_PLACEHOLDER.findall(s["text"]):
                if m not in names and m not in bound and m not in killed:
                    out.add(("var", m))
        elif t == "liquid":
            stmt_reads(s["body"], templates, bound, killed, out, depth)


class NoKill(set):  # type: ignore[type-arg]
    """A `killed` set that never remembers anything."""

    def add(self, _item: Any) -> None:
        return None


def find_call(stmts: list[dict[str, Any]]) -> dict[str, Any] | None:
    """The `render 'a'` / `call m` statement of an iso case."""
    for s in stmts:
        if (s["t"] == "render" and s["name"][1] == "a") or (s["t"] == "call" and s["name"] == "m"):
            return s
        for key in ("body", "else"):
            if isinstance(s.get(key), list):
                got = find_call(s[key])
                if got is not None:
                    return got
    return None


def reads_binding(reads: set[tuple[str, str]], name: str, kind: str) -> bool:
    if kind in ("increment", "decrement"):
        return ("var", name) in reads or ("counter", name) in reads
    if kind == "cycle":
        return ("cycle", name) in reads
    return ("var", name) in reads


# --------------------------------------------------------------------------- generator


class Ctx:
    """Generation context of a statement position."""

    __slots__ = ("loop", "iso", "pure", "pairs", "call_ok", "path")

    def __init__(self, *, loop: bool = False, iso: bool = False, pure: bool = False, pairs: bool = False,
                 call_ok: bool = False, path: tuple[str, ...] = ()) -> None:
        self.loop = loop
        self.iso = iso
        self.pure = pure
        self.pairs = pairs
        self.call_ok = call_ok
        self.path = path

    def sub(self, construct: str, **kw: Any) -> "Ctx":
        c = Ctx(loop=self.loop, iso=self.iso, pure=self.pure, pairs=self.pairs, call_ok=self.call_ok,
                path=self.path + (construct,))
        for k, v in kw.items():
            setattr(c, k, v)
        return c


class G:
    def __init__(self, draw: Any, disabled: frozenset[str]) -> None:
        self.draw = draw
        self._data = getattr(draw, "__self__", None)
        if not hasattr(self._data, "draw_integer"):
            self._data = None
        self.disabled = disabled
        self.templates: dict[str, list[dict[str, Any]]] = {}
        self.macros: list[dict[str, Any]] = []
        self.n_partials = 0
        self.n_macros = 0
        self.site = 0
        self.sites: dict[str, dict[str, Any]] = {}
        self.binders: list[tuple[str, str]] = []  # (name, construct) in generation order
        self.exits: list[tuple[str, tuple[str, ...]]] = []  # (exit kind, scoping constructs it crosses)
        self.err_kind: str | None = None
        self.err_done = False
        self.err_path: list[str] = []
        self.err_at = 0
        self.reserved: set[str] = set()
        self.vid = 0

    # ----------------------------------------------------------------- draws

    def i(self, lo: int, hi: int) -> int:
        if self._data is not None:
            return self._data.draw_integer(lo, hi)
        return self.draw(st.integers(lo, hi))

    def p(self, prob: float) -> bool:
        return self.i(0, 999) < prob * 1000

    def pick(self, seq: list[Any]) -> Any:
        return seq[self.i(0, len(seq) - 1)]

    # ----------------------------------------------------------------- values

    def lit(self) -> list[Any]:
        if self.p(0.7):
            return ["int", self.i(0, 9)]
        return ["str", self.pick(["p", "q", "r"])]

    def lit2(self) -> tuple[list[Any], list[Any]]:
        a = self.lit()
        if a[0] == "int":
            return a, ["int", (a[1] + self.i(1, 9)) % 10]
        return a, ["str", self.pick([s for s in ("p", "q", "r") if s != a[1]])]

    def val(self) -> list[Any]:
        if self.p(0.3):
            return P(self.pick(POOL))
        return self.lit()

    def rng(self, lo: int | None = None, n: int | None = None) -> list[Any]:
        lo = self.i(0, 3) if lo is None else lo
        n = self.i(1, 3) if n is None else n
        return ["range", ["int", lo], ["int", lo + n - 1]]

    def rng2(self, same_len: bool = False) -> tuple[list[Any], list[Any]]:
        """Two ranges with different first item and (unless `same_len`) different length."""
        lo, n = self.i(0, 3), self.i(1, 3)
        n2 = n if same_len else self.pick([k for k in (1, 2, 3) if k != n])
        return self.rng(lo, n), self.rng(lo + self.i(1, 4), n2)

    def lam(self, err: list[Any] | None = None) -> tuple[list[Any], list[str]]:
        """A filtered expression whose filter takes a lambda; returns (expr, params)."""
        f = self.pick(["map", "where", "find", "has", "sort", "sum", "uniq", "reject", "find_index", "compact",
                       "find", "has"])
        p = self.pick(POOL)
        params = [p]
        if self.p(0.25):
            params.append(self.pick([n for n in POOL if n != p]))
        other = self.pick(POOL)
        if f in ("uniq", "sort") and other == "forloop":
            # comparing two ForLoop drops iterates them, i.e. advances the running loop (a defect of its own,
            # reported separately): not a scoping matter, keep it out of the programs
            other = p
        if f in PATH_ONLY:
            # `sum` of a string is a (legitimate) LiquidTypeError: keep its key numeric
            body: list[Any] = P(p) if f == "sum" else P(self.pick([p, p, other]))
            if err is not None:
                body = err
        else:
            r = self.i(0, 3)
            if err is not None:
                body = ["cmp", "==", P(p), err]
            elif r == 0:
                body = ["cmp", self.pick(["==", "!="]), P(p), P(other)]
            elif r == 1:
                body = ["cmp", self.pick([">=", "<", "==", ">"]), P(p), ["int", self.i(0, 4)]]
            elif r == 2 and len(params) == 2:
                body = ["cmp", "==", P(params[1]), ["int", self.i(0, 2)]]
            else:
                body = ["cmp", "==", P(p), ["int", self.i(0, 4)]]  # early exit for find/has
        filters: list[dict[str, Any]] = [{"name": f, "args": [["lambda", params, body]]}]
        if f in LIST_RESULT:
            filters.append({"name": "join", "args": [["pos", ["str", ","]]]})
        for prm in params:
            self.binders.append((prm, "lambda"))
        return ["filtered", self.rng(), filters], params

    # ----------------------------------------------------------------- probes / sites

    def pair(self, inner: list[dict[str, Any]], kind: str, b0: int, x0: int) -> list[dict[str, Any]]:
        """Wrap a construct between a before- and an after-probe sharing one site id."""
        sid = self.site
        self.site += 1
        self.sites[str(sid)] = {
            "kind": kind,
            "binders": sorted({f"{n}={k}" for n, k in self.binders[b0:]}),
            "exits": sorted({e for e, _ in self.exits[x0:]}),
            "crossed": sorted({c for _, cs in self.exits[x0:] for c in cs}),
        }
        return [T(f"{S_OPEN}{sid}:"), *probe("P"), T(S_CLOSE), *inner, T(f"{A_OPEN}{sid}:"), *probe("P"), T(A_CLOSE)]

    def crossed(self, C: Ctx, extra: tuple[str, ...] = ()) -> tuple[str, ...]:
        """Scoping constructs between this position and the loop that a break / continue here leaves."""
        path = list(C.path)
        idx = max((i for i, c in enumerate(path) if c in ("for", "tablerow")), default=-1)
        return tuple(c for c in path[idx + 1:] + list(extra) if c not in ("if", "capture"))

    # ----------------------------------------------------------------- errors

    def error_stmt(self, C: Ctx) -> list[dict[str, Any]]:
        self.err_done = True
        self.err_path = list(C.path)
        k = self.err_kind
        if k == "strict":
            return [OUT(P("nosuch_q"))]
        if k == "filter":
            return [OUT(["filtered", ["int", 1], [{"name": "divided_by", "args": [["pos", ["int", 0]]]}]])]
        if k == "drop":
            return [OUT(P("boom", "x"))]
        if k == "notfound":
            return [{"t": "render", "name": ["str", "nosuch_t"], "args": []}]
        if k == "lambda":
            e, _ = self.lam(err=self.pick([P("boom", "x"), P("boom", "x"), P("nosuch_q")]))
            self.err_path.append("lambda")
            return [OUT(e)]
        if k == "consumer":
            # the error is raised by the consumer of LambdaExpression.map while that generator is suspended
            self.err_path.append("lambda")
            return [OUT(["filtered", self.rng(), [{"name": "sum", "args": [["lambda", [self.pick(POOL)], P("sv")]]}]])]
        if k == "witharg":
            return [{"t": "with", "args": [[self.pick(POOL), P("boom", "x")]], "body": [T("w")]}]
        if k == "translate":
            self.err_path.append("translate")
            return [{"t": "translate", "args": [[self.pick(POOL), self.lit()]], "text": "t {{ nosuch_q }}"}]
        if k == "interrupt":
            # `break` outside any loop of a rendered template -> "unexpected 'break'"
            name = self.new_partial([{"t": self.pick(["break", "continue"])}])
            self.err_path.append("render")
            return [{"t": "render", "name": ["str", name], "args": []}]
        raise AssertionError(k)

    # ----------------------------------------------------------------- partials / macros

    def new_partial(self, body: list[dict[str, Any]], prefer: str | None = None) -> str:
        if prefer is not None and prefer not in self.templates and prefer not in self.reserved:
            name = prefer
        else:
            self.n_partials += 1
            name = f"t{self.n_partials}"
        self.templates[name] = body
        return name

    def iso_body(self, depth: int, C: Ctx, construct: str) -> list[dict[str, Any]]:
        """Body of a rendered template / macro: its own scope."""
        inner = C.sub(construct, loop=False, iso=True, call_ok=False)
        if C.pure:
            # own-scope prefix, then a pure (paired) body: O4 also holds inside the callee
            pre = [ASSIGN(self.pick(POOL), self.lit()) for _ in range(self.i(0, 2))]
            return pre + self.stmts(depth, self.i(1, 3), inner)
        return self.stmts(depth, self.i(1, 3), inner)

    # ----------------------------------------------------------------- statements

    def stmts(self, depth: int, n: int, C: Ctx) -> list[dict[str, Any]]:
        out: list[dict[str, Any]] = []
        for _ in range(n):
            out.extend(self.stmt(depth, C))
        return out

    def target(self, C: Ctx) -> str:
        return self.pick(SCRATCH) if C.pure else self.pick(POOL)

    def stmt(self, depth: int, C: Ctx) -> list[dict[str, Any]]:  # noqa: PLR0911, PLR0912, PLR0915
        kinds = ["text", "name", "name", "lam", "lam", "assign", "alam", "incdec", "cycle", "translate"]
        if depth > 0:
            kinds += ["for", "for", "with", "with", "if", "capture", "render", "render"]
            if not (C.path and C.path[-1] == "tablerow"):
                # a tablerow tag directly inside a tablerow block does not parse (not this property's business)
                kinds += ["tablerow"]
            if not C.iso:
                kinds += ["include", "include"]
            if C.call_ok:
                kinds += ["call", "call"]
        if C.loop:
            kinds += ["break", "continue"]
            if not C.iso and depth > 0:
                kinds += ["ibreak", "ibreak"]
        if self.err_kind and not self.err_done and depth <= self.err_at:
            kinds += ["error"] * (len(kinds) // 3 + 1)
        k = self.pick(kinds)
        b0, x0 = len(self.binders), len(self.exits)

        def paired(inner: list[dict[str, Any]], kind: str) -> list[dict[str, Any]]:
            return self.pair(inner, kind, b0, x0) if C.pairs else inner

        if k == "error":
            return self.error_stmt(C)
        if k == "text":
            return [T(self.pick(["u", "v", " ", "w1"]))]
        if k == "name":
            r = self.i(0, 7)
            if r == 0:
                return [OUT(P("forloop", self.pick(["index", "length", "first", "rindex0"])))]
            if r == 1:
                return [OUT(P("tablerowloop", "col"))]
            if r == 2:
                return [OUT(P(self.pick(["args", "kwargs"])))]
            return [OUT(P(self.pick(POOL)))]
        if k == "lam":
            e, _ = self.lam()
            return paired([OUT(e)], "lambda")
        if k == "alam":
            e, _ = self.lam()
            return paired([ASSIGN(self.target(C), e)], "lambda")
        if k == "assign":
            return [ASSIGN(self.target(C), self.val())]
        if k == "incdec":
            return [{"t": self.pick(["increment", "decrement"]), "name": self.target(C)}]
        if k == "cycle":
            c = dict(self.pick(CYCLES))
            if C.pure:
                c["group"] = "zz"  # never used by a probe
            return [c]
        if k == "translate":
            n = self.pick(POOL)
            self.binders.append((n, "translate"))
            other = self.pick(POOL)
            return paired([{"t": "translate", "args": [[n, self.val()]], "text": f"t {{{{ {n} }}}} {{{{ {other} }}}}"}],
                          "translate")
        if k in ("break", "continue"):
            self.exits.append((k, self.crossed(C)))
            s = {"t": k}
            r = self.i(0, 3)
            if r == 0:
                return [s]
            cond = [P("forloop", "first"), P("forloop", "last"), ["cmp", "==", P("forloop", "index"), ["int", 2]]][r - 1]
            return [IF(cond, [s])]
        if k == "ibreak":
            ex = self.pick(["break", "continue"])
            body: list[dict[str, Any]] = [{"t": ex}]
            inner_with = self.p(0.5)
            self.exits.append((ex + "-include", self.crossed(C, ("include", "with") if inner_with else ("include",))))
            if inner_with:
                n = self.pick(POOL)
                self.binders.append((n, "with"))
                body = [{"t": "with", "args": [[n, self.lit()]], "body": body}]
            name = self.new_partial(body)
            args = []
            if self.p(0.6):
                n = self.pick(POOL)
                self.binders.append((n, "include-arg"))
                args.append([n, self.lit()])
            inc = {"t": "include", "name": ["str", name], "args": args}
            if self.p(0.5):
                return paired([inc], "include")
            return paired([IF(self.pick([P("forloop", "first"), P("forloop", "last"), ["true"]]), [inc])], "include")
        if k == "capture":
            tgt = self.target(C)
            body = self.stmts(depth - 1, self.i(1, 2), C.sub("capture"))
            if C.pure:
                return [CAPTURE(tgt, body), OUT(P(tgt))]  # scratch capture, shown so that inner probes count
            return [CAPTURE(tgt, body)]
        if k == "if":
            cond = self.pick([["true"], P(self.pick(POOL)), ["cmp", "==", P(self.pick(POOL)), self.lit()],
                              P("forloop", "first")])
            return [IF(cond, self.stmts(depth - 1, self.i(1, 2), C.sub("if")))]
        if k in ("for", "tablerow"):
            v = self.pick(POOL)
            self.binders.append((v, k))
            self.binders.append(("forloop" if k == "for" else "tablerowloop", k))
            s = {"t": k, "var": v, "iter": self.rng(), "else": None}
            if k == "tablerow" and self.p(0.5):
                s["cols"] = ["int", self.i(1, 2)]
            if k == "for" and self.p(0.15):
                s["reversed"] = True
            if k == "for" and self.p(0.15):
                s["limit"] = ["int", self.i(1, 2)]
            s["body"] = self.stmts(depth - 1, self.i(1, 3), C.sub(k, loop=True))
            return paired([s], k)
        if k == "with":
            args = [[self.pick(POOL), self.val()]]
            if self.p(0.3):
                args.append([self.pick([n for n in POOL if n != args[0][0]]), self.val()])
            for n, _ in args:
                self.binders.append((n, "with"))
            return paired([{"t": "with", "args": args, "body": self.stmts(depth - 1, self.i(1, 3), C.sub("with"))}],
                          "with")
        if k in ("include", "render"):
            s = {"t": k, "args": []}
            prefer = self.pick(POOL[:4]) if self.p(0.35) else None
            form = self.i(0, 4)
            sub = C.sub(k)
            if k == "include":
                body = self.stmts(depth - 1, self.i(1, 3), sub)
            else:
                body = self.iso_body(depth - 1, C, k)
            name = self.new_partial(body, prefer)
            s["name"] = ["str", name]
            if form in (0, 1):
                s["var"] = self.val() if form == 0 else self.rng()
                s["loop"] = form == 1
                if name not in POOL or self.p(0.5):
                    s["alias"] = self.pick(POOL)
                key = s.get("alias") or name
                self.binders.append((key, f"{k}-{'for' if form == 1 else 'with'}"))
                if k == "render" and form == 1:
                    self.binders.append(("forloop", "render-for"))
            if form in (1, 2, 3):
                for _ in range(self.i(1, 2)):
                    n = self.pick(POOL)
                    if n not in [a[0] for a in s["args"]]:
                        s["args"].append([n, self.val()])
                        self.binders.append((n, f"{k}-arg"))
            return paired([s], k)
        if k == "call":
            self.n_macros += 1
            mname = f"m{self.n_macros}"
            params = []
            for pn in [self.pick(POOL), self.pick(POOL)][: self.i(0, 2)]:
                if pn not in [q[0] for q in params]:
                    params.append([pn, self.lit() if self.p(0.4) else None])
                    self.binders.append((pn, "macro-param"))
            self.binders.append(("args", "macro-param"))
            self.binders.append(("kwargs", "macro-param"))
            body = self.iso_body(depth - 1, C, "call")
            self.macros.append({"t": "macro", "name": mname, "params": params, "body": body})
            args = [self.val() for _ in range(self.i(0, len(params) + 1))]
            kwargs = [["k", self.lit()]] if self.p(0.3) else []
            if params and self.p(0.3):
                kwargs.append([params[-1][0], self.lit()])
            return paired([{"t": "call", "name": mname, "args": args, "kwargs": kwargs}], "call")
        raise AssertionError(k)

    # ----------------------------------------------------------------- globals

    def data(self) -> dict[str, Any]:
        if self.p(0.25):
            return {}
        out: dict[str, Any] = {}
        for n in POOL:
            if self.p(0.4):
                out[n] = self.pick([11, 12, "G", "H", 13])
        return out

    # ----------------------------------------------------------------- iso (O1, O2, O0)

    def new_vid(self, who: str) -> tuple[str, int]:
        self.vid += 1
        return f"{who}:{self.vid}", self.vid

    def varied_binding(self, who: str, varied: list[list[Any]]) -> dict[str, Any]:
        who, vid = self.new_vid(who)
        n = self.pick(POOL)
        kind = self.pick(["assign", "assign", "capture", "increment", "decrement", "cycle"])
        a: list[dict[str, Any]]
        b: list[dict[str, Any]]
        if kind == "assign":
            v1, v2 = self.lit2()
            a, b = [ASSIGN(n, v1)], ([ASSIGN(n, v2)] if self.p(0.7) else [])
        elif kind == "capture":
            k1 = self.i(0, 4)
            k2 = (k1 + self.i(1, 4)) % 5
            a, b = [CAPTURE(n, [T(f"cap{k1}")])], ([CAPTURE(n, [T(f"cap{k2}")])] if self.p(0.7) else [])
        elif kind in ("increment", "decrement"):
            k1 = self.i(1, 3)
            k2 = (k1 + self.i(1, 3)) % 4
            a, b = [{"t": kind, "name": n}] * k1, [{"t": kind, "name": n}] * k2
        else:
            c = self.pick(CYCLES)
            ln = len(c["items"])
            k1 = self.i(1, ln)
            k2 = (k1 + self.i(1, ln - 1)) % ln
            a, b = [dict(c)] * k1, [dict(c)] * k2
            n = cycle_key(c)
        varied.append([n, kind, vid])
        return {"t": "var", "who": who, "a": a, "b": b}

    def vary_impure(self, stmts: list[dict[str, Any]], who: str, varied: list[list[Any]]) -> list[dict[str, Any]]:
        """Give the side-effecting statements of a body a second alternative."""
        out: list[dict[str, Any]] = []
        for s in stmts:
            t = s["t"]
            if t in ("assign", "capture", "increment", "decrement", "cycle") and self.p(0.7):
                r = self.i(0, 3)
                if t == "assign":
                    alt = [[], [ASSIGN(s["name"], self.lit())], [ASSIGN(self.pick(POOL), s["e"])], [s, s]][r]
                    name = s["name"]
                elif t == "capture":
                    alt = [[], [CAPTURE(s["name"], [T("alt")])], [CAPTURE(self.pick(POOL), s["body"])], []][r]
                    name = s["name"]
                elif t == "cycle":
                    alt = [[], [s, s], [], [s, s]][r]
                    name = cycle_key(s)
                else:
                    opp = "decrement" if t == "increment" else "increment"
                    alt = [[], [s, s], [{"t": opp, "name": s["name"]}], [s, s, s]][r]
                    name = s["name"]
                w, vid = self.new_vid(who)
                varied.append([name, t, vid])
                out.append({"t": "var", "who": w, "a": [s], "b": alt})
                continue
            s2 = dict(s)
            for key in ("body", "else"):
                if isinstance(s2.get(key), list):
                    s2[key] = self.vary_impure(s2[key], who, varied)
            out.append(s2)
        return out

    def iso_case(self) -> dict[str, Any]:  # noqa: PLR0912, PLR0915
        outer_ok = "outer-args" not in self.disabled
        self.reserved = {"a", "b", "c"}
        callee_kind = self.pick(["render", "render", "call"])
        cctx = self.pick(["top", "top", "top", "render", "render", "include", "macro", "block", "block"])
        if cctx == "macro":
            callee_kind = "render"
        # cctx "block": the caller is the overriding block of a child template; the base binds names around the
        # block tag, which the block sees and the callee must not
        base_loop = cctx == "block" and self.p(0.4)
        vc: list[list[Any]] = []  # varied caller bindings [name, kind, variation id]
        ve: list[list[Any]] = []  # varied callee effects

        # helper partial 'b': rendered from the callee, included by the caller
        self.templates["b"] = self.stmts(1, self.i(1, 3), Ctx(iso=True))

        # ---- callee
        body = self.stmts(2, self.i(1, 4), Ctx(iso=True))
        if self.p(0.4):
            body.append({"t": "render", "name": ["str", "b"],
                         "args": [[self.pick(POOL), self.lit()]] if self.p(0.5) else []})
        body = self.vary_impure(body, "callee", ve)
        if not ve or self.p(0.3):
            body.append(self.varied_binding("callee", ve))
        if self.p(0.3):
            # a loop of the callee's own: its parentloop is not the caller's loop
            body.append({"t": "for", "var": "zz", "iter": ["range", ["int", 1], ["int", 1]], "else": None,
                         "body": [T("pl="), OUT(P("forloop", "parentloop", "length")), T(","),
                                  OUT(P("forloop", "parentloop", "index")), T(";")]})
        lead = self.p(0.8)
        if lead:
            body = probe("L") + body
        if self.p(0.5):
            body = body + probe("E")

        # ---- the call
        expect: dict[str, Any] = {}  # field -> literal (or list of literals for the loop form)
        taken: set[str] = set()
        if callee_kind == "render":
            self.templates["a"] = body
            call: dict[str, Any] = {"t": "render", "name": ["str", "a"], "args": []}
            form = self.i(0, 4)
            if form in (0, 1):
                call["loop"] = form == 1
                if self.p(0.5):
                    call["alias"] = self.pick(POOL)
                key = call.get("alias") or "a"
                taken.add(key)
                if form == 1:
                    taken.add("forloop")
                if form == 0:
                    v = self.lit()
                    call["var"] = v
                    expect[key] = str(v[1])
                else:
                    lo, n = self.i(0, 3), self.i(1, 3)
                    call["var"] = self.rng(lo, n)
                    expect[key] = [str(lo + j) for j in range(n)]
            if form in (1, 2, 3):
                for _ in range(self.i(1, 2)):
                    n_ = self.pick(POOL)
                    if n_ not in taken:
                        taken.add(n_)
                        v = self.lit()
                        call["args"].append([n_, v])
                        expect[n_] = str(v[1])
            head: list[dict[str, Any]] = []
        else:
            params: list[list[Any]] = []
            for pn in [self.pick(POOL), self.pick(POOL)][: self.i(0, 2)]:
                if pn not in [q[0] for q in params]:
                    params.append([pn, self.lit() if self.p(0.4) else None])
            head = [{"t": "macro", "name": "m", "params": params, "body": body}]
            nargs = self.i(0, len(params))
            args = [self.lit() for _ in range(nargs)]
            for (pn, dflt), v in zip(params, args + [None] * len(params)):
                if v is not None:
                    expect[pn] = str(v[1])
                elif dflt is not None:
                    expect[pn] = str(dflt[1])
            kwargs = []
            if self.p(0.3):
                v = self.lit()
                kwargs.append(["k", v])
                expect["kw"] = str(v[1])
            call = {"t": "call", "name": "m", "args": args, "kwargs": kwargs}
        if not lead:
            expect = {}

        # ---- caller
        pre = [self.varied_binding("caller", vc) for _ in range(self.i(1, 3))]
        block: list[dict[str, Any]] = [T(S_OPEN), call, T(S_CLOSE)]
        if self.p(0.4):
            block = [self.varied_binding("caller", vc)] + block
        if self.p(0.5):
            block = block + probe("Q")
        wrappers = []
        for _ in range(self.pick([0, 0, 1, 1, 2])):
            w = self.pick(["for", "for", "with", "with", "tablerow", "capture", "if"])
            if w == "tablerow" and wrappers and wrappers[-1] == "tablerow":
                w = "for"
            wrappers.append(w)
        # Callee outputs are compared position by position.  With one loop level a longer loop only appends
        # segments; with two levels it would re-align them, so nested loops keep their length in both runs.
        cform = self.i(0, 3)  # argument form of the enclosing render / include (cctx render, include)
        if cctx == "render" and not outer_ok:
            cform = 3
        levels = sum(w in ("for", "tablerow") for w in wrappers) + (cctx == "render" and cform == 1) + base_loop
        same_len = levels >= 2
        for w in wrappers:
            if w in ("for", "tablerow"):
                v_ = self.pick(POOL)
                ra, rb = self.rng2(same_len)
                who, vid = self.new_vid("caller")
                s = {"t": w, "var": v_, "iter": ra, "body": block, "else": None, "alt": {"iter": rb},
                     "alt_who": who}
                vc.append([v_, f"{w}-var", vid])
                helper = "forloop" if w == "for" else "tablerowloop"
                if not same_len:
                    vc.append([helper, helper, vid])
                block = [s]
            elif w == "with":
                n_ = self.pick(POOL)
                v1, v2 = self.lit2()
                who, vid = self.new_vid("caller")
                block = [{"t": "with", "args": [[n_, v1]], "body": block, "alt": {"args": [[n_, v2]]},
                          "alt_who": who}]
                vc.append([n_, "with", vid])
            elif w == "capture":
                block = [CAPTURE("z", block), OUT(P("z"))]
            else:
                block = [IF(["true"], block)]
        post = probe("R")
        for _ in range(self.i(0, 2)):
            post.append({"t": self.pick(["increment", "decrement"]), "name": self.pick(POOL)})
        if self.p(0.5):
            post.append(dict(self.pick(CYCLES)))
        if cctx in ("top", "include") and self.p(0.3):
            post.append({"t": "include", "name": ["str", "b"], "args": []})  # include works again after the call
        caller = head + pre + block + post

        # ---- where the caller lives
        if cctx == "top":
            main = caller
        elif cctx == "block":
            base_pre = [self.varied_binding("caller", vc) for _ in range(self.i(1, 3))]
            blk: list[dict[str, Any]] = [T("["), {"t": "block", "name": "blk", "body": [T("dflt")]}, T("]")]
            if base_loop:
                v_ = self.pick(POOL)
                ra, rb = self.rng2(same_len)
                who, vid = self.new_vid("caller")
                blk = [{"t": "for", "var": v_, "iter": ra, "body": blk, "else": None, "alt": {"iter": rb},
                        "alt_who": who}]
                vc.append([v_, "base-for-var", vid])
                if not same_len:
                    vc.append(["forloop", "base-forloop", vid])
            elif self.p(0.3):
                n_ = self.pick(POOL)
                v1, v2 = self.lit2()
                who, vid = self.new_vid("caller")
                blk = [{"t": "with", "args": [[n_, v1]], "body": blk, "alt": {"args": [[n_, v2]]}, "alt_who": who}]
                vc.append([n_, "base-with", vid])
            self.templates["c"] = base_pre + blk + probe("Z")
            main = [{"t": "extends", "name": ["str", "c"]}, {"t": "block", "name": "blk", "body": caller}]
        elif cctx == "macro":
            pn = self.pick(POOL)
            v1, v2 = self.lit2()
            c: dict[str, Any] = {"t": "call", "name": "w", "args": [v1] if outer_ok else [], "kwargs": []}
            if outer_ok:
                who, vid = self.new_vid("caller")
                c.update(alt={"args": [v2]}, alt_who=who)
                vc.append([pn, "outer-arg", vid])
            main = [{"t": "macro", "name": "w", "params": [[pn, None]] if outer_ok else [], "body": caller}, c]
        else:
            self.templates["c"] = caller
            top_pre = [self.varied_binding("caller", vc) for _ in range(self.i(0, 1))] if cctx == "include" else []
            if cctx == "render" and self.p(0.5):
                # locals of the grand-caller: invisible to 'c' and to the callee alike
                top_pre = [self.varied_binding("caller", vc)]
            c = {"t": cctx, "name": ["str", "c"], "args": []}
            n_ = self.pick(POOL)
            v1, v2 = self.lit2()
            form = cform  # 3: no arguments at all on the enclosing render / include
            vary = cctx == "include" or outer_ok
            kind_ = "include-arg" if cctx == "include" else "outer-arg"
            who, vid = self.new_vid("caller")
            if form == 0:
                c.update(var=v1, loop=False, alias=n_)
                if vary:
                    c.update(alt={"var": v2}, alt_who=who)
                    vc.append([n_, kind_, vid])
            elif form == 1 and cctx == "render":
                ra, rb = self.rng2(same_len)
                c.update(var=ra, loop=True, alias=n_)
                if vary:
                    c.update(alt={"var": rb}, alt_who=who)
                    vc.append([n_, kind_, vid])
                    if not same_len:
                        vc.append(["forloop", kind_, vid])
            elif form in (1, 2):
                c["args"] = [[n_, v1]]
                if vary:
                    c.update(alt={"args": [[n_, v2]]}, alt_who=who)
                    vc.append([n_, kind_, vid])
            main = top_pre + [c]

        outer_bound = (cctx == "macro" and outer_ok) or (cctx == "render" and cform != 3)
        return {"kind": "iso", "callee": callee_kind, "cctx": cctx, "wrappers": wrappers, "main": main,
                "outer_bound": outer_bound,
                "templates": self.templates, "data": self.data(), "varied_caller": vc, "varied_callee": ve,
                "expect": expect, "mode": "async" if self.p(0.2) else "sync"}

    # ----------------------------------------------------------------- refuse (O3)

    def refuse_case(self) -> dict[str, Any]:
        self.reserved = {"a", "b", "c"}
        callee_kind = self.pick(["render", "render", "call"])
        cctx = self.pick(["top", "top", "include", "render"])
        self.templates["b"] = [T("included "), OUT(P(self.pick(POOL)))]
        inc: dict[str, Any] = {"t": "include", "name": ["str", "b"], "args": []}
        form = self.i(0, 3)
        if form == 1:
            inc.update(var=self.lit(), loop=False)
        elif form == 2:
            inc.update(var=self.rng(), loop=True, alias=self.pick(POOL))
        elif form == 3:
            inc["args"] = [[self.pick(POOL), self.lit()]]
        block: list[dict[str, Any]] = [inc]
        path = []
        for _ in range(self.pick([0, 0, 1, 1, 2])):
            w = self.pick(["for", "with", "capture", "if", "tablerow", "nested-render", "nested-call", "liquid"])
            if w == "tablerow" and path and path[-1] == "tablerow":
                w = "for"
            if w == "liquid" and "liquid" in path:
                w = "if"
            path.append(w)
            if w in ("for", "tablerow"):
                block = [{"t": w, "var": self.pick(POOL), "iter": self.rng(), "body": block, "else": None}]
            elif w == "with":
                block = [{"t": "with", "args": [[self.pick(POOL), self.lit()]], "body": block}]
            elif w == "capture":
                block = [CAPTURE(self.pick(POOL), block)]
            elif w == "if":
                block = [IF(["true"], block)]
            elif w == "liquid":
                block = [{"t": "liquid", "body": block}]
            elif w == "nested-render":
                name = self.new_partial(block)
                block = [{"t": "render", "name": ["str", name], "args": []}]
            else:
                self.n_macros += 1
                mn = f"n{self.n_macros}"
                block = [{"t": "macro", "name": mn, "params": [], "body": block},
                         {"t": "call", "name": mn, "args": [], "kwargs": []}]
        pre = [s for s in self.stmts(1, self.i(0, 2), Ctx(iso=True))]
        body = pre + block
        if callee_kind == "render":
            r = self.i(0, 7)
            if r == 0:
                # the rendered template extends a base and the include sits in its overriding block
                self.templates["ab"] = [T("<"), {"t": "block", "name": "k", "body": [T("dflt")]}, T(">")]
                body = [{"t": "extends", "name": ["str", "ab"]}, {"t": "block", "name": "k", "body": body}]
                path.append("overriding-block")
            elif r == 1:
                body = [{"t": "block", "name": "k", "body": body}]
                path.append("block")
            self.templates["a"] = body
            caller = [T(S_OPEN), {"t": "render", "name": ["str", "a"], "args": []}, T(S_CLOSE)]
        else:
            caller = [{"t": "macro", "name": "m", "params": [], "body": body}, T(S_OPEN),
                      {"t": "call", "name": "m", "args": [], "kwargs": []}, T(S_CLOSE)]
        if cctx == "top":
            main = caller
        else:
            self.templates["c"] = caller
            main = [{"t": cctx, "name": ["str", "c"], "args": []}]
        # control: the very same include is accepted in the top-level template
        return {"kind": "refuse", "callee": callee_kind, "cctx": cctx, "path": path, "main": main,
                "templates": self.templates, "data": self.data(), "mode": "async" if self.p(0.2) else "sync"}

    # ----------------------------------------------------------------- block (O4)

    def block_case(self) -> dict[str, Any]:
        C = Ctx(pure=True, pairs=True, call_ok=True)
        prefix: list[dict[str, Any]] = []
        for _ in range(self.i(0, 3)):
            n = self.pick(POOL)
            r = self.i(0, 3)
            if r <= 1:
                prefix.append(ASSIGN(n, self.lit()))
            elif r == 2:
                prefix.append(CAPTURE(n, [T(f"cap{self.i(0, 4)}")]))
            else:
                prefix.append({"t": self.pick(["increment", "decrement"]), "name": n})
        main: list[dict[str, Any]] = list(prefix)
        deleted = None
        before_len = 2 + len(probe("P"))
        for _ in range(4):
            s0 = self.site
            got = self.stmt(3, C)
            is_pair = bool(
                self.site > s0 and got and got[0]["t"] == "text" and got[0]["s"] == f"{S_OPEN}{self.site - 1}:"
            )
            if is_pair and deleted is None:
                # ids [s0, top) lie strictly inside the construct that the second run deletes
                deleted = [s0, self.site - 1]
                inner = got[before_len: len(got) - before_len]
                main += got[:before_len] + [{"t": "var", "who": "d", "a": inner, "b": []}] + got[len(got) - before_len:]
                if self.p(0.6):
                    break
            else:
                main += got
        main = self.macros + main + [T(f"{S_OPEN}end:"), *probe("P"), T(S_CLOSE)]
        return {"kind": "block", "main": main, "templates": self.templates, "data": self.data(),
                "sites": self.sites, "deleted": deleted, "mode": "async" if self.p(0.2) else "sync"}

    # ----------------------------------------------------------------- balance (O5)

    def balance_case(self) -> dict[str, Any]:
        self.err_kind = self.pick(["strict", "strict", "filter", "drop", "drop", "notfound", "lambda", "lambda",
                                   "witharg", "translate", "interrupt", "consumer", None, None])
        self.err_at = self.pick([0, 0, 1, 2])
        C = Ctx(call_ok=True)
        main = self.stmts(3, self.i(1, 3), C)
        if self.err_kind and not self.err_done:
            # force the error into a block at the end
            wrap = self.pick(["for", "with", "include", "render", "tablerow", "capture", "lambda-then"])
            C2 = C.sub(wrap)
            err = self.error_stmt(C2)
            if wrap in ("for", "tablerow"):
                v = self.pick(POOL)
                self.binders.append((v, wrap))
                main.append({"t": wrap, "var": v, "iter": self.rng(), "body": err, "else": None})
            elif wrap == "with":
                main.append({"t": "with", "args": [[self.pick(POOL), self.lit()]], "body": err})
            elif wrap in ("include", "render"):
                name = self.new_partial(err)
                main.append({"t": wrap, "name": ["str", name], "args": [[self.pick(POOL), self.lit()]]})
            elif wrap == "capture":
                main.append(CAPTURE(self.pick(POOL), err))
            else:
                e, _ = self.lam()
                main += [OUT(e)] + err
        main = self.macros + main
        return {"kind": "balance", "main": main, "templates": self.templates, "data": self.data(),
                "err": self.err_kind, "err_path": self.err_path,
                "binders": sorted({f"{n}={k}" for n, k in self.binders}),
                "mode": "async" if self.p(0.2) else "sync"}


@st.composite
def case_strategy(draw: Any, disabled: frozenset[str]) -> dict[str, Any]:
    g = G(draw, disabled)
    r = g.i(0, 19)
    if r < 9:
        return g.iso_case()
    if r < 11:
        return g.refuse_case()
    if r < 16:
        return g.block_case()
    return g.balance_case()


# --------------------------------------------------------------------------- fault injection


class Boom(Mapping):  # type: ignore[type-arg]
    """A drop every item access of which fails with a LiquidError."""

    def __getitem__(self, key: object) -> object:
        raise LiquidTypeError(f"boom: {key!r}", token=None)

    def __iter__(self) -> Any:
        return iter(())

    def __len__(self) -> int:
        return 0


RE_SEG = re.compile(re.escape(S_OPEN) + r"(.*?)" + re.escape(S_CLOSE), re.S)
RE_EVENT = re.compile(
    re.escape(S_OPEN) + r"(\w+):([^" + S_CLOSE + r"]*)" + re.escape(S_CLOSE)
    + "|" + re.escape(A_OPEN) + r"(\w+):([^" + A_CLOSE + r"]*)" + re.escape(A_CLOSE),
    re.S,
)
RE_LEAD = re.compile(r"L\{[^}]*\}")


def events(text: str) -> list[tuple[str, str, str]]:
    out = []
    for m in RE_EVENT.finditer(text):
        if m.group(1) is not None:
            out.append(("before", m.group(1), m.group(2)))
        else:
            out.append(("after", m.group(3), m.group(4)))
    return out


def diff_fields(a: str, b: str) -> list[str]:
    pa, pb = parse_probe(a), parse_probe(b)
    return sorted({FIELD_NAME.get(k, k) for k in set(pa) | set(pb) if pa.get(k) != pb.get(k)})


def constructs_for(names: list[str], binders: list[str], fallback: str, crossed: list[str] | None = None) -> str:
    """The constructs that bind the given names (preferring those crossed by a break / continue)."""
    kinds = sorted({b.split("=", 1)[1] for b in binders if b.split("=", 1)[0] in names})
    if crossed:
        pref = [k for k in kinds if k.split("-")[0] in crossed]
        kinds = pref or kinds
    return "+".join(kinds[:2]) + ("+more" if len(kinds) > 2 else "") if kinds else fallback


# --------------------------------------------------------------------------- the property


class C07(Prop):
    id = "C07"
    title = "render/macro scopes are isolated and block scopes do not leak"
    technique = ("property-based testing: non-interference (two-run) oracles on sentinel-delimited output, "
                 "before/after probes, context balance after return or error")
    rule = (
        "caller program x partial/macro body over one shared pool of 5 names (a, b, c, x, forloop) with assign, "
        "capture, increment/decrement, cycle, for, tablerow, with, if, nested render/include/call, lambdas in "
        "map/where/reject/find/find_index/has/sort/sum/uniq/compact, translate with arguments; exits by break/continue "
        "(also raised from an included partial) and by errors (StrictUndefined, filter error, failing drop, missing "
        "template, error inside a lambda / translate / with argument, stray break in a rendered partial). A case is "
        "non-trivial when (iso) a varied binding's name is statically read - free - by the other fragment, (refuse) "
        "the include is reachable, (block) a paired construct binds a pool name and its after-probe was emitted, "
        "(balance) the render ran through at least one scope-pushing construct; distinct by SHA-1 of the case"
    )
    assumptions = [
        "`include` shares the caller's scope by design: only its keyword arguments / bound variable are block scoped",
        "a callee legitimately sees template globals, its own arguments, args/kwargs (macro) and forloop (render for)",
        "arguments of the call are literals, so a difference between the two runs cannot flow through them",
        "block bodies used for the before/after oracle assign only scratch names that no probe reads",
        "callee outputs are compared position by position on the common prefix; a wrapping loop changes its length "
        "between the two runs only when it is the single loop level (otherwise segments would re-align)",
        "one context serves all iterations of `render ... for`: what the callee assigns in one iteration may shadow "
        "its arguments in the next (not claimed either way), so argument visibility is read from the first probe",
        "O5 is evaluated after the caller's `except` block has ended (a lambda generator suspended by an error in "
        "its consumer is closed when the traceback is released; until then scope.size() is one too large - counted "
        "as label O5:size-off-while-exception-alive, no name is visible through it)",
        "kept out of the programs because they fail for reasons of their own: a tablerow tag directly inside a "
        "tablerow block (does not parse), comparing two ForLoop drops (uniq/sort keyed by forloop: advances the loop)",
        "flag 'outer-args' (arguments / bound variable / forloop of an ENCLOSING render or call, varied as locals "
        "of the caller of a nested render / call) can be switched off by a known finding or LV_C07_DISABLE=outer-args",
    ]
    batch = 250

    def n_random(self, tier: str) -> int:
        return 20000 if tier == "quick" else 250000

    def strategy(self, tier: str, disabled: frozenset[str]):
        return case_strategy(frozenset(disabled) | EXTRA_DISABLED)

    def budget_s(self, tier: str) -> float:
        return 240 if tier == "quick" else 3000

    def enumerate(self, tier: str, disabled: frozenset[str]):
        """A few fixed programs: the documented argument forms with and without any globals."""

        def iso(callee: str, main: list[dict[str, Any]], a: list[dict[str, Any]], expect: dict[str, Any],
                data: dict[str, Any], mode: str, pre: list[dict[str, Any]] | None = None) -> dict[str, Any]:
            vary = {"t": "var", "who": "caller:1", "a": [ASSIGN("x", ["int", 1])], "b": [ASSIGN("x", ["int", 2])]}
            eff = {"t": "var", "who": "callee:2", "a": [ASSIGN("b", ["int", 3])], "b": [ASSIGN("b", ["int", 4])]}
            body = probe("L") + a + [eff]
            head = []
            templates: dict[str, Any] = {"b": [T("included")]}
            if callee == "render":
                templates["a"] = body
            else:
                head = [{"t": "macro", "name": "m", "params": [["a", None], ["c", ["int", 7]]], "body": body}]
            return {"kind": "iso", "callee": callee, "cctx": "top", "wrappers": [], "outer_bound": False,
                    "main": head + [vary, *(pre or []), T(S_OPEN), *main, T(S_CLOSE), *probe("R")], "templates": templates,
                    "data": data, "varied_caller": [["x", "assign", 1]], "varied_callee": [["b", "assign", 2]],
                    "expect": expect, "mode": mode}

        for data in ({}, {"c": 11}):
            for mode in ("sync", "async"):
                yield iso("render", [{"t": "render", "name": ["str", "a"], "var": ["int", 5], "loop": False,
                                      "args": []}], [], {"a": "5"}, data, mode)
                yield iso("render", [{"t": "render", "name": ["str", "a"], "var": ["range", ["int", 2], ["int", 3]],
                                      "loop": True, "alias": "x", "args": []}], [], {"x": ["2", "3"], "fi": "1"},
                          data, mode)
                yield iso("render", [{"t": "render", "name": ["str", "a"], "args": [["x", ["str", "p"]]]}], [],
                          {"x": "p"}, data, mode)
                yield iso("call", [{"t": "call", "name": "m", "args": [["int", 1]], "kwargs": [["k", ["int", 2]]]}],
                          [], {"a": "1", "c": "7", "kw": "2"}, data, mode)
        # a call argument that has the name of an earlier parameter is the CALLER's variable of that name
        for mode in ("sync", "async"):
            yield iso("call", [{"t": "call", "name": "m", "args": [["str", "P"], ["path", "a", []]], "kwargs": []}],
                      [], {"a": "P", "c": "GA"}, {"a": "GA"}, mode)
            yield iso("call", [{"t": "call", "name": "m", "args": [["str", "P"]], "kwargs": [["c", ["path", "a", []]]]}],
                      [], {"a": "P", "c": "GA"}, {"a": "GA"}, mode)

        # an earlier call (or render) that was handed the caller's variable leaves nothing behind for a later one
        for mode in ("sync", "async"):
            xarg = ["path", "x", []]
            yield iso("call", [{"t": "call", "name": "m", "args": [], "kwargs": []}], [], {"a": "", "c": "7"}, {}, mode,
                      pre=[{"t": "call", "name": "m", "args": [xarg], "kwargs": [["c", xarg]]}])
            yield iso("call", [{"t": "call", "name": "m", "args": [], "kwargs": [["c", ["int", 9]]]}], [],
                      {"a": "", "c": "9"}, {}, mode,
                      pre=[{"t": "call", "name": "m", "args": [xarg, xarg], "kwargs": [["k", xarg]]}])
            yield iso("render", [{"t": "render", "name": ["str", "a"], "args": []}], [], {"a": ""}, {}, mode,
                      pre=[{"t": "render", "name": ["str", "a"], "args": [["a", xarg], ["c", xarg]]},
                           {"t": "render", "name": ["str", "a"], "var": xarg, "loop": False, "args": []}])

        # items of `render ... for` do not see one another's assignments
        bodies = [
            "[{{ x }}{% assign x = 'L' %}]", "[{{ z }}{{ x }}{% assign z = x %}]", "[{{ c }}{% capture c %}C{{ x }}{% endcapture %}]",
            "[{{ x }}{% for x in (7..8) %}{% assign x = 0 %}{% endfor %}{% assign x = nil %}]",
            "[{{ k }}{{ x }}{% assign k = 'K' %}]", "[{% if seen %}again{% else %}first{% endif %}{% assign seen = true %}]",
            "[{{ x }}{% liquid\nassign x = 5\necho x %}]", "[{{ n }}{% increment n %}]",
        ]
        for body in bodies:
            for mode in ("sync", "async"):
                for items, n in (("(1..3)", 3), ("xs", 2)):
                    for args in ("", ", k: 'A'"):
                        yield {"kind": "items", "templates": {"p": body}, "items": items, "n": n, "alias": "x",
                               "args": args, "data": {"xs": ["a", "b"]}, "mode": mode}

        # O5 with a resource-limit error raised by the scope-pushing construct itself
        def withs(n: int, inner: list[dict[str, Any]]) -> list[dict[str, Any]]:
            for k in range(n):
                inner = [{"t": "with", "args": [[f"w{k}", ["int", k]]], "body": inner}]
            return inner

        rng = ["range", ["int", 1], ["int", 2]]
        for mode in ("sync", "async"):
            for depth in (1, 2, 3):
                for cons in ("for", "tablerow", "with", "capture"):
                    if cons in ("for", "tablerow"):
                        inner = [{"t": cons, "var": "x", "iter": rng, "body": withs(2, [T("x")]), "else": None}]
                    elif cons == "with":
                        inner = withs(3, [T("x")])
                    else:
                        inner = [CAPTURE("c", withs(3, [T("x")]))]
                    for extra in (2, 3, 4, 5, 6):  # one of these puts the limit exactly at `cons`
                        yield {"kind": "balance", "main": withs(depth, inner), "templates": {}, "data": {},
                               "err": "depth", "err_path": [cons], "binders": [], "mode": mode,
                               "limits": {"context_depth_limit": depth + extra}}

    # ------------------------------------------------------------------ running

    def _sources(self, case: Any, sides: dict[str, str]) -> tuple[str, dict[str, str]]:
        main = to_source(resolve(case["main"], sides))
        templates = {k: to_source(resolve(v, sides)) for k, v in case["templates"].items()}
        return main, templates

    def _run(self, case: Any, sides: dict[str, str]) -> tuple[str, Any]:
        src, templates = self._sources(case, sides)
        env = make_env(templates, shopify=True)
        tmpl = env.from_string(src)  # a LiquidError here is a generator bug: let it propagate
        try:
            if case.get("mode") == "async":
                return ("ok", run_coro(tmpl.render_async(**case["data"])))
            return ("ok", tmpl.render(**case["data"]))
        except LiquidError as err:
            return ("err", type(err).__name__ + ": " + str(err).splitlines()[0][:80])

    def check(self, case: Any, disabled: frozenset[str] = frozenset()) -> Result:
        res = Result()
        kind = case["kind"]
        res.labels.append("kind:" + kind)
        res.labels.append("mode:" + case.get("mode", "sync"))
        try:
            if kind == "iso":
                self._check_iso(case, res, frozenset(disabled) | EXTRA_DISABLED)
            elif kind == "refuse":
                self._check_refuse(case, res)
            elif kind == "block":
                self._check_block(case, res)
            elif kind == "items":
                self._check_items(case, res)
            else:
                self._check_balance(case, res)
        except RecursionError:
            res.labels.append("recursion")
        return res

    # ------------------------------------------------------------------ items of `render ... for`

    def _check_items(self, case: Any, res: Result) -> None:
        """`render 'p' for xs`: p is rendered once per item, each time seeing only global data and its
        arguments - so what p assigns, captures or counts while rendering one item cannot be seen while it
        renders the next, and the output is the concatenation of the single-item renders."""
        env = make_env(case["templates"], shopify=True)
        items = case["items"]
        alias = case["alias"]
        args = case["args"]

        def run(src: str) -> tuple[str, str]:
            try:
                t = env.from_string(src)
                if case.get("mode") == "async":
                    return ("ok", run_coro(t.render_async(**case["data"])))
                return ("ok", t.render(**case["data"]))
            except LiquidError as err:
                return ("err", type(err).__name__)

        whole = run("{% render 'p' for " + items + " as " + alias + args + " %}")
        res.evaluations = 1
        res.nontrivial = True
        if whole[0] != "ok":
            res.labels.append("items:error")
            return
        # the reference: one `render ... with` per item, the forloop helper stripped from both
        n = case["n"]
        singles = []
        for k in range(n):
            one = run("{% assign it = " + items + " %}{% render 'p' with it[" + str(k) + "] as " + alias + args + " %}")
            res.evaluations += 1
            if one[0] != "ok":
                res.labels.append("items:single-error")
                return
            singles.append(one[1])
        if whole[1] != "".join(singles):
            res.fail("O1", "render-for:items-interfere",
                     f"render 'p' for {items} gave {whole[1]!r}; the items rendered one by one give {singles!r}; "
                     f"p={case['templates']['p']!r}")

    # ------------------------------------------------------------------ O1 / O2 / O0

    def _check_iso(self, case: Any, res: Result, disabled: frozenset[str]) -> None:  # noqa: PLR0912
        ck = case["callee"]
        vc = case["varied_caller"]
        if "outer-args" in disabled and case.get("outer_bound"):
            res.excluded.append("outer-args")
            return
        base = self._run(case, {})
        res.evaluations = 1
        res.labels.append(f"iso:{ck}:{case['cctx']}")
        if base[0] != "ok":
            res.labels.append("iso-base-error:" + base[1].split(":")[0])
            return
        segs0 = RE_SEG.findall(base[1])
        outside0 = RE_SEG.sub(S_OPEN + S_CLOSE, base[1])

        # static non-triviality
        src_main = resolve(case["main"], {})
        templates = {k: resolve(v, {}) for k, v in case["templates"].items()}
        callee_reads: set[tuple[str, str]] = set()
        caller_reads: set[tuple[str, str]] = set()
        caller_frag = templates.get("c", src_main)
        if case["cctx"] == "block":
            caller_frag = src_main[1]["body"]
        for s in caller_frag + src_main:
            if s["t"] == "macro" and s["name"] != "m":
                caller_frag = s["body"]
        call = find_call(caller_frag)
        if ck == "render" and call is not None:
            own = {k for k, _ in call.get("args") or []}
            if call.get("var") is not None:
                own.add(call.get("alias") or "a")
                if call.get("loop"):
                    own.add("forloop")
            stmt_reads(templates["a"], templates, frozenset(own), set(), callee_reads)
        for s in caller_frag:
            if s["t"] == "macro" and s["name"] == "m":
                own = {q[0] for q in s["params"]} | {"args", "kwargs"}
                stmt_reads(s["body"], templates, frozenset(own), set(), callee_reads)
        # the caller's reads after the call: everything in the caller fragment (probes R/Q read the whole pool)
        stmt_reads([s for s in caller_frag if s["t"] != "macro"], {k: v for k, v in templates.items() if k == "b"},
                   frozenset(), NoKill(), caller_reads)
        nt_caller = [v for v in vc if reads_binding(callee_reads, v[0], v[1])]
        nt_callee = [v for v in case["varied_callee"] if reads_binding(caller_reads, v[0], v[1])]

        def seg_diff(text: str) -> tuple[int, str, str] | None:
            segs1 = RE_SEG.findall(text)
            for i in range(min(len(segs0), len(segs1))):
                if segs0[i] != segs1[i]:
                    return (i, segs0[i], segs1[i])
            return None

        # ---- O1
        if vc:
            var = self._run(case, {"caller": "b"})
            res.evaluations += 1
            if var[0] != "ok":
                for kk in self._attribute(case, "caller", vc, lambda o: o[0] != "ok", set(), res):
                    res.fail("O1", f"caller-to-callee:{ck}:{kk}:error-diff",
                             f"varying caller locals {vc} turned the render into {var[1]!r}; {self._show(case)}")
            else:
                d = seg_diff(var[1])
                if d is not None:
                    names = self._leaked(d[1], d[2])
                    for kk in self._attribute(
                            case, "caller", vc, lambda o: o[0] != "ok" or seg_diff(o[1]) is not None, names, res):
                        res.fail("O1", f"caller-to-callee:{ck}:{kk}",
                                 f"callee output #{d[0]} differs when only caller locals vary: {d[1]!r} vs "
                                 f"{d[2]!r}; varied={vc}; {self._show(case)}")
                if nt_caller and segs0:
                    res.nontrivial = True
                    for v in nt_caller:
                        res.labels.append(f"O1:{ck}:{v[1]}")

        # ---- O2
        ve = case["varied_callee"]
        if ve:
            var = self._run(case, {"callee": "b"})
            res.evaluations += 1

            def out_diff(o: tuple[str, Any]) -> bool:
                return o[0] == "ok" and RE_SEG.sub(S_OPEN + S_CLOSE, o[1]) != outside0

            if var[0] != "ok":
                res.labels.append("O2-variant-error")  # the callee's own business
            else:
                if out_diff(var):
                    outside1 = RE_SEG.sub(S_OPEN + S_CLOSE, var[1])
                    names = self._leaked(outside0, outside1)
                    for kk in self._attribute(case, "callee", ve, out_diff, names, res):
                        res.fail("O2", f"callee-to-caller:{ck}:{kk}",
                                 f"caller text differs when only callee effects vary: {outside0!r} vs {outside1!r}; "
                                 f"varied={ve}; {self._show(case, {'callee': 'b'})}")
                if nt_callee and segs0:
                    res.nontrivial = True
                    for v in nt_callee:
                        res.labels.append(f"O2:{ck}:{v[1]}")

        # ---- O0: literal arguments are visible
        if case["expect"] and segs0:
            for seg in segs0:
                leads = [parse_probe(m) for m in RE_LEAD.findall(seg)]
                for field, want in case["expect"].items():
                    # only the first probe: one context serves all iterations of the loop form, so what
                    # the callee assigns in one iteration legitimately shadows its arguments in the next
                    got = leads[0].get(field) if leads else None
                    form = "loop" if isinstance(want, list) else "arg"
                    want = want[0] if isinstance(want, list) else want
                    if leads and got != want:
                        res.fail("O0", f"arg-not-visible:{ck}:{form}",
                                 f"argument {field!r} should read {want!r} in the callee, read {got!r}; "
                                 f"{self._show(case)}")
                        return

    def _attribute(self, case: Any, party: str, varied: list[list[Any]], differs: Any, names: set[str],
                   res: Result) -> list[str]:
        """Binding kinds of the single variations that reproduce the difference on their own."""
        culprits = []
        for vid in sorted({v[2] for v in varied}):
            out = self._run(case, {f"{party}:{vid}": "b"})
            res.evaluations += 1
            if differs(out):
                culprits.append(vid)
        ents = [v for v in varied if v[2] in culprits] or varied
        named = [v for v in ents if v[0] in names]
        return sorted({v[1] for v in (named or ents)})

    def _leaked(self, a: str, b: str) -> set[str]:
        """Names whose probe fields differ between two texts (best effort, for bucketing)."""
        pa = re.findall(r"[A-Z]\{[^}]*\}", a)
        pb = re.findall(r"[A-Z]\{[^}]*\}", b)
        names: set[str] = set()
        for x, y in zip(pa, pb):
            if x != y:
                names.update(diff_fields(x, y))
        return names

    # ------------------------------------------------------------------ O3

    def _check_refuse(self, case: Any, res: Result) -> None:
        ck = case["callee"]
        out = self._run(case, {})
        res.nontrivial = True
        res.labels.append(f"O3:{ck}:{case['path'][-1] if case['path'] else 'direct'}")
        if out[0] == "ok":
            res.fail("O3", f"include-not-refused:{ck}",
                     f"include executed inside a {ck} callee (path {case['path']}, caller {case['cctx']}) rendered "
                     f"{out[1]!r}; {self._show(case)}")
        elif not out[1].startswith("DisabledTagError"):
            res.fail("O3", f"include-not-refused:{ck}:other-error",
                     f"expected DisabledTagError, got {out[1]!r}; {self._show(case)}")

    # ------------------------------------------------------------------ O4

    def _check_block(self, case: Any, res: Result) -> None:
        sites = case["sites"]
        base = self._run(case, {})
        if base[0] != "ok":
            res.labels.append("block-base-error:" + base[1].split(":")[0])
            return
        ev0 = events(base[1])
        last: dict[str, str] = {}
        for kind, sid, text in ev0:
            if kind == "before":
                last[sid] = text
                continue
            want = last.pop(sid, None)
            if want is None or sid not in sites:
                continue
            info = sites[sid]
            if info["binders"]:
                res.nontrivial = True
            for ex in info["exits"] or ["normal"]:
                res.labels.append(f"O4:{info['kind']}:{ex}")
            if want != text:
                names = diff_fields(want, text)
                cons = constructs_for(names, info["binders"], info["kind"], info.get("crossed"))
                res.fail("O4", f"block-leak:{cons}:{'+'.join(info['exits']) or 'normal'}",
                         f"names {names} read {want!r} before and {text!r} after the {info['kind']} block "
                         f"(site {sid}); {self._show(case)}")
                return
        # deletion of the outermost block
        if case.get("deleted") is not None:
            lo, hi = case["deleted"]
            inner = {str(i) for i in range(lo, hi)}
            var = self._run(case, {"d": "b"})
            res.evaluations = 2
            info = sites[str(hi)]
            if var[0] != "ok":
                res.fail("O4", f"block-leak:{info['kind']}:delete-error", f"{var[1]!r}; {self._show(case)}")
                return
            e0 = [e for e in ev0 if e[1] not in inner]
            e1 = events(var[1])
            if e0 != e1:
                bad = next((x for x, y in zip(e0, e1) if x != y), None)
                names = diff_fields(bad[2], next(y for x, y in zip(e0, e1) if x != y)[2]) if bad else []
                cons = constructs_for(names, info["binders"], info["kind"], info.get("crossed"))
                res.fail("O4-delete", f"block-leak:{cons}:{'+'.join(info['exits']) or 'normal'}",
                         f"deleting the {info['kind']} block changes probes outside it: first difference {bad!r} "
                         f"(names {names}); {self._show(case)}")

    # ------------------------------------------------------------------ O5

    def _check_balance(self, case: Any, res: Result) -> None:  # noqa: PLR0912
        src, templates = self._sources(case, {})
        strict = case["err"] in ("strict", "translate") or (case["err"] == "lambda")
        env = make_env(templates, shopify=True, undefined=StrictUndefined if strict else None,
                       limits=case.get("limits"))
        tmpl = env.from_string(src)
        data = dict(case["data"])
        data["boom"] = Boom()
        data["sv"] = "r"
        ctx = RenderContext(tmpl, global_data=tmpl.make_globals(data))
        before = (ctx.scope.size(), len(ctx.loops), ctx.template, set(ctx.disabled_tags))
        buf = io.StringIO()
        exit_kind = "return"
        try:
            if case.get("mode") == "async":
                run_coro(tmpl.render_with_context_async(ctx, buf))
            else:
                tmpl.render_with_context(ctx, buf)
        except LiquidError as err:
            exit_kind = type(err).__name__
            if ctx.scope.size() != before[0]:
                # informational: a lambda generator suspended in `with context.extend()` is only closed when
                # the traceback that references it is released (no name is visible through it, see report)
                res.labels.append("O5:size-off-while-exception-alive")
        # The exception object is gone here; the oracle is evaluated once the caller has handled the error.
        after = (ctx.scope.size(), len(ctx.loops), ctx.template, set(ctx.disabled_tags))
        if after != before:
            gc.collect()
            again = (ctx.scope.size(), len(ctx.loops), ctx.template, set(ctx.disabled_tags))
            if again == before:
                res.labels.append("O5:balanced-only-after-gc")
                after = again
        path = case["err_path"] if exit_kind != "return" else []
        where = ">".join(path[-3:]) or "top"
        res.labels.append(f"O5:{exit_kind}:{path[-1] if path else 'top'}")
        res.nontrivial = bool(path) or (exit_kind == "return" and bool(case["binders"]))
        for field, b, a in zip(("scope", "loops", "template", "disabled_tags"), before, after):
            if b != a:
                cons = "for" if field == "loops" else (path[-1] if path else "top")
                if field == "scope" and isinstance(a, int) and isinstance(b, int) and a > b:
                    keys = sorted({str(k) for m in list(ctx.scope._maps)[: a - b] for k in m})
                    cons = constructs_for(keys, case["binders"], "anon")
                res.fail("O5", f"unbalanced:{field}:{cons}:{exit_kind}",
                         f"{field} was {b!r} before and {a!r} after render_with_context ({exit_kind}, error inside "
                         f"{path}); src={src!r} templates={templates!r}")
                return
        # same context vs fresh context with the same locals / counters
        fresh = RenderContext(tmpl, global_data=tmpl.make_globals(data))
        fresh.locals.update(ctx.locals)
        fresh.counters.update(ctx.counters)
        n = 1
        for name in POOL + SPECIAL + SCRATCH:
            probe_t = env.from_string("{{ " + name + " }}")
            got = self._probe(probe_t, ctx)
            want = self._probe(probe_t, fresh)
            n += 2
            if got != want:
                cons = constructs_for([name], case["binders"], "anon")
                res.fail("O5", f"unbalanced:probe:{cons}:{exit_kind}",
                         f"after {exit_kind} inside {path}, {{{{ {name} }}}} renders {got!r} with the used context and "
                         f"{want!r} with a fresh one; src={src!r} templates={templates!r}")
                break
        res.evaluations = n

    def _probe(self, tmpl: Any, ctx: Any) -> tuple[str, str]:
        buf = io.StringIO()
        try:
            tmpl.render_with_context(ctx, buf)
        except LiquidError as err:
            return ("err", type(err).__name__)
        return ("ok", buf.getvalue())

    # ------------------------------------------------------------------ reporting

    def _show(self, case: Any, sides: dict[str, str] | None = None) -> str:
        src, templates = self._sources(case, {})
        short = {k: v.replace(PROBE_SRC, "{PROBE}") for k, v in templates.items()}
        s = f"src={src.replace(PROBE_SRC, '{PROBE}')!r} templates={short!r} data={case['data']!r}"
        if case["kind"] == "iso":
            src2, t2 = self._sources(case, sides or {"caller": "b"})
            if src2 != src:
                s += f" variant-src={src2.replace(PROBE_SRC, '{PROBE}')!r}"
            diff = {k: v.replace(PROBE_SRC, "{PROBE}") for k, v in t2.items() if templates.get(k) != v}
            if diff:
                s += f" variant-templates={diff!r}"
        return s

    def sample(self, case: Any) -> Any:
        if case["kind"] == "items":
            return {"kind": "items", "src": "{% render 'p' for " + case["items"] + " as x" + case["args"] + " %}",
                    "templates": case["templates"]}
        src, templates = self._sources(case, {})
        return {"kind": case["kind"], "src": src[:300], "templates": {k: v[:120] for k, v in list(templates.items())[:3]}}


PROP = C07()
