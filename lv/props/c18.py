"""C18 - whitespace control changes nothing but whitespace."""

from __future__ import annotations

import copy
import random
from typing import Any

from hypothesis import strategies as st

from lv.core.runner import Prop
from lv.core.runner import Result
from lv.core.runner import exc_bucket
from lv.gen.grammar import WS_CHARS
from lv.gen.grammar import Cfg
from lv.gen.grammar import data_strategy
from lv.gen.grammar import program_strategy
from lv.gen.printer import to_source
from lv.harness.envs import make_env
from lv.harness.envs import run_coro

from liquid2.exceptions import LiquidError

CFG = Cfg(wc_rate=0.0, ws_text=True, inspect_captures=False, shopify=True, tablerow=True, confusion=0.02,
          budget=12, max_depth=3, partials=False)

MARKS = ["", "-", "~", "+"]
STRIP_CHARS = set(WS_CHARS)


def strip_ws(s: str) -> str:
    return "".join(ch for ch in s if not ch.isspace())


def marker_fields(s: dict[str, Any]) -> list[tuple[str, int]]:
    """(field, number of marker slots) for one statement, in a fixed order."""
    t = s["t"]
    out: list[tuple[str, int]] = []
    if t in ("text", "rawsrc"):
        return out
    if t == "raw":
        return [("wc4", 4)]
    if t == "comment":
        out.append(("wc", 2))
        if s["kind"] == "block":
            out.append(("wc2", 2))
        return out
    out.append(("wc", 2))
    if t in ("if", "unless"):
        out.append(("wc_elsifs", 2 * len(s.get("elsifs") or [])))
        if s.get("else") is not None:
            out.append(("wc_else", 2))
        out.append(("wc_end", 2))
    elif t == "case":
        out.append(("wc_whens", 2 * len(s["whens"])))
        if s.get("else") is not None:
            out.append(("wc_else", 2))
        out.append(("wc_end", 2))
    elif t in ("for", "tablerow"):
        if s.get("else") is not None:
            out.append(("wc_else", 2))
        out.append(("wc_end", 2))
    elif t in ("capture", "with", "macro", "block"):
        out.append(("wc_end", 2))
    return out


def walk(stmts: list[dict[str, Any]], fn: Any, in_liquid: bool = False) -> None:
    for s in stmts:
        fn(s, in_liquid)
        inner = in_liquid or s["t"] == "liquid"
        for key in ("body", "else"):
            if isinstance(s.get(key), list):
                walk(s[key], fn, inner)
        for _c, b in s.get("elsifs") or []:
            walk(b, fn, inner)
        for _v, b in s.get("whens") or []:
            walk(b, fn, inner)


def count_slots(prog: list[dict[str, Any]]) -> int:
    n = [0]

    def fn(s: dict[str, Any], in_liquid: bool) -> None:
        if in_liquid:
            return
        n[0] += sum(k for _f, k in marker_fields(s))

    walk(prog, fn)
    return n[0]


def assign_markers(prog: list[dict[str, Any]], choose: Any) -> list[dict[str, Any]]:
    """A copy of prog with every marker slot set by choose() (called once per slot in a fixed order)."""
    prog = copy.deepcopy(prog)

    def fn(s: dict[str, Any], in_liquid: bool) -> None:
        if in_liquid:
            return  # line statements have no markers of their own
        for fld, k in marker_fields(s):
            vals = [choose() for _ in range(k)]
            if fld in ("wc_elsifs", "wc_whens"):
                s[fld] = [vals[i:i + 2] for i in range(0, k, 2)]
            else:
                s[fld] = vals

    walk(prog, fn)
    return prog


def assignments(prog: list[dict[str, Any]], seeds: list[int]) -> list[tuple[str, list[dict[str, Any]]]]:
    out = [(f"all{m or 'none'}", assign_markers(prog, lambda m=m: m)) for m in MARKS]
    n = count_slots(prog)
    if 0 < n <= 4:
        # exhaustive over all 4^n assignments
        for code in range(4 ** n):
            digits = []
            c = code
            for _ in range(n):
                digits.append(MARKS[c % 4])
                c //= 4
            it = iter(digits)
            out.append((f"enum{code}", assign_markers(prog, lambda it=it: next(it))))
    else:
        for sd in seeds:
            rnd = random.Random(sd)
            out.append((f"seed{sd}", assign_markers(prog, lambda rnd=rnd: rnd.choice(MARKS))))
    return out


# --------------------------------------------------------------------------- adjacency
#
# "affect only whitespace in literal text adjacent to the marked markup": a marker on a side of a piece of markup
# that has no literal text next to it - other markup, the inside of a comment, the start or end of the template -
# has nothing to act on, so the output may not depend on it at all, character for character.  The sources are
# flat sequences written by this module (so that adjacency is known by construction), optionally wrapped in an
# always-true `if` / a one-pass `for`.

ADJ_KINDS = ("text", "text", "text", "out", "hash", "inline", "block", "assign", "echo", "raw", "liquid", "open", "close")


@st.composite
def adj_case(draw: Any) -> dict[str, Any]:
    n = draw(st.integers(2, 8))
    items: list[list[Any]] = []
    depth = 0
    for _ in range(n):
        k = draw(st.sampled_from(ADJ_KINDS))
        if k == "text":
            if items and items[-1][0] == "text":
                k = draw(st.sampled_from(["out", "hash", "inline", "block", "assign"]))
            else:
                items.append(["text", draw(static_text())])
                continue
        if k == "open":
            if depth >= 2:
                continue
            depth += 1
            items.append(["open", draw(st.sampled_from(["if", "for", "unless", "capture"]))])
        elif k == "close":
            if depth == 0:
                continue
            depth -= 1
            items.append(["close"])
        else:
            items.append([k])
    for _ in range(depth):
        items.append(["close"])
    return {"kind": "adj", "items": items, "base": draw(st.lists(st.integers(0, 3), min_size=40, max_size=40)),
            "alt": draw(st.lists(st.integers(0, 3), min_size=40, max_size=40)),
            "default": draw(st.sampled_from(["+", "-", "~"])), "suppress": draw(st.booleans())}


def adj_source(items: list[list[Any]], marks: list[int], alt: list[int] | None) -> tuple[str, int, int]:
    """(source, number of slots, number of free slots).  Slot values come from `marks`; with `alt`, every free
    slot (no literal text on its side) takes its value from `alt` instead."""
    # expand block pairs; pieces are ("text", s) or ("mk", head, tail) with head/tail the markup text around markers
    pieces: list[tuple[Any, ...]] = []
    stack: list[str] = []
    for it in items:
        k = it[0]
        if k == "text":
            pieces.append(("text", it[1]))
        elif k == "out":
            pieces.append(("mk", "{{", " 'o' ", "}}"))
        elif k == "hash":
            pieces.append(("mk", "{#", " c ", "#}"))
        elif k == "inline":
            pieces.append(("mk", "{%", " # c ", "%}"))
        elif k == "block":
            pieces.append(("mk", "{%", " comment ", "%}"))
            pieces.append(("ctext", "  c  "))
            pieces.append(("mk", "{%", " endcomment ", "%}"))
        elif k == "assign":
            pieces.append(("mk", "{%", " assign v = 1 ", "%}"))
        elif k == "echo":
            pieces.append(("mk", "{%", " echo 'e' ", "%}"))
        elif k == "liquid":
            pieces.append(("mk", "{%", " liquid echo 'l' ", "%}"))
        elif k == "raw":
            pieces.append(("mk", "{%", " raw ", "%}"))
            pieces.append(("text", " r "))
            pieces.append(("mk", "{%", " endraw ", "%}"))
        elif k == "open":
            stack.append(it[1])
            head = {"if": " if true ", "unless": " unless false ", "for": " for i in (1..1) ", "capture": " capture cap "}[it[1]]
            pieces.append(("mk", "{%", head, "%}"))
        elif k == "close":
            t = stack.pop()
            pieces.append(("mk", "{%", " end" + t + " ", "%}"))
            if t == "capture":
                pieces.append(("mk", "{{", " cap ", "}}"))
    out: list[str] = []
    slot = 0
    free = 0
    for i, pc in enumerate(pieces):
        if pc[0] != "mk":
            out.append(pc[1])
            continue
        sides = []
        for nb in (pieces[i - 1] if i > 0 else None, pieces[i + 1] if i + 1 < len(pieces) else None):
            is_free = nb is None or nb[0] != "text"
            v = (alt if (alt is not None and is_free) else marks)[slot % len(marks)]
            free += is_free
            slot += 1
            sides.append(MARKS[v])
        out.append(pc[1] + sides[0] + pc[2] + sides[1] + pc[3])
    return "".join(out), slot, free


# --------------------------------------------------------------------------- exact model (static control flow)

ws_run = st.text(alphabet=WS_CHARS, max_size=3)
core_run = st.text(alphabet="abX.,<é", min_size=0, max_size=3)


@st.composite
def static_text(draw: Any) -> str:
    s = draw(ws_run) + draw(core_run) + draw(ws_run)
    if draw(st.integers(0, 3)) == 0:
        s = draw(ws_run)
    return s.replace("{{", "{ {").replace("{%", "{ %").replace("{#", "{ #").rstrip("{") or " "


@st.composite
def static_block(draw: Any, depth: int) -> list[dict[str, Any]]:
    stmts: list[dict[str, Any]] = []
    for _ in range(draw(st.integers(1, 4 if depth else 3))):
        k = draw(st.integers(0, 13 if depth > 0 else 8))
        if draw(st.integers(0, 9)) == 0:
            # several identical cycle tags share one iterator, however each of them is marked
            stmts.append({"t": "cycle", "group": None, "items": [["str", "p"], ["str", "q"], ["str", "r"]]})
            continue
        if k <= 2:
            if stmts and stmts[-1]["t"] == "text":
                continue
            stmts.append({"t": "text", "s": draw(static_text())})
        elif k == 3:
            stmts.append({"t": "out", "e": ["str", draw(st.sampled_from(["V", " v ", "", "<"]))]})
        elif k == 4:
            stmts.append({"t": "comment", "kind": draw(st.sampled_from(["hash", "inline", "block"])), "s": " c ",
                          "hashes": draw(st.sampled_from([1, 2]))})
        elif k == 5:
            inner = draw(static_text()).replace("endraw", "x")
            stmts.append({"t": "raw", "s": inner})
        elif k == 6:
            stmts.append({"t": "assign", "name": "v", "e": ["int", 1]})
        elif k == 7:
            stmts.append({"t": "echo", "e": ["str", "E"]})
        elif k == 8:
            stmts.append({"t": "liquid", "body": [{"t": "assign", "name": "w", "e": ["int", 2]},
                                                  {"t": "echo", "e": ["str", "L"]}][: draw(st.integers(1, 2))]})
        elif k in (9, 10):
            cond = draw(st.sampled_from(["true", "false"]))
            s: dict[str, Any] = {"t": draw(st.sampled_from(["if", "if", "unless"])), "cond": [cond],
                                 "body": draw(static_block(depth - 1)), "elsifs": [], "else": None}
            if draw(st.booleans()):
                s["elsifs"] = [[[draw(st.sampled_from(["true", "false"]))], draw(static_block(depth - 1))]]
            if draw(st.booleans()):
                s["else"] = draw(static_block(depth - 1))
            stmts.append(s)
        elif k == 11:
            stmts.append({"t": "for", "var": "i", "iter": ["range", ["int", 1], ["int", draw(st.integers(0, 2))]],
                          "body": draw(static_block(depth - 1)),
                          "else": draw(static_block(depth - 1)) if draw(st.booleans()) else None})
        elif k == 12:
            stmts.append({"t": "capture", "name": "cap", "body": draw(static_block(depth - 1))})
            stmts.append({"t": "out", "e": ["path", "cap", []]})
        else:
            stmts.append({"t": "case", "e": ["int", draw(st.integers(1, 2))], "lead_ws": draw(st.sampled_from(["", " ", "\n"])),
                          "whens": [[[["int", 1]], draw(static_block(depth - 1))], [[["int", 2], ["int", 3]], draw(static_block(depth - 1))]][: draw(st.integers(0, 2))],  # 0: a case with no when at all
                          "else": draw(static_block(depth - 1)) if draw(st.booleans()) else None})
    return stmts


def trim(text: str, left: str, right: str, default: str) -> str:
    """The documented table: '-' removes all whitespace, '~' only CR/LF, '+' nothing."""
    left = left or default
    right = right or default
    if left == "-":
        text = text.lstrip()
    elif left == "~":
        text = text.lstrip("\r\n")
    if right == "-":
        text = text.rstrip()
    elif right == "~":
        text = text.rstrip("\r\n")
    return text


class Lin:
    """Source-order linearisation: each text run is trimmed by the right marker of the
    markup before it and the left marker of the markup after it (in source order)."""

    def __init__(self, default: str) -> None:
        self.default = default
        self.items: list[Any] = []  # ("text", dict) | ("mark", left, right)

    def mark(self, wc: list[str]) -> None:
        self.items.append(("mark", wc[0], wc[1]))

    def text(self, s: dict[str, Any]) -> None:
        self.items.append(("text", s))

    def resolve(self) -> dict[int, str]:
        out: dict[int, str] = {}
        for i, it in enumerate(self.items):
            if it[0] != "text":
                continue
            left = self.items[i - 1][2] if i > 0 and self.items[i - 1][0] == "mark" else "+" if i > 0 else ""
            right = self.items[i + 1][1] if i + 1 < len(self.items) and self.items[i + 1][0] == "mark" else ""
            if i == 0:
                left = ""
            out[id(it[1])] = trim(it[1]["s"], left, right, self.default)
        return out


def linearise(stmts: list[dict[str, Any]], lin: Lin) -> None:
    for s in stmts:
        t = s["t"]
        wc = s.get("wc") or ["", ""]
        if t == "text":
            lin.text(s)
        elif t == "raw":
            w = s.get("wc4") or ["", "", "", ""]
            lin.items.append(("mark", w[0], w[3]))
        elif t == "comment":
            if s["kind"] == "block":
                w2 = s.get("wc2") or ["", ""]
                lin.items.append(("mark", wc[0], wc[1]))
                _ = w2
            else:
                lin.mark(wc)
        elif t in ("out", "assign", "echo", "liquid", "cycle"):
            lin.mark(wc)
        elif t in ("if", "unless"):
            lin.mark(wc)
            linearise(s["body"], lin)
            for i, (_c, b) in enumerate(s.get("elsifs") or []):
                lin.mark((s.get("wc_elsifs") or [["", ""]] * 9)[i])
                linearise(b, lin)
            if s.get("else") is not None:
                lin.mark(s.get("wc_else") or ["", ""])
                linearise(s["else"], lin)
            lin.mark(s.get("wc_end") or ["", ""])
        elif t == "for":
            lin.mark(wc)
            linearise(s["body"], lin)
            if s.get("else") is not None:
                lin.mark(s.get("wc_else") or ["", ""])
                linearise(s["else"], lin)
            lin.mark(s.get("wc_end") or ["", ""])
        elif t == "capture":
            lin.mark(wc)
            linearise(s["body"], lin)
            lin.mark(s.get("wc_end") or ["", ""])
        elif t == "case":
            lin.mark(wc)
            # (leading whitespace between `case` and the first `when` is never output)
            for i, (_v, b) in enumerate(s["whens"]):
                lin.mark((s.get("wc_whens") or [["", ""]] * 9)[i])
                linearise(b, lin)
            if s.get("else") is not None:
                lin.mark(s.get("wc_else") or ["", ""])
                linearise(s["else"], lin)
            lin.mark(s.get("wc_end") or ["", ""])
        else:
            raise ValueError(t)


def run_model(stmts: list[dict[str, Any]], texts: dict[int, str], default: str, env: dict[str, str], out: list[str]) -> None:
    for s in stmts:
        t = s["t"]
        if t == "text":
            out.append(texts[id(s)])
        elif t == "out":
            e = s["e"]
            out.append(e[1] if e[0] == "str" else env.get(e[1], ""))
        elif t == "echo":
            out.append(s["e"][1])
        elif t == "cycle":
            # all of these tags have the same (absent) group name and the same items: one iterator
            k = int(env.get("\0cycle", "0"))
            env["\0cycle"] = str(k + 1)
            out.append(s["items"][k % len(s["items"])][1])
        elif t == "raw":
            w = s.get("wc4") or ["", "", "", ""]
            out.append(trim(s["s"], w[1], w[2], default))
        elif t == "liquid":
            for ls in s["body"]:
                if ls["t"] == "echo":
                    out.append(ls["e"][1])
        elif t in ("if", "unless"):
            cond = s["cond"][0] == "true"
            if t == "unless":
                cond = not cond
            if cond:
                run_model(s["body"], texts, default, env, out)
            else:
                for c, b in s.get("elsifs") or []:
                    if c[0] == "true":
                        run_model(b, texts, default, env, out)
                        break
                else:
                    if s.get("else") is not None:
                        run_model(s["else"], texts, default, env, out)
        elif t == "for":
            n = s["iter"][2][1]
            if n >= 1:
                for _ in range(n):
                    run_model(s["body"], texts, default, env, out)
            elif s.get("else") is not None:
                run_model(s["else"], texts, default, env, out)
        elif t == "capture":
            buf: list[str] = []
            run_model(s["body"], texts, default, env, buf)
            env[s["name"]] = "".join(buf)
        elif t == "case":
            subject = s["e"][1]
            matched = False
            for vals, b in s["whens"]:
                if any(v[1] == subject for v in vals):
                    matched = True
                    run_model(b, texts, default, env, out)
            if not matched and s.get("else") is not None:
                run_model(s["else"], texts, default, env, out)


def model_render(stmts: list[dict[str, Any]], default: str) -> str:
    lin = Lin(default)
    linearise(stmts, lin)
    texts = lin.resolve()
    out: list[str] = []
    run_model(stmts, texts, default, {}, out)
    return "".join(out)


# --------------------------------------------------------------------------- property


@st.composite
def general_case(draw: Any) -> dict[str, Any]:
    return {"kind": "general", "prog": draw(program_strategy(CFG)), "data": draw(data_strategy()),
            "seeds": draw(st.lists(st.integers(1, 10 ** 6), min_size=4, max_size=4)),
            "layout": draw(st.integers(0, 3))}


@st.composite
def static_case(draw: Any) -> dict[str, Any]:
    return {"kind": "static", "prog": draw(static_block(2)),
            "seeds": draw(st.lists(st.integers(1, 10 ** 6), min_size=5, max_size=5))}


class C18(Prop):
    id = "C18"
    title = "Whitespace control changes nothing but whitespace"
    technique = "metamorphic property-based testing over marker assignments + exact trim model for static programs"
    rule = (
        "general cases: grammar programs whose expressions never look at captured text, literal text saturated with "
        "every whitespace character str.strip() removes, rendered under the 4 uniform marker assignments plus either "
        "all 4^n assignments (n <= 4 marker slots) or 4 drawn ones, x default_trim in {+,-,~} x suppression on/off; "
        "static cases: programs with literal control flow, additionally compared character for character with an "
        "independent interpreter when no trimming is in force. Non-trivial: at least one text run has leading or trailing "
        "whitespace next to a marked markup inside a nested block and at least two assignments gave different raw "
        "output. Distinct by SHA-1."
    )
    assumptions = [
        "whitespace = characters for which str.isspace() is true (the set str.strip() removes)",
        "with suppress_blank_control_flow_blocks on, the exact model is not applied (only the whitespace-insensitive comparison)",
    ]
    batch = 150

    def n_random(self, tier: str) -> int:
        return 12000 if tier == "quick" else 300000

    def strategy(self, tier: str, disabled: frozenset[str]):
        return st.one_of(general_case(), static_case(), static_case(), adj_case(), adj_case(), adj_case())

    def budget_s(self, tier: str) -> float:
        return 240 if tier == "quick" else 3000

    def _check_adj(self, case: Any) -> Result:
        res = Result()
        res.labels.append("adjacency")
        src_a, n_slots, n_free = adj_source(case["items"], case["base"], None)
        src_b, _, _ = adj_source(case["items"], case["base"], case["alt"])
        res.evaluations = 2
        res.nontrivial = n_free > 0 and src_a != src_b and any(
            it[0] == "text" and it[1] and (it[1][0].isspace() or it[1][-1].isspace()) for it in case["items"])
        outs = []
        for src in (src_a, src_b):
            env = make_env({}, shopify=True, default_trim=case["default"], suppress=case["suppress"])
            try:
                outs.append(("ok", env.from_string(src).render()))
            except LiquidError as err:
                outs.append(("err", type(err).__name__))
        if outs[0] != outs[1]:
            res.fail("adjacency", "marker-without-adjacent-text-has-an-effect",
                     f"default_trim={case['default']} suppress={case['suppress']}: {src_a!r} -> {outs[0]!r} but "
                     f"{src_b!r} -> {outs[1]!r}; the two differ only in markers that have no literal text on their side")
        return res

    def check(self, case: Any, disabled: frozenset[str] = frozenset()) -> Result:  # noqa: PLR0912, PLR0915
        if case["kind"] == "adj":
            return self._check_adj(case)
        res = Result()
        prog = case["prog"] if case["kind"] == "static" else case["prog"]["main"]
        data = case.get("data") or {}
        lay = case.get("layout", 0)
        variants = assignments(prog, case["seeds"])
        res.labels.append("exhaustive-assignments" if len(variants) > 4 + len(case["seeds"]) else "sampled-assignments")
        outs: dict[tuple[str, str, bool], Any] = {}
        raw_outputs = set()
        res.evaluations = 0
        try:
            ref: Any = None
            for name, p in variants:
                try:
                    src = to_source(p, lay)
                except Exception:  # noqa: BLE001
                    return res
                # the trimming environments go first: the verbatim clause for '+' must hold whatever other
                # environments did with the same text chunks before
                for default in ("-", "~", "+"):
                    for suppress in (False, True):
                        if name.startswith(("seed", "enum")) and (default != "+" and suppress):
                            continue  # keep the cost bounded: full config grid for uniform assignments only
                        env = make_env({}, shopify=True, default_trim=default, suppress=suppress)
                        try:
                            out: Any = ("ok", env.from_string(src).render(**data))
                        except LiquidError as err:
                            out = ("err", type(err).__name__)
                        res.evaluations += 1
                        if name.startswith("all") and name != "all~":
                            # the hand-written async twins trim and suppress as well
                            try:
                                out_a: Any = ("ok", run_coro(env.from_string(src).render_async(**data)))
                            except LiquidError as err:
                                out_a = ("err", type(err).__name__)
                            res.evaluations += 1
                            if out_a != out:
                                res.fail("ws-insensitive", f"async-differs:{self._culprit(p)}",
                                         f"{name}/{default}/suppress={suppress}: render -> {out!r}, render_async -> "
                                         f"{out_a!r}; src={src!r}")
                                return res
                        outs[(name, default, suppress)] = out
                        if out[0] == "ok":
                            raw_outputs.add(out[1])
                        key = ("ok", strip_ws(out[1])) if out[0] == "ok" else out
                        if ref is None:
                            ref = (key, name, default, suppress, src)
                        elif key != ref[0]:
                            what = "suppression" if (suppress != ref[3] and name == ref[1] and default == ref[2]) else "markers"
                            kind = "error" if (key[0] == "err" or ref[0][0] == "err") else "text"
                            res.fail("ws-insensitive", f"non-whitespace-change:{what}:{kind}:{self._culprit(p)}",
                                     f"{ref[1]}/{ref[2]}/suppress={ref[3]} -> {ref[0]!r} but {name}/{default}/suppress={suppress} "
                                     f"-> {key!r}; src={src!r} ref_src={ref[4]!r}")
                            return res
                        if (case["kind"] == "static" and not suppress and out[0] == "ok"
                                and ((default == "+" and name == "allnone") or name == "all+")):
                            # no trimming in force (the default mode is `+` and nothing is marked, or every
                            # position carries an explicit `+` whatever the default mode): literal text is
                            # reproduced character for character
                            want = model_render(p, default)
                            if out[1] != want:
                                res.fail("verbatim", f"not-verbatim:{self._culprit(p)}",
                                         f"{name}/{default}: got {out[1]!r} want {want!r}; src={src!r}")
                                return res
            if case["kind"] == "static":
                # ... and still is after trimming environments have rendered the very same text chunks
                for name, p in variants:
                    if name != "allnone" or outs.get((name, "+", False), ("err",))[0] != "ok":
                        continue
                    src = to_source(p, lay)
                    env = make_env({}, shopify=True, default_trim="+", suppress=False)
                    again = env.from_string(src).render(**data)
                    res.evaluations += 1
                    want = model_render(p, "+")
                    if again != want:
                        res.fail("verbatim", f"not-verbatim-after-other-environments:{self._culprit(p)}",
                                 f"allnone/+ rendered again after '-' and '~' environments: got {again!r} want "
                                 f"{want!r}; src={src!r}")
                        return res
                    res.labels.append("verbatim-again")
            res.nontrivial = len(raw_outputs) >= 2 and self._has_nested_ws(prog)
        except RecursionError:
            pass
        except LiquidError:
            raise
        except Exception as err:  # noqa: BLE001
            if "lv/props/c18" in "".join(__import__("traceback").format_exc()):
                raise
            res.labels.append("crash:" + exc_bucket(err))
        return res

    def _culprit(self, prog: list[dict[str, Any]]) -> str:
        kinds = set()
        walk(prog, lambda s, _l: kinds.add(s["t"]))
        for k in ("raw", "liquid", "case", "capture", "tablerow", "comment", "for", "unless", "if", "with", "macro"):
            if k in kinds:
                return k
        return "flat"

    def _has_nested_ws(self, prog: list[dict[str, Any]]) -> bool:
        found = [False]

        def rec(stmts: list[dict[str, Any]], depth: int) -> None:
            for s in stmts:
                if s["t"] == "text" and depth > 0 and s["s"] and (s["s"][0].isspace() or s["s"][-1].isspace()):
                    found[0] = True
                for key in ("body", "else"):
                    if isinstance(s.get(key), list):
                        rec(s[key], depth + 1)
                for _c, b in s.get("elsifs") or []:
                    rec(b, depth + 1)
                for _v, b in s.get("whens") or []:
                    rec(b, depth + 1)

        rec(prog, 0)
        return found[0]

    def sample(self, case: Any) -> Any:
        if case["kind"] == "adj":
            return {"kind": "adj", "src": adj_source(case["items"], case["base"], None)[0][:300],
                    "src_free_markers_changed": adj_source(case["items"], case["base"], case["alt"])[0][:300]}
        prog = case["prog"] if case["kind"] == "static" else case["prog"]["main"]
        p = assign_markers(prog, iter(["-", "~", "+", ""] * 200).__next__)
        return {"kind": case["kind"], "src_with_markers": to_source(p, 0)[:300], "marker_slots": count_slots(prog)}


PROP = C18()
