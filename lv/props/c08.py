"""C08 - template inheritance resolves every block to its most-derived override.

Three families (DESIGN section 3, C08):

* bounded-exhaustive chains (enumerate): E1 one block name, depth 1-5, every template
  omits | defines | +super | +required | +required+super; E2 two names, depth 1-4, every
  template any forest over any subset of the names (top level or nested in the other),
  `block.super` per definition, at most one `required` definition per chain; E3 three
  names, depth 1-4, every template any of the 29 forests over any subset (including
  a>b>c nesting), `block.super` nowhere or everywhere.  E2/E3 are reduced by renaming
  of block names.  quick = depth <= 3 (E1: <= 5) plus a 1/8 slice of depth 4 chosen by
  VERIF_SEED; thorough = everything.
* error family (enumerate): duplicate names, two extends, mismatched endblock, required
  block not overridden, cycles (length 1-4, tails 0-2, every entry node), missing parent.
* random chains (strategy): depth <= 7, <= 6 names, bodies with variables / for / if,
  nested blocks inside if / for, several `required`, and a second chain entered through
  include / render from inside a block (shared or disjoint block names).

The oracle is `lv.model.inherit.resolve` (no liquid2 code).  Every configuration is
rendered through DictLoader and CachingDictLoader, sync and async (4 renders).
"""

from __future__ import annotations

import asyncio
import copy
import itertools
import os
import re
import tempfile
from typing import Any
from typing import Iterator

from hypothesis import strategies as st

from lv.core.runner import Prop
from lv.core.runner import Result
from lv.core.runner import digest
from lv.core.runner import exc_bucket
from lv.harness.envs import make_env
from lv.harness.envs import run_coro
from lv.model.inherit import resolve
from lv.model.inherit import scan
from lv.model.inherit import sources

from liquid2 import CachingDictLoader
from liquid2 import CachingFileSystemLoader
from liquid2 import FileSystemLoader
from liquid2 import DictLoader
from liquid2 import Environment
from liquid2.exceptions import LiquidError
from liquid2.exceptions import RequiredBlockError
from liquid2.exceptions import TemplateInheritanceError
from liquid2.exceptions import TemplateNotFoundError

OUTPUT_LIMIT = 200_000
def _fs_safe(name: str) -> bool:
    return bool(re.fullmatch(r"[A-Za-z0-9_][A-Za-z0-9_.-]*", name))


MODES = ("dict/sync", "dict/async", "caching/sync", "caching/async")

# ----------------------------------------------------------------------------- building templates
# A definition is [name, parent ("" = top level), uses_super (0/1), required (0/1)].


def build_template(tidx: int, depth: int, defs: list[list[Any]], mark: str = "T", tname: str = "t") -> dict[str, Any]:
    """Template number `tidx` (0 = leaf, depth-1 = base) of a chain, every definition
    carrying a unique literal marker."""
    is_base = tidx == depth - 1

    def block(d: list[Any]) -> list[Any]:
        name, _parent, sup, req = d
        body: list[Any] = [["t", f"[{mark}{tidx}.{name}]"]]
        if sup:
            body.append(["s"])
        kids = [c for c in defs if c[1] == name]
        for c in kids:
            body.append(block(c))
        if kids:
            body.append(["t", f"[/{mark}{tidx}.{name}]"])
        endname = name if (tidx + ord(name[0])) % 2 == 0 else None
        return ["b", name, bool(req), body, endname]

    tops = [d for d in defs if not d[1]]
    body: list[Any] = []
    if is_base:
        body.append(["t", "<"])
        for i, d in enumerate(tops):
            if i:
                body.append(["t", "|"])
            body.append(block(d))
        body.append(["t", ">"])
    else:
        for d in tops:
            body.append(["t", f"[{mark}{tidx}.out]"])
            body.append(block(d))
        body.append(["t", f"[{mark}{tidx}.end]"])
    return {"extends": None if is_base else f"{tname}{tidx + 1}", "body": body}


def build_chain(chain: list[list[list[Any]]], mark: str = "T", tname: str = "t") -> dict[str, Any]:
    depth = len(chain)
    return {f"{tname}{i}": build_template(i, depth, defs, mark, tname) for i, defs in enumerate(chain)}


# ----------------------------------------------------------------------------- enumerated chains


def forests(names: tuple[str, ...]) -> list[tuple[tuple[str, str], ...]]:
    """All rooted forests over `names`: tuples of (name, parent or '')."""
    out = []
    for parents in itertools.product(*[[""] + [p for p in names if p != n] for n in names]):
        pm = dict(zip(names, parents))
        ok = True
        for n in names:
            seen = set()
            cur = n
            while cur:
                if cur in seen:
                    ok = False
                    break
                seen.add(cur)
                cur = pm[cur]
            if not ok:
                break
        if ok:
            out.append(tuple(zip(names, parents)))
    return out


def template_shapes(alphabet: str) -> list[tuple[tuple[str, str], ...]]:
    shapes = []
    for k in range(len(alphabet) + 1):
        for subset in itertools.combinations(alphabet, k):
            shapes.extend(forests(subset))
    return shapes


def _rename(cfg: tuple[tuple[Any, ...], ...], perm: dict[str, str]) -> tuple[tuple[Any, ...], ...]:
    return tuple(sorted((perm[d[0]], perm[d[1]] if d[1] else "", *d[2:]) for d in cfg))


def _canon_tables(cfgs: list[tuple[tuple[Any, ...], ...]], alphabet: str) -> list[list[int]]:
    """For every non-identity renaming of the alphabet: cfg index -> index of renamed cfg."""
    index = {c: i for i, c in enumerate(cfgs)}
    tables = []
    for p in itertools.permutations(alphabet):
        perm = dict(zip(alphabet, p))
        if all(k == v for k, v in perm.items()):
            continue
        tables.append([index[_rename(c, perm)] for c in cfgs])
    return tables


def _canonical_chains(n_cfg: int, tables: list[list[int]], depth: int) -> Iterator[tuple[int, ...]]:
    for ids in itertools.product(range(n_cfg), repeat=depth):
        for t in tables:
            if tuple(t[i] for i in ids) < ids:
                break
        else:
            yield ids


E1_STATES = [[], [["a", "", 0, 0]], [["a", "", 1, 0]], [["a", "", 0, 1]], [["a", "", 1, 1]]]


def _e2_cfgs() -> list[tuple[tuple[Any, ...], ...]]:
    cfgs = []
    for shape in template_shapes("ab"):
        for sups in itertools.product((0, 1), repeat=len(shape)):
            cfgs.append(tuple(sorted((n, p, s) for (n, p), s in zip(shape, sups))))
    return cfgs


def _e3_cfgs() -> list[tuple[tuple[Any, ...], ...]]:
    return [tuple(sorted(shape)) for shape in template_shapes("abc")]


def _slice(counter: int) -> int:
    """Scrambled 1/8 slice index, so that a slice is not aligned with the innermost enumeration loops."""
    return ((counter * 0x9E3779B1) >> 13) & 7


def enum_chain_cases(tier: str, seed: int) -> Iterator[dict[str, Any]]:
    quick = tier == "quick"
    pick = seed % 8

    # E1: one name, full per-template flags
    for depth in range(1, 6):
        for states in itertools.product(range(len(E1_STATES)), repeat=depth):
            yield {"kind": "enum", "fam": "E1", "chain": [E1_STATES[s] for s in states]}

    # E2: two names, forests, super per definition, <= 1 required definition per chain
    cfgs2 = _e2_cfgs()
    tables2 = _canon_tables(cfgs2, "ab")
    for depth in range(1, 5):
        counter = 0
        for ids in _canonical_chains(len(cfgs2), tables2, depth):
            base = [[[n, p, s, 0] for (n, p, s) in cfgs2[i]] for i in ids]
            slots = [(ti, di) for ti, defs in enumerate(base) for di in range(len(defs))]
            for slot in [None, *slots]:
                counter += 1
                if quick and depth == 4 and _slice(counter) != pick:
                    continue
                chain = [[list(d) for d in defs] for defs in base]
                if slot is not None:
                    chain[slot[0]][slot[1]][3] = 1
                yield {"kind": "enum", "fam": "E2", "chain": chain}

    # E3: three names, all forests, super nowhere / everywhere
    cfgs3 = _e3_cfgs()
    tables3 = _canon_tables(cfgs3, "abc")
    for depth in range(1, 5):
        counter = 0
        for ids in _canonical_chains(len(cfgs3), tables3, depth):
            for sup in (0, 1):
                counter += 1
                if quick and depth == 4 and _slice(counter) != pick:
                    continue
                yield {"kind": "enum", "fam": "E3",
                       "chain": [[[n, p, sup, 0] for (n, p) in cfgs3[i]] for i in ids]}


# ----------------------------------------------------------------------------- error family


def _model_case(fam: str, templates: dict[str, Any], entry: str = "t0", data: dict[str, Any] | None = None,
                **extra: Any) -> dict[str, Any]:
    case = {"kind": "model", "fam": fam, "templates": templates, "entry": entry, "data": data or {}}
    case.update(extra)
    return case


def _find_block(tmpl: dict[str, Any], name: str) -> list[Any]:
    for b in scan(tmpl)[1]:
        if b[1] == name:
            return b
    raise KeyError(name)


def error_cases() -> Iterator[dict[str, Any]]:  # noqa: PLR0912, PLR0915
    ab = [["a", "", 0, 0], ["b", "", 1, 0]]

    # 1. duplicate block names in one template of the chain
    for depth in range(1, 5):
        for pos in range(depth):
            for variant in ("top", "self-nested", "two-hosts"):
                ts = build_chain([[list(d) for d in ab] for _ in range(depth)])
                t = ts[f"t{pos}"]
                dup = ["b", "a", False, [["t", f"[T{pos}.a#2]"]], None]
                if variant == "top":
                    t["body"].append(dup)
                elif variant == "self-nested":
                    _find_block(t, "a")[3].append(dup)
                else:
                    _find_block(t, "b")[3].append(dup)
                yield _model_case("err-dup", ts, variant=variant, pos=pos)

    # 2. two extends tags in one template of the chain
    for depth in range(1, 5):
        for pos in range(depth):
            for variant in ("adjacent-same", "adjacent-other", "after-blocks"):
                ts = build_chain([[list(d) for d in ab] for _ in range(depth)])
                ts["z0"] = {"extends": None, "body": [["t", "(Z"], ["b", "a", False, [["t", "[Z.a]"]], None], ["t", ")"]]}
                t = ts[f"t{pos}"]
                if t["extends"] is None:
                    t["extends"] = "z0"
                second = t["extends"] if variant != "adjacent-other" else ("z0" if t["extends"] != "z0" else "t0")
                if variant == "after-blocks":
                    t["body"].append(["x", second])
                else:
                    t["body"].insert(0, ["x", second])
                yield _model_case("err-extends", ts, variant=variant, pos=pos)

    # 3. mismatched endblock name
    for depth in range(1, 5):
        for pos in range(depth):
            for variant in ("top", "nested", "other-block"):
                defs = [["a", "", 0, 0], ["b", "a", 0, 0]] if variant == "nested" else [list(d) for d in ab]
                ts = build_chain([[list(d) for d in (defs if i == pos else ab)] for i in range(depth)])
                t = ts[f"t{pos}"]
                if variant == "top":
                    _find_block(t, "a")[4] = "zz"
                elif variant == "nested":
                    _find_block(t, "b")[4] = "a"
                else:
                    _find_block(t, "a")[4] = "b"
                yield _model_case("err-endblock", ts, variant=variant, pos=pos)

    # 4. required block not overridden, required definition at each depth
    for depth in range(1, 5):
        for pos in range(depth):
            for below in ("all", "base-only"):
                for variant in ("top", "nested-in-base", "required+super"):
                    chain = []
                    for i in range(depth):
                        defs: list[list[Any]] = []
                        if i < pos:
                            defs = [["b", "", 1, 0]] if variant != "nested-in-base" else [["c", "", 0, 0]]
                        elif i == pos:
                            defs = [["a", "", 1 if variant == "required+super" else 0, 1]]
                        elif below == "all" or i == depth - 1:
                            defs = [["a", "", 0, 0]]
                        if i == depth - 1 and variant == "nested-in-base":
                            defs = [["b", "", 0, 0]] + [[d[0], "b", d[2], d[3]] for d in defs if d[0] == "a"]
                        elif i == depth - 1 and not any(d[0] == "b" for d in defs):
                            defs = defs + [["b", "", 0, 0]]
                        chain.append(defs)
                    yield _model_case("err-required", build_chain(chain), variant=variant, pos=pos, below=below)

    # 5. cycles of length 1-4, tails 0-2, entered at every node
    for length in range(1, 5):
        for tail in range(3):
            ts = {}
            for i in range(tail):
                ts[f"p{i}"] = {
                    "extends": f"p{i + 1}" if i + 1 < tail else "c0",
                    "body": [["t", f"[P{i}.out]"], ["b", "a", False, [["t", f"[P{i}.a]"], ["s"]], None]],
                }
            for i in range(length):
                ts[f"c{i}"] = {
                    "extends": f"c{(i + 1) % length}",
                    "body": [["t", f"[C{i}.out]"], ["b", "a", False, [["t", f"[C{i}.a]"]] + ([["s"]] if i % 2 else []), None]]
                    + ([["b", "b", False, [["t", f"[C{i}.b]"]], "b"]] if i == 1 else []),
                }
            for entry in ts:
                yield _model_case("err-cycle", ts, entry=entry, length=length, tail=tail)

    # 6. missing parent
    for depth in range(1, 5):
        for with_blocks in (False, True):
            ts = build_chain([[list(d) for d in ab] if with_blocks else [] for _ in range(depth)])
            ts[f"t{depth - 1}"]["extends"] = "missing"
            yield _model_case("err-missing", ts, with_blocks=with_blocks)


# root parents with render state of their own around and inside their blocks
IDENTITY_ROOTS = [
    "{% macro m a %}M{{ a }}{% endmacro %}[{% block a %}{% call m u %}{% endblock %}]{% call m 1 %}",
    "{% for i in xs %}{% block a %}{% cycle 'x', 'y' %}{% endblock %}{% endfor %}|{% cycle 'x', 'y' %}",
    "{% increment n %}{% block a %}{% increment n %}{% decrement d %}{% endblock %}{% increment n %}{% decrement d %}",
    "{% for i in xs limit: 1 %}{{ i }}{% endfor %}{% block a %}{% for i in xs offset: continue %}{{ i }}{% endfor %}{% endblock %}",
    "{% assign v = u %}{% block a %}{{ v }}{% block b %}{{ v }}{{ u }}{% endblock %}{% endblock %}{{ v }}",
    "{% for i in xs %}{% block a %}{{ i }}{{ forloop.index }}{% if forloop.last %}!{% endif %}{% endblock %}{% endfor %}",
    "{% capture c %}{% block a %}A{{ u }}{% endblock %}{% endcapture %}<{{ c }}>{% block b %}B{% endblock %}",
    "{% with w: u %}{% block a %}{{ w }}{% block b %}{{ w }}{% endblock %}{% endblock %}{% endwith %}",
    "{% if f %}{% block a %}{% macro k %}K{% endmacro %}{% call k %}{% endblock %}{% endif %}{% block b %}{{ block.super }}b{% endblock %}",
    "{% liquid\nincrement n\ncycle 'p', 'q'\n%}{% block a %}{% liquid\nincrement n\ncycle 'p', 'q'\n%}{% endblock %}",
]


def dirname_cases() -> Iterator[dict[str, Any]]:
    """Chains whose templates live in directories and share a base name (`pages/base` extends `base`): the
    name a template was loaded by, not its file name, is what `extends` refers to."""
    shapes = [[["a", "", 1, 0], ["b", "", 0, 0]], [["a", "", 0, 0], ["b", "", 1, 0]], [["a", "", 1, 0]]]
    for names in (["pages/base", "base"], ["site/pages/base", "pages/base", "base"], ["x/base", "y/base", "base"],
                  ["base/base", "base"], ["d/t", "d/e/t", "t"]):
        depth = len(names)
        ts = build_chain([shapes[i % len(shapes)] for i in range(depth)])
        ren = {f"t{i}": names[i] for i in range(depth)}
        out = {}
        for old, tmpl in ts.items():
            t2 = dict(tmpl)
            if t2.get("extends") is not None:
                t2["extends"] = ren[t2["extends"]]
            out[ren[old]] = t2
        yield _model_case("dirnames", out, entry=names[0], data={"u": "U", "f": True, "xs": [1], "ys": [2], "v": 3, "g": False})


def nested_cases() -> Iterator[dict[str, Any]]:
    """A small deterministic sample of the nested-chain shape (also in strategy())."""
    data = {"u": "U", "v": 7, "xs": [1, 2], "ys": [3], "f": True, "g": False}
    keys = sorted(data)
    for tag in ("inc", "ren"):
        for shared in (True, False):
            for depth in (2, 3):
                for host in ("a", "b"):
                    ts = build_chain([[["a", "", 1, 0], ["b", "", 0, 0]]] + [[["a", "", 0, 0], ["b", "", 1, 0]]] * (depth - 1))
                    n1, n2 = ("a", "b") if shared else ("p", "q")
                    inner = build_chain([[[n1, "", 1, 0]], [[n1, "", 0, 0], [n2, n1, 0, 0]]], mark="N", tname="n")
                    ts.update(inner)
                    node = ["inc", "n0"] if tag == "inc" else ["ren", "n0", keys]
                    _find_block(ts["t0"], host)[3].append(node)
                    yield _model_case("nested", ts, data=data)
        # a block of the leaf pulls in the chain's own root parent as a partial
        for depth in (2, 3):
            for host in ("a", "b"):
                ts = build_chain([[["a", "", 1, 0], ["b", "", 0, 0]]] + [[["a", "", 0, 0], ["b", "", 1, 0]]] * (depth - 1))
                node = ["inc", f"t{depth - 1}"] if tag == "inc" else ["ren", f"t{depth - 1}", keys]
                _find_block(ts["t0"], host)[3].append(node)
                yield _model_case("self-include", ts, data=data)


def super_loop_cases() -> Iterator[dict[str, Any]]:
    """`block.super` referenced several times in one block render - in a loop, twice in a row: every reference
    renders the less-derived definition again, so the page equals the flat template that has the parent's body
    written out at each reference (bodies with counters and cycles make a remembered text visible; they do not
    read the loop variable - whether the parent's body sees it is not documented)."""
    for body in ("[{% increment n %}]", "({% cycle 'odd', 'even' %})", "[{% increment n %}{% cycle 'a', 'b', 'c' %}]",
                 "{% decrement d %},", "{{ u }}{% increment n %}"):
        for over, flat in (
            ("{% for i in (1..3) %}S{% endfor %}", "{% for i in (1..3) %}B{% endfor %}"),
            ("S|S", "B|B"),
            ("{% if f %}S{% endif %}{% for i in (1..2) %}{% for j in (1..2) %}S{% endfor %}{% endfor %}S",
             "{% if f %}B{% endif %}{% for i in (1..2) %}{% for j in (1..2) %}B{% endfor %}{% endfor %}B"),
        ):
            for depth in (2, 3):
                b = body if depth == 2 else "m(" + body + ")"
                ts = {"base": "<{% block a %}" + body + "{% endblock %}>{% increment n %}",
                      "flat": "<" + flat.replace("B", b) + ">{% increment n %}"}
                if depth == 3:
                    ts["mid"] = "{% extends 'base' %}{% block a %}m({{ block.super }}){% endblock %}"
                ts["leaf"] = ("{% extends '" + ("mid" if depth == 3 else "base") + "' %}{% block a %}"
                              + over.replace("S", "{{ block.super }}") + "{% endblock %}")
                yield {"kind": "superflat", "fam": "super-repeated", "templates": ts, "data": {"u": "U", "f": True}}


# ----------------------------------------------------------------------------- random family

NAMES = "abcdef"
INNER_DISJOINT = "pqr"

EXTRAS = [
    ["v", "u"],
    ["v", "v"],
    ["for", "i", "xs", [["t", "("], ["v", "i"], ["t", ")"]]],
    ["if", "f", [["t", "+f"]], [["t", "-f"]]],
    ["if", "g", [["t", "+g"], ["v", "u"]], None],
    ["if", "f", [["s"]], None],
    ["for", "i", "ys", [["s"], ["t", ";"]]],
    ["if", "g", [["t", "+g"]], [["s"]]],
    ["v", "j"],  # the loop variable of a `for j in ys` around the block tag (nested blocks), else undefined
    ["v", "j"],
]


@st.composite
def rand_template(draw: Any, tidx: int, depth: int, names: str, mark: str, tname: str, *, rich: bool = True,
                  pre_text: bool = True) -> dict[str, Any]:
    is_base = tidx == depth - 1
    subset = [n for n in names if draw(st.integers(0, 9)) < (7 if is_base else 5)]
    order = draw(st.permutations(subset)) if subset else []
    parent: dict[str, str] = {}
    for i, n in enumerate(order):
        parent[n] = draw(st.sampled_from(order[:i])) if i and draw(st.integers(0, 9)) < 4 else ""

    caps = [0]

    def block(name: str) -> list[Any]:
        body: list[Any] = [["t", f"[{mark}{tidx}.{name}]"]]
        if draw(st.integers(0, 9)) < 4:
            body.append(["s"])
        if rich:
            for _ in range(draw(st.integers(0, 2))):
                body.append(draw(st.sampled_from(EXTRAS)))
        for kid in order:
            if parent[kid] == name:
                kb = block(kid)
                w = draw(st.integers(0, 11)) if rich else 0
                if w == 8:
                    body.append(["if", "g", [kb], None])
                elif w in (9, 10):
                    body.append(["for", "j", "ys", [["t", "(j"], kb, ["t", "j)"]]])
                elif w == 11:
                    caps[0] += 1
                    body.append(["cap", f"c{mark}{tidx}x{caps[0]}", [["t", "(c"], kb, ["t", "c)"]]])
                else:
                    body.append(kb)
        body.append(["t", f"[/{name}]"])
        req = draw(st.integers(0, 44)) == 0
        endname = name if draw(st.booleans()) else None
        return ["b", name, req, body, endname]

    body: list[Any] = [["t", "<" if is_base else f"[{mark}{tidx}.out]"]]
    for n in order:
        if parent[n] == "":
            blk = block(n)
            w = draw(st.integers(0, 9)) if rich else 0
            if w == 8:
                blk = ["for", "j", "ys", [["t", "(J"], blk, ["t", "J)"]]]
            elif w == 9:
                caps[0] += 1
                blk = ["cap", f"c{mark}{tidx}y{caps[0]}", [blk]]
            body.append(blk)
            body.append(["t", "|" if is_base else f"[{mark}{tidx}.mid]"])
    if is_base and rich and draw(st.integers(0, 4)) == 0:
        body.append(["v", "u"])
    body.append(["t", ">" if is_base else f"[{mark}{tidx}.end]"])
    tmpl = {"extends": None if is_base else f"{tname}{tidx + 1}", "body": body}
    if not is_base and rich and pre_text and draw(st.integers(0, 5)) == 0:
        tmpl["pre"] = draw(st.sampled_from(["pre ", "\n", "x{{ u }}", " "]))
    return tmpl


@st.composite
def random_case(draw: Any, no_include_nest: bool, pre_text: bool = True) -> dict[str, Any]:
    depth = draw(st.integers(1, 7))
    names = NAMES[: draw(st.integers(1, 6))]
    data = {
        "u": draw(st.sampled_from(["U", "x y", "", "0"])),
        "v": draw(st.integers(-3, 12)),
        "xs": draw(st.lists(st.integers(0, 9), max_size=3)),
        "ys": draw(st.lists(st.integers(0, 9), max_size=2)),
        "f": draw(st.booleans()),
        "g": draw(st.booleans()),
    }
    templates = {}
    for i in range(depth):
        templates[f"t{i}"] = draw(rand_template(i, depth, names, "T", "t", pre_text=pre_text))
    case = {"kind": "model", "fam": "random", "templates": templates, "entry": "t0", "data": data}

    if draw(st.integers(0, 9)) < 4:
        tag = draw(st.sampled_from(["inc", "ren"]))
        shared = draw(st.booleans())
        hosts = [(tn, bi) for tn in sorted(templates) for bi in range(len(scan(templates[tn])[1]))]
        if hosts:
            inner_depth = draw(st.integers(1, 3))  # 1: a plain partial that has blocks of its own
            inner_names = names[: draw(st.integers(1, len(names)))] if shared else INNER_DISJOINT[: draw(st.integers(1, 3))]
            inner = {f"n{i}": draw(rand_template(i, inner_depth, inner_names, "N", "n", pre_text=pre_text))
                     for i in range(inner_depth)}
            # prefer a host whose body is rendered on the page of the outer chain
            _k, _w, outer_info = resolve(templates, "t0", data)
            live = [(t, i) for (t, i) in hosts if (t, scan(templates[t])[1][i][1]) in outer_info.rendered_defs]
            tn, bi = draw(st.sampled_from(live)) if live and draw(st.integers(0, 4)) else draw(st.sampled_from(hosts))
            if tag == "inc" and no_include_nest:
                case["skipped"] = ["nested-chain"]
            else:
                templates.update(inner)
                node = ["inc", "n0"] if tag == "inc" else ["ren", "n0", sorted(data)]
                host_body = scan(templates[tn])[1][bi][3]
                host_body.insert(draw(st.integers(1, len(host_body))), node)
    elif depth >= 2 and draw(st.integers(0, 5)) == 0:
        # a block of the leaf includes/renders the chain's own root parent (with a caching loader that is
        # the very Template object the chain is being rendered through)
        hosts = scan(templates["t0"])[1]
        if hosts and not (no_include_nest):
            host_body = draw(st.sampled_from(hosts))[3]
            root = f"t{depth - 1}"
            node = ["inc", root] if draw(st.booleans()) else ["ren", root, sorted(data)]
            host_body.insert(draw(st.integers(0, len(host_body))), node)
            case["fam"] = "self-include"
    return case


# ----------------------------------------------------------------------------- the property


def _partial_shape(templates: dict[str, Any]) -> tuple[str, str] | None:
    """(include|render, shared|disjoint) when the case enters a second chain from a block."""
    tag = None
    inner_root = None

    def walk(nodes: list[Any]) -> None:
        nonlocal tag, inner_root
        for n in nodes:
            if n[0] in ("inc", "ren"):
                tag = "include" if n[0] == "inc" else "render"
                inner_root = n[1]
            elif n[0] == "b":
                walk(n[3])
            elif n[0] == "for":
                walk(n[3])
            elif n[0] == "cap":
                walk(n[2])
            elif n[0] == "if":
                walk(n[2])
                if n[3] is not None:
                    walk(n[3])

    for t in templates.values():
        walk(t["body"])
    if tag is None or inner_root is None:
        return None
    inner_names: set[str] = set()
    inner_templates: set[str] = set()
    cur = inner_root
    while cur in templates and cur not in inner_templates:
        inner_templates.add(cur)
        exts, blocks = scan(templates[cur])
        inner_names.update(b[1] for b in blocks)
        if not exts:
            break
        cur = exts[0]
    outer_names: set[str] = set()
    for name, t in templates.items():
        if name not in inner_templates:
            outer_names.update(b[1] for b in scan(t)[1])
    return tag, ("shared" if inner_names & outer_names else "disjoint")


def _required_name(err: Exception) -> str | None:
    """Block name quoted in a RequiredBlockError message (None if it cannot be read)."""
    m = re.search(r"block '([^']*)' must be overridden", str(err))
    return m.group(1) if m else None


class C08(Prop):
    id = "C08"
    title = "Template inheritance resolves every block to its most-derived override"
    technique = (
        "bounded-exhaustive enumeration of extends chains + property-based random chains, differential against "
        "an independent reference resolver"
    )
    rule = (
        "enumerated: E1 one block name, depth 1-5, each template omits/defines/+super/+required/+both; E2 two "
        "names, depth 1-4, each template any forest (top level or nested in the other name) over any subset, "
        "block.super per definition, at most one required definition per chain; E3 three names, depth 1-4, each "
        "template any of the 29 forests, block.super nowhere or everywhere; E2/E3 modulo renaming of block names; "
        "children always carry text outside blocks; every definition has a unique literal marker (quick: depth<=3 "
        "complete plus the VERIF_SEED%8-th eighth of depth 4). Error family: duplicate names, two extends, "
        "mismatched endblock, un-overridden required block at each depth and standalone, cycles of length 1-4 with "
        "tails 0-2 entered at every node, missing parent. Random: chains <= 7 deep over <= 6 names with "
        "variables/for/if in bodies, nested blocks inside if/for, second chain entered by include/render from a "
        "block. Each configuration is rendered with DictLoader and CachingDictLoader, sync and async. A case is "
        "non-trivial when >= 2 templates of a chain define the same block name, or block.super renders an existing "
        "parent definition, or a nested block is replaced by a definition from another template than its enclosing "
        "body, or an inheritance error is the expected outcome; distinct by SHA-1 of the case"
    )
    assumptions = [
        "the extends tag is the first thing in a child template (text before it is not covered by the documentation)",
        "a required definition that is chosen but never met while rendering (its enclosing block is overridden away, "
        "or the base has no such block) may either raise RequiredBlockError or be ignored: the documentation does "
        "not say whether the check is eager (labelled required-unreached)",
        "duplicate block names in a template that is rendered on its own (no extends involved) are not asserted to "
        "be rejected (labelled dup-standalone); inside a chain they must raise TemplateInheritanceError",
        "a missing parent may raise TemplateNotFoundError or TemplateInheritanceError",
        "two block names nested in each other in opposite order in two templates and closed through block.super "
        "describe an infinite page; any LiquidError is accepted there (labelled recursive-resolution), output is not; "
        "a RecursionError there is only labelled (C02's subject) and only one in eight such cases is executed",
        "block bodies only read render arguments and their own for-loop variables; nested blocks never read a loop "
        "variable of an enclosing for tag (scoping of blocks is C07's subject)",
        "a chain entered through include/render is expected to resolve against its own definitions only",
        "async renders are driven without an event loop (dict loaders never suspend)",
    ]
    hang_is_violation = True
    batch = 300

    def n_random(self, tier: str) -> int:
        return 5000 if tier == "quick" else 200000

    def budget_s(self, tier: str) -> float:
        return 240 if tier == "quick" else 3000

    def strategy(self, tier: str, disabled: frozenset[str]):
        return random_case("nested-chain" in disabled, "pre-extends-text" not in disabled)

    def enumerate(self, tier: str, disabled: frozenset[str]):
        seed = int(os.environ.get("VERIF_SEED", "1") or "1")
        for root in IDENTITY_ROOTS:
            for depth in (1, 2, 3):
                yield {"kind": "identity", "root": root, "depth": depth, "data": {"xs": [1, 2, 3], "u": "U", "f": True}}
        yield from error_cases()
        yield from dirname_cases()
        yield from nested_cases()
        yield from super_loop_cases()
        yield from enum_chain_cases(tier, seed)

    def enumerated_is_exhaustive(self, tier: str) -> bool:
        return tier == "thorough"

    # ------------------------------------------------------------------ running the code under test

    def _render(self, env: Any, entry: str, data: dict[str, Any], mode: str) -> tuple[str, Any]:
        async def go() -> str:
            t = await env.get_template_async(entry)
            return await t.render_async(**data)

        try:
            if mode == "async-loop":  # file system loaders suspend in an executor and need a running loop
                return "ok", asyncio.run(go())
            if mode == "async":
                return "ok", run_coro(go())
            return "ok", env.get_template(entry).render(**data)
        except LiquidError as err:
            return "err", err
        except RecursionError as err:
            return "crash", err
        except Exception as err:  # noqa: BLE001
            return "crash", err

    # ------------------------------------------------------------------ oracle

    def _check_identity(self, case: Any) -> Result:
        """Nothing overrides anything: the page of a chain of empty children is the root parent's own text,
        with each block replaced by its only definition - i.e. exactly what the root renders by itself,
        macros, cycles, counters and loop offsets of the root included."""
        res = Result()
        res.labels.append("fam:identity")
        res.nontrivial = True
        root = case["root"]
        templates = {"r": root}
        prev = "r"
        for k in range(case["depth"]):
            templates[f"c{k}"] = "{% extends '" + prev + "' %}" + ("{% block zz %}unused{% endblock %}" if k % 2 else "")
            prev = f"c{k}"
        outs = {}
        for lk, loader_cls in (("dict", DictLoader), ("caching", CachingDictLoader)):
            env = Environment(loader=loader_cls(dict(templates)))
            for mode in ("sync", "async"):
                outs[f"{lk}/{mode}/root"] = self._render(env, "r", case["data"], mode)
                outs[f"{lk}/{mode}/chain"] = self._render(env, prev, case["data"], mode)
                res.evaluations += 2
        want = outs["dict/sync/root"]
        if want[0] != "ok":
            res.labels.append("identity:root-error")
            return res
        bad = sorted(k for k, v in outs.items() if v != want)
        if bad:
            res.fail("resolution", "unoverridden-chain-differs-from-root",
                     f"the root renders {want[1]!r} by itself; {bad[0]} gives {outs[bad[0]]!r} (also {bad[1:]}); "
                     f"root={root!r} depth={case['depth']}")
        return res

    def check(self, case: Any, disabled: frozenset[str] = frozenset()) -> Result:  # noqa: PLR0912, PLR0915
        if case["kind"] == "identity":
            return self._check_identity(case)
        if case["kind"] == "superflat":
            res = Result()
            res.labels.append("fam:super-repeated")
            res.nontrivial = True
            outs = {}
            for lk, loader_cls in (("dict", DictLoader), ("caching", CachingDictLoader)):
                env = make_env(loader=loader_cls(dict(case["templates"])), limits={"output_stream_limit": OUTPUT_LIMIT})
                for mode in ("sync", "async"):
                    outs[f"{lk}/{mode}"] = (self._render(env, "leaf", case["data"], mode), self._render(env, "flat", case["data"], mode))
            res.evaluations = 2 * len(outs)
            for mode, (leaf, flat) in outs.items():
                if leaf[0] != "ok" or flat[0] != "ok" or leaf[1] != flat[1]:
                    res.fail("resolution", "super-repeated-differs-from-flat",
                             f"{mode}: the chain renders {leaf!r}, the flat template with the parent's body at every "
                             f"block.super renders {flat!r}; templates={case['templates']!r}")
                    break
            return res
        res = Result()
        if case["kind"] == "enum":
            templates = build_chain(case["chain"])
            entry, data = "t0", {}
        else:
            templates, entry, data = case["templates"], case["entry"], case["data"]
        fam = case.get("fam", "?")
        res.labels.append("fam:" + fam)
        for s in case.get("skipped", []):
            res.excluded.append(s)

        shape = _partial_shape(templates)
        if shape is not None and shape[0] == "include" and "nested-chain" in disabled:
            res.excluded.append("nested-chain")
            res.evaluations = 0
            return res

        kind, want, info = resolve(templates, entry, data)
        srcs = sources(templates)
        if kind == "err" and want == "recursive" and digest(case) % 8:
            # an infinite page: nothing but "no page comes out" is demanded, and the deep recursion is the most
            # expensive thing to run, so only one in eight of these is executed
            res.labels.append("expect:err-recursive")
            res.labels.append("recursive-resolution:not-run")
            res.evaluations = 0
            return res

        got: dict[str, tuple[str, Any]] = {}
        expects: dict[str, Any] = {}  # mode -> (kind, want, info) where it differs from the entry's
        for lk, loader_cls in (("dict", DictLoader), ("caching", CachingDictLoader)):
            # the output limit only bounds the cost of runaway recursion; pages here are < 10^4 characters
            env = make_env(loader=loader_cls(dict(srcs)), limits={"output_stream_limit": OUTPUT_LIMIT})
            for mode in ("sync", "async"):
                got[f"{lk}/{mode}"] = self._render(env, entry, data, mode)
            if lk == "caching" and (kind == "err" or digest(case) % 4 == 1):
                # history on one caching environment: the other templates of the case are rendered as pages of
                # their own (their parsed form is shared through the cache), then the entry once more
                for other in [n for n in sorted(templates) if n != entry][:3]:
                    ex = resolve(templates, other, data)
                    if ex[0] == "err" and ex[1] == "recursive":
                        continue  # an infinite page is expensive to run and nothing but "no page" is demanded
                    expects[f"caching/then:{other}"] = ex
                    got[f"caching/then:{other}"] = self._render(env, other, data, "sync")
                got["caching/again"] = self._render(env, entry, data, "async")
                res.labels.append("cached-history")
        if kind == "ok" and digest(case) % 3 == 0 and templates[entry].get("extends") is not None \
                and not any(t.get("pre") for t in templates.values()):
            # the chain is resolved at every render: the parents are edited between two renders of ONE leaf
            # Template object (a plain dict loader serves whatever its mapping holds now)
            edited = copy.deepcopy(templates)
            for n, tm in edited.items():
                if n == entry:
                    continue
                for node in tm["body"]:
                    if node[0] == "b":
                        node[3].append(["t", "<e:" + n + ">"])
                tm["body"].append(["t", "<ed:" + n + ">"])
            ex = resolve(edited, entry, data)
            if ex[0] == "ok":
                loader = DictLoader(dict(srcs))
                env = make_env(loader=loader, limits={"output_stream_limit": OUTPUT_LIMIT})
                try:
                    leaf = env.get_template(entry)
                    leaf.render(**data)
                    run_coro(leaf.render_async(**data))
                    loader.templates.update({n: t for n, t in sources(edited).items() if n != entry})
                    for mode in ("sync", "async"):
                        expects[f"dict/edited-parents:{mode}"] = ex
                        try:
                            got[f"dict/edited-parents:{mode}"] = (
                                "ok", leaf.render(**data) if mode == "sync" else run_coro(leaf.render_async(**data)))
                        except LiquidError as err:
                            got[f"dict/edited-parents:{mode}"] = ("err", err)
                        except Exception as err:  # noqa: BLE001
                            got[f"dict/edited-parents:{mode}"] = ("crash", err)
                    res.labels.append("edited-parents")
                except LiquidError:
                    pass
        if (digest(case) % 5 == 0 or kind == "err") and all(_fs_safe(n) for n in srcs):
            # loaders that name a template by its resolved path, not by the name written in `extends`
            with tempfile.TemporaryDirectory(prefix="lv-c08-") as tmp:
                for n, text in srcs.items():
                    # looked up through the loader's default extension: Template.name ("t0.liquid") then differs
                    # from the name written in `extends` ("t0")
                    with open(os.path.join(tmp, n if "." in n else n + ".liquid"), "w", encoding="utf-8",
                              newline="") as fd:
                        fd.write(text)
                env = make_env(loader=FileSystemLoader(tmp, ext=".liquid"), limits={"output_stream_limit": OUTPUT_LIMIT})
                got["fs/sync"] = self._render(env, entry, data, "sync")
                env = make_env(loader=CachingFileSystemLoader(tmp, ext=".liquid"), limits={"output_stream_limit": OUTPUT_LIMIT})
                got["cfs/async"] = self._render(env, entry, data, "async-loop")
            res.labels.append("fs-loaders")
        res.evaluations = len(got)

        # ---- labels / non-triviality
        res.labels.append("expect:" + (kind if kind == "ok" else "err-" + want))
        if info.super_used:
            res.labels.append("super-renders-parent")
        if info.super_undefined:
            res.labels.append("super-undefined")
        if info.nested_override:
            res.labels.append("nested-override")
        if info.nested_dropped:
            res.labels.append("nested-dropped")
        if info.required_unreached:
            res.labels.append("required-unreached")
        if info.dup_standalone:
            res.labels.append("dup-standalone")
        if info.chains:
            depth = sum(1 for _ in templates)
            res.labels.append(f"templates:{min(depth, 8)}")
        nested_active = shape is not None and bool(info.partials)
        if shape is not None:
            res.labels.append(f"nested-chain:{shape[0]}:{shape[1]}:{'entered' if info.partials else 'unreached'}")
        res.nontrivial = bool(info.shared_names or info.super_used or info.nested_override
                              or (kind == "err" and want != "recursive"))

        has_pre = any(t.get("pre") for t in templates.values())

        # ---- verdict per mode
        problems: dict[str, tuple[str, list[str], str]] = {}  # bucket -> (oracle, modes, detail)

        def add(bucket: str, oracle: str, mode: str, detail: str) -> None:
            bucket = bucket.replace("_async", "")  # the sync and async twins of a frame are one root cause
            if bucket in problems:
                problems[bucket][1].append(mode)
            else:
                problems[bucket] = (oracle, [mode], detail)

        mismatch_modes: list[str] = []
        mismatch_detail = ""
        for mode in got:
            g_kind, g_val = got[mode]
            kind_m, want_m, info_m = expects.get(mode, (kind, want, info))
            own = mode in expects  # judged against its own expectation
            if g_kind == "crash" and kind_m == "err" and want_m == "recursive" and isinstance(g_val, RecursionError):
                # an infinite page; Python's own limit may be hit before the context depth limit (C02's subject)
                res.labels.append("recursive-resolution:RecursionError")
                continue
            if g_kind == "crash":
                add(f"crash:{exc_bucket(g_val)}", "escape", mode, f"{type(g_val).__name__}: {str(g_val)[:200]}")
                continue
            if kind_m == "ok":
                if g_kind == "ok":
                    if g_val != want_m and has_pre and g_val == self._alt_pre(templates, mode, entry, data):
                        add("text-before-extends-rendered", "resolution", mode,
                            f"text in front of `extends` in a child template was output: expected {want_m!r}, "
                            f"got {g_val!r}")
                    elif g_val != want_m and own and mode.startswith("dict/edited-parents"):
                        add("output-mismatch:edited-parents", "resolution", mode,
                            f"the parents were edited between two renders of one leaf Template object (dict loader): "
                            f"expected {want_m!r}, got {g_val!r}")
                    elif g_val != want_m and own:
                        add("output-mismatch:cached-history", "resolution", mode,
                            f"after the entry was rendered on the same caching environment: expected {want_m!r}, got {g_val!r}")
                    elif g_val != want_m:
                        mismatch_modes.append(mode)
                        mismatch_detail = f"got {g_val!r}"
                    continue
                # an error where a page is expected
                if info_m.required_unreached and isinstance(g_val, RequiredBlockError) and (
                    _required_name(g_val) in info_m.required_unreached_names | {None}
                ):
                    res.labels.append("required-unreached:eager")
                    continue
                if info_m.dup_standalone and isinstance(g_val, TemplateInheritanceError):
                    res.labels.append("dup-standalone:rejected")
                    continue
                add(f"unexpected-error:{exc_bucket(g_val)}", "no-error", mode,
                    f"{type(g_val).__name__}: {str(g_val).splitlines()[0][:200]}")
                continue
            # an error is expected
            if g_kind == "ok":
                add(f"missing-error:{want_m}", "error-class", mode, f"rendered {g_val!r}")
                continue
            if want_m == "recursive":
                ok = True  # infinite page: any LiquidError (in practice ContextDepthError) is legitimate
                res.labels.append("recursive-resolution:" + type(g_val).__name__)
            elif want_m == "required":
                ok = isinstance(g_val, RequiredBlockError)
            elif want_m == "notfound":
                ok = isinstance(g_val, (TemplateNotFoundError, TemplateInheritanceError))
            else:
                ok = isinstance(g_val, TemplateInheritanceError)
            if not ok:
                add(f"wrong-error:{want_m}:{exc_bucket(g_val)}", "error-class", mode,
                    f"{type(g_val).__name__}: {str(g_val).splitlines()[0][:200]}")

        if mismatch_modes:
            pattern = "all-modes" if len(mismatch_modes) == len(got) - len(expects) else "+".join(mismatch_modes)
            feats = [f for f, on in (("nested", info.nested_override or info.nested_dropped),
                                     ("super", info.super_used)) if on]
            problems[f"output-mismatch:{pattern}:{'+'.join(feats) or 'flat'}"] = ("resolution", mismatch_modes, mismatch_detail)

        if problems and kind == "ok" and info.dup_standalone:
            res.labels.append("dup-standalone:other-outcome")

        for bucket, (oracle, modes, detail) in sorted(problems.items()):
            expect = repr(want) if kind == "ok" else f"error {want}"
            text = f"modes={','.join(modes)} expected {expect}; {detail}; entry={entry} data={data} sources={srcs}"
            if nested_active and shape is not None and bucket != "text-before-extends-rendered":
                res.fail(f"{oracle}:{bucket}", f"nested-chain:{shape[0]}:{shape[1]}", text)
            else:
                res.fail(oracle, bucket, text)
        return res

    @staticmethod
    def _alt_pre(templates: dict[str, Any], mode: str, entry: str, data: dict[str, Any]) -> Any:
        """The page under the other reading (text in front of `extends` is output), for attribution only."""
        name = mode.split("then:", 1)[1] if "then:" in mode else entry
        alt = resolve(templates, name, data, render_pre=True)
        return alt[1] if alt[0] == "ok" else None

    def sample(self, case: Any) -> Any:
        if case["kind"] == "superflat":
            return {"fam": "super-repeated", "leaf": case["templates"]["leaf"], "base": case["templates"]["base"]}
        if case["kind"] == "identity":
            return {"fam": "identity", "root": case["root"][:200], "depth": case["depth"]}
        if case["kind"] == "enum":
            templates = build_chain(case["chain"])
        else:
            templates = case["templates"]
        return {"fam": case.get("fam"), "entry": case.get("entry", "t0"),
                "sources": {k: v[:160] for k, v in list(sources(templates).items())[:5]}}


PROP = C08()
