"""C10 - templates may shadow caller data but never change it; lookup precedence holds.

Two families (DESIGN section 3, C10).

(a) Read-only data (random, `strategy()`): grammar programs and dedicated filter-chain
    probes (every array/string/math filter, chains <= 4, fed to every iterating tag, over
    every container reachable from the data) are rendered with the data supplied at the
    same time on four channels - environment globals, template globals, loader matter /
    overlay_data and render arguments - each channel owning its own deep copy of a subset
    of the data.  Oracle: a `copy.deepcopy` of every supplied mapping taken before the
    render is deep-equal (type-exact, key-order-exact, NaN-aware) to the live mapping
    afterwards, on success and on error, sync and async.

(b) Precedence (exhaustive, `enumerate()`): all 2**8 subsets of the eight namespace
    layers binding one name to layer-distinct values.  Oracle: the value rendered is the
    one of the highest-priority layer present in the documented order
    block > local > render arg > matter > template global > env global > built-in > counter.
"""

from __future__ import annotations

import copy
import re
from typing import Any

from hypothesis import strategies as st

from lv.core.runner import Prop
from lv.core.runner import Result
from lv.core.runner import exc_bucket
from lv.gen.grammar import FILTERS
from lv.gen.grammar import ITEM_KEYS
from lv.gen.grammar import LAMBDA_FILTERS
from lv.gen.grammar import LAMBDA_PATH_ONLY
from lv.gen.grammar import SHOPIFY_FILTERS
from lv.gen.grammar import WORDS
from lv.gen.grammar import Cfg
from lv.gen.grammar import data_strategy
from lv.gen.grammar import program_strategy
from lv.gen.printer import to_source
from lv.harness.envs import make_env
from lv.harness.envs import run_coro

from liquid2 import DictLoader
from liquid2.builtin.loaders.mixins import CachingLoaderMixin
from liquid2.exceptions import LiquidError
from liquid2.exceptions import TemplateNotFoundError
from liquid2.loader import TemplateSource

CHANNELS = ("args", "matter", "tmpl", "env")  # documented priority, highest first
MARK = "chan"  # every channel mapping carries {MARK: <channel name>} so that merges are visible

# --------------------------------------------------------------------------- comparison


def diff(a: Any, b: Any, path: str = "$") -> str | None:
    """First path at which `b` is not exactly `a` (types, key order, NaN-aware) or None."""
    if type(a) is not type(b):
        return f"{path}<type:{type(a).__name__}->{type(b).__name__}>"
    if isinstance(a, dict):
        ka, kb = list(a), list(b)
        if ka != kb:
            return f"{path}<keys>"
        for k in ka:
            d = diff(a[k], b[k], f"{path}.{k}")
            if d is not None:
                return d
        return None
    if isinstance(a, (list, tuple)):
        if len(a) != len(b):
            return f"{path}<len:{len(a)}->{len(b)}>"
        for i in range(len(a)):
            d = diff(a[i], b[i], f"{path}[{i}]")
            if d is not None:
                return d
        return None
    if isinstance(a, float):
        return None if repr(a) == repr(b) else path  # nan == nan, -0.0 != 0.0
    return None if a == b else path


def norm_path(p: str) -> str:
    p = re.sub(r"\[\d+\]", "[]", p)
    return re.sub(r"<len:\d+->\d+>", "<len>", p)


# --------------------------------------------------------------------------- spying on filters


class Watch:
    """Identity map of caller-owned containers and the log of who received them."""

    def __init__(self) -> None:
        self.owned: dict[int, tuple[str, str, Any, Any]] = {}  # id -> (channel, path, live, snapshot)
        self.recv: list[tuple[str, str]] = []  # (filter name, channel)
        self.blame: dict[str, str] = {}  # channel -> first filter after whose call the data differed
        self.dirty: set[int] = set()

    def register(self, channel: str, live: Any, snap: Any, path: str = "$") -> None:
        if isinstance(live, (dict, list, tuple)):
            self.owned[id(live)] = (channel, path, live, snap)
            if isinstance(live, dict):
                for k in live:
                    self.register(channel, live[k], snap[k], f"{path}.{k}")
            else:
                for i, v in enumerate(live):
                    self.register(channel, v, snap[i], f"{path}[{i}]")

    def hits(self, values: Any) -> list[tuple[str, str, Any, Any]]:
        out = []
        seen: set[int] = set()
        for v in values:
            ent = self.owned.get(id(v))
            if ent is not None and ent[2] is v:
                if id(v) not in seen:
                    seen.add(id(v))
                    out.append(ent)
                continue
            # one level down: a fresh list/dict made of caller-owned members
            if type(v) in (list, tuple):
                members = v[:16]
            elif type(v) is dict:
                members = list(v.values())[:16]
            else:
                continue
            for m in members:
                ent = self.owned.get(id(m))
                if ent is not None and ent[2] is m and id(m) not in seen:
                    seen.add(id(m))
                    out.append(ent)
        return out


class Spy:
    """Pass-through wrapper of a registered filter.  Never copies what it is given."""

    def __init__(self, name: str, inner: Any, watch: Watch) -> None:
        self.name = name
        self.inner = inner
        self.watch = watch
        for attr in ("with_context", "with_environment", "validate", "filter_async"):
            if hasattr(inner, attr):
                setattr(self, attr, getattr(inner, attr))

    def __call__(self, *args: Any, **kwargs: Any) -> Any:
        w = self.watch
        vals = list(args)
        for k, v in kwargs.items():
            if k not in ("context", "environment"):
                vals.append(v)
        hits = w.hits(vals)
        for _ch, _p, live, snap in hits:
            if id(live) not in w.dirty and diff(snap, live) is not None:
                w.dirty.add(id(live))  # changed before this call: not this filter's doing
        try:
            return self.inner(*args, **kwargs)
        finally:
            for ch, _p, live, snap in hits:
                w.recv.append((self.name, ch))
                if id(live) not in w.dirty and diff(snap, live) is not None:
                    w.dirty.add(id(live))
                    w.blame.setdefault(ch, self.name)


class MatterLoader(DictLoader):
    """DictLoader whose sources come with `matter` (-> Template.overlay_data)."""

    def __init__(self, templates: dict[str, str], matter: dict[str, Any]) -> None:
        super().__init__(templates)
        self.matter = matter

    def get_source(self, env: Any, template_name: str, *, context: Any = None, **kwargs: object) -> TemplateSource:
        try:
            source = self.templates[template_name]
        except KeyError as err:
            raise TemplateNotFoundError(template_name) from err
        return TemplateSource(source, template_name, None, self.matter.get(template_name))


class CachingMatterLoader(CachingLoaderMixin, MatterLoader):
    def __init__(self, templates: dict[str, str], matter: dict[str, Any]) -> None:
        CachingLoaderMixin.__init__(self, auto_reload=True, capacity=10)
        MatterLoader.__init__(self, templates, matter)


# --------------------------------------------------------------------------- generators (a)

PROG_CFG = Cfg(confusion=0.08, shopify=True, tablerow=True, arrays=True, filters=True, offset_continue=True,
               max_depth=3, budget=12, max_filters=4)

ALL_FILTERS: dict[str, tuple[str, list[str], str]] = {**FILTERS, **SHOPIFY_FILTERS}
ARRAY_FILTERS = ["join", "first", "last", "concat", "reverse", "sort", "sort_natural", "sort_numeric", "uniq",
                 "compact", "map", "where", "reject", "find", "find_index", "has", "sum", "slice", "size",
                 "default", "json"]
FILTER_NAMES = sorted(ALL_FILTERS)

SITES = ["out", "assign", "shadow", "capture", "array", "for", "for", "tablerow", "cycle", "include_for",
         "render_for", "include_with", "render_with", "with", "macro"]
TAG_SITES = {"for", "tablerow", "cycle", "include_for", "render_for", "include_with", "render_with", "with", "macro"}

NAN = float("nan")


def container_paths(data: dict[str, Any]) -> list[list[Any]]:
    """A path expression for every container reachable from `data` (depth <= 3)."""
    out: list[list[Any]] = []

    def walk(v: Any, root: str, segs: list[Any], depth: int) -> None:
        if not isinstance(v, (list, dict)):
            return
        out.append(["path", root, list(segs)])
        if depth >= 3:
            return
        if isinstance(v, dict):
            for k, x in v.items():
                walk(x, root, segs + [["n", k]], depth + 1)
        else:
            for i, x in enumerate(v[:3]):
                walk(x, root, segs + [["i", i]], depth + 1)
            if v and isinstance(v[-1], (list, dict)):
                out.append(["path", root, segs + [["n", "last"]]])
                out.append(["path", root, segs + [["n", "first"]]])

    for k in sorted(data):
        walk(data[k], k, [], 1)
    return out


def _resolve(data: dict[str, Any], path: list[Any]) -> Any:
    cur: Any = data[path[1]]
    for kind, key in path[2]:
        if kind == "n" and key in ("first", "last") and isinstance(cur, list):
            cur = cur[0 if key == "first" else -1]
        else:
            cur = cur[key]
    return cur


def _pick(draw: Any, seq: list[Any]) -> Any:
    return seq[draw(st.integers(0, len(seq) - 1))]


def _arg(draw: Any, at: str, conts: list[list[Any]]) -> list[Any]:
    r = draw(st.integers(0, 9))
    if at == "list":
        return _pick(draw, conts) if r < 8 else ["range", ["int", 0], ["int", draw(st.integers(0, 3))]]
    if at == "key":
        return ["str", _pick(draw, list(ITEM_KEYS) + ["missing", "name", "city"])]
    if at == "indent":
        return ["int", draw(st.integers(0, 4))]
    if at == "datefmt":
        return ["str", _pick(draw, ["%Y-%m-%d", "%H:%M", "%s"])]
    if r == 0:
        return _pick(draw, conts)  # a caller-owned container where a scalar is expected
    if at == "int":
        return ["int", draw(st.integers(-2, 4))] if r < 7 else ["path", _pick(draw, ["n", "m", "idx"]), []]
    if at == "num":
        return ["int", draw(st.integers(-3, 5))] if r < 5 else (["float", _pick(draw, ["1.5", "0.25", "-2.0"])] if r < 8
                                                               else ["path", _pick(draw, ["n", "m", "f"]), []])
    if at == "str":
        return ["str", _pick(draw, WORDS)] if r < 7 else ["path", _pick(draw, ["s", "t", "key", "é"]), []]
    # any
    if r < 4:
        return _pick(draw, conts)
    return _pick(draw, [["int", 1], ["str", "x"], ["nil"], ["true"], ["false"], ["path", "s", []], ["path", "n", []],
                        ["str", ""], ["float", "1.5"]])


def _lambda(draw: Any, name: str) -> list[Any]:
    key = _pick(draw, list(ITEM_KEYS) + ["missing", "name"])
    by_key: list[Any] = ["path", "x", [["n", key]]]
    if name in LAMBDA_PATH_ONLY:
        return ["lambda", ["x"], by_key if draw(st.booleans()) else ["path", "x", []]]
    r = draw(st.integers(0, 3))
    if r == 0:
        body: list[Any] = by_key
    elif r == 1:
        body = ["cmp", _pick(draw, ["==", "!=", "<", ">"]), ["path", "x", [["n", "qty"]]], ["int", draw(st.integers(0, 4))]]
    elif r == 2:
        body = ["cmp", "==", ["path", "x", []], _pick(draw, [["int", 1], ["str", "x"], ["path", "s", []]])]
    else:
        body = ["cmp", "contains", by_key, ["str", _pick(draw, WORDS)]]
    return ["lambda", ["x", "j"] if draw(st.integers(0, 4)) == 0 else ["x"], body]


def _filter(draw: Any, conts: list[list[Any]], *, first: bool = False) -> dict[str, Any]:
    # the first filter of a chain is the one handed the caller's container itself: favour the array filters there
    name = _pick(draw, ARRAY_FILTERS) if draw(st.integers(0, 9)) < (8 if first else 4) else _pick(draw, FILTER_NAMES)
    _lt, argt, _rt = ALL_FILTERS[name]
    args: list[Any] = []
    if name in LAMBDA_FILTERS and draw(st.integers(0, 9)) < 3:
        args.append(_lambda(draw, name))
    else:
        for at in argt:
            opt = at.endswith("?")
            if opt and draw(st.integers(0, 9)) < 5:
                break
            args.append(["pos", _arg(draw, at.rstrip("?"), conts)])
        if name == "default" and draw(st.integers(0, 3)) == 0:
            args.append(["kw", "allow_false", [_pick(draw, ["true", "false"])]])
    return {"name": name, "args": args}


def _chain(left: list[Any], fl: list[dict[str, Any]]) -> list[Any]:
    return ["filtered", left, fl] if fl else left


def _out(e: list[Any]) -> dict[str, Any]:
    return {"t": "out", "e": e, "wc": ["", ""]}


def build_probe(src: list[Any], other: list[Any], pre: list[dict[str, Any]], inner: list[dict[str, Any]], site: str,
                opts: dict[str, Any]) -> dict[str, Any]:
    """The program (same shape as program_strategy's) feeding `src | pre...` to `site`."""
    root = src[1]
    templates: dict[str, list[dict[str, Any]]] = {}
    sep = {"t": "text", "s": ","}
    if site == "out":
        return {"main": [_out(_chain(src, pre + inner))], "templates": templates}
    if site == "array":
        return {"main": [{"t": "assign", "name": "v", "e": _chain(["array", [src, other]], pre)},
                         _out(_chain(["path", "v", []], inner))], "templates": templates}
    if site == "shadow":
        return {"main": [{"t": "assign", "name": root, "e": _chain(src, pre)}, _out(_chain(["path", root, []], inner)),
                         sep, _out(_chain(src, inner))], "templates": templates}
    if site == "capture":
        return {"main": [{"t": "capture", "name": root, "body": [_out(_chain(src, pre))]},
                         _out(_chain(["path", root, []], inner))], "templates": templates}
    main: list[dict[str, Any]] = []
    it = src
    if pre:
        main.append({"t": "assign", "name": "v", "e": _chain(src, pre)})
        it = ["path", "v", []]
    if site == "assign":
        if not pre:
            main.append({"t": "assign", "name": "v", "e": src})
        main.append(_out(_chain(["path", "v", []], inner)))
    elif site in ("for", "tablerow"):
        s: dict[str, Any] = {"t": site, "var": "i", "iter": it, "body": [_out(_chain(["path", "i", []], inner)), sep],
                             "else": None, "reversed": bool(opts.get("reversed"))}
        for k in ("limit", "offset", "cols"):
            if opts.get(k) is not None and (k != "cols" or site == "tablerow"):
                s[k] = opts[k]
        if site == "tablerow" and s.get("offset") == "continue":
            s["offset"] = ["int", 1]
        main.append(s)
        if opts.get("again"):
            main.append(dict(s, offset="continue") if site == "for" else dict(s))
    elif site == "cycle":
        main.append({"t": "for", "var": "j", "iter": ["range", ["int", 1], ["int", 3]], "else": None,
                     "body": [{"t": "cycle", "group": None, "items": [it, other, ["str", "z"]]}, sep]})
    elif site in ("include_for", "render_for", "include_with", "render_with"):
        templates["p"] = [_out(_chain(["path", "it", []], inner)), {"t": "text", "s": ";"},
                          _out(_chain(["path", "q", []], inner[:1]))]
        main.append({"t": site.split("_")[0], "name": ["str", "p"], "var": it, "loop": site.endswith("_for"),
                     "alias": "it", "args": [["q", other]]})
    elif site == "with":
        main.append({"t": "with", "args": [["p", it], ["q", other]],
                     "body": [_out(_chain(["path", "p", []], inner)), sep, _out(["path", "q", []])]})
    elif site == "macro":
        main.append({"t": "macro", "name": "mac", "params": [["a", None]], "body": [_out(_chain(["path", "a", []], inner))]})
        main.append({"t": "call", "name": "mac", "args": [it], "kwargs": [["b", other]]})
    else:  # pragma: no cover
        raise AssertionError(site)
    return {"main": main, "templates": templates}


def _hostile(draw: Any, data: dict[str, Any]) -> None:
    r = draw(st.integers(0, 19))
    if r == 0 and data["nums"]:
        data["nums"][draw(st.integers(0, len(data["nums"]) - 1))] = NAN
    elif r == 1:
        data["nums"].append(None)
    elif r == 2 and data["grid"]:
        data["grid"][0] = [[1, [2, [3]]], -0.0, True]
    elif r == 3:
        data["words"].append(None)


@st.composite
def channels_strategy(draw: Any, keys: list[str], must: str | None = None) -> dict[str, list[str]]:
    mode = draw(st.integers(0, 9))
    chans: dict[str, list[str]] = {}
    if mode < 3:
        for ch in CHANNELS:
            chans[ch] = list(keys)
    elif mode < 7:
        owner = draw(st.sampled_from(CHANNELS))
        for ch in CHANNELS:
            if ch == owner:
                chans[ch] = list(keys)
            else:
                m = draw(st.integers(0, 2 ** len(keys) - 1)) if draw(st.integers(0, 3)) == 0 else 0
                chans[ch] = [k for i, k in enumerate(keys) if m >> i & 1 and k != must]
    else:
        for ch in CHANNELS:
            m = draw(st.integers(0, 2 ** len(keys) - 1))
            chans[ch] = [k for i, k in enumerate(keys) if m >> i & 1]
        if must is not None and not any(must in v for v in chans.values()):
            chans[draw(st.sampled_from(CHANNELS))].append(must)
    return chans


def _common(draw: Any) -> dict[str, Any]:
    return {
        "layout": draw(st.integers(0, 3)),
        "route": draw(st.sampled_from(["string", "loader"])),
        "mode": draw(st.sampled_from(["sync", "async", "both", "both"])),  # both = one render each, fresh copies
        "positional": draw(st.booleans()),
        "tuples": draw(st.sampled_from([[], [], [], ["nums"], ["grid"], ["words", "items"]])),
    }


@st.composite
def prog_case(draw: Any) -> dict[str, Any]:
    prog = draw(program_strategy(PROG_CFG))
    data = draw(data_strategy())
    _hostile(draw, data)
    case = {"kind": "prog", "prog": prog, "data": data, "channels": draw(channels_strategy(sorted(data)))}
    case.update(_common(draw))
    return case


@st.composite
def probe_case(draw: Any) -> dict[str, Any]:
    data = draw(data_strategy())
    _hostile(draw, data)
    conts = container_paths(data)
    lists = [p for p in conts if isinstance(_resolve(data, p), list)]
    src = _pick(draw, lists if lists and draw(st.booleans()) else conts)
    other = _pick(draw, conts)
    site = _pick(draw, SITES)
    n_pre = draw(st.integers(0, 3))
    n_inner = draw(st.integers(0, min(2, 4 - n_pre)))
    pre = [_filter(draw, conts, first=i == 0) for i in range(n_pre)]
    inner = [_filter(draw, conts, first=i == 0) for i in range(n_inner)]
    opts: dict[str, Any] = {}
    if site in ("for", "tablerow"):
        if draw(st.integers(0, 9)) < 4:
            opts["limit"] = ["int", draw(st.integers(0, 4))] if draw(st.booleans()) else ["path", "m", []]
        if draw(st.integers(0, 9)) < 4:
            opts["offset"] = _pick(draw, [["int", 0], ["int", 1], ["int", 2], "continue", ["path", "idx", []]])
        if draw(st.integers(0, 9)) < 4:
            opts["cols"] = ["int", draw(st.integers(1, 3))]
        opts["reversed"] = draw(st.integers(0, 9)) < 4
        opts["again"] = draw(st.integers(0, 9)) < 3
    case = {
        "kind": "probe", "site": site, "filters": [f["name"] for f in pre + inner], "src": src[1],
        "direct": not pre,  # the site itself is handed the caller-owned container
        "prog": build_probe(src, other, pre, inner, site, opts), "data": data,
        "channels": draw(channels_strategy(sorted(data), must=src[1])),
    }
    case.update(_common(draw))
    return case


# --------------------------------------------------------------------------- (b) precedence table

LAYERS = ("block", "local", "arg", "matter", "tglobal", "eglobal", "builtin", "counter")
BUILTIN_RE = {"now": re.compile(r"\d{4}-\d\d-\d\d \d\d:\d\d:\d\d(\.\d+)?"), "today": re.compile(r"\d{4}-\d\d-\d\d")}
NIL_LAYERS = ("block", "local", "arg", "matter", "tglobal", "eglobal")
LAYER_VALUE = {"block": "block", "local": "local", "arg": "arg", "matter": "matter", "tglobal": "tglobal",
               "eglobal": "eglobal", "counter": "1"}


def prec_source(case: dict[str, Any]) -> tuple[str, dict[str, str]]:
    name = case["name"]
    layers = case["layers"]
    look = "<<{{ " + name + " }}>>"
    nil = case.get("nil_layer")  # this layer binds the name to nil: still a binding, it shadows the outer ones
    lit = {ly: ("nil" if ly == nil else "'" + ly + "'") for ly in ("local", "block")}
    assign = "{% assign " + name + " = " + lit["local"] + " %}" if "local" in layers else ""
    head = "{% increment " + name + " %}|" if "counter" in layers else ""
    if case.get("lambda"):
        # a lambda whose parameter has the same name ran (and stopped early) before the lookup: its scope is gone
        head += "{% assign r__ = '1,2,3' | split: ',' | " + case["lambda"] + ": " + name + " => " + name + " == '2' %}"
    templates: dict[str, str] = {}
    if "block" not in layers:
        return head + assign + look, templates
    inside = bool(case.get("assign_inside"))
    body = (assign if inside else "") + look
    if not inside:
        head += assign
    kind = case["block"]
    if kind == "with":
        src = head + "{% with " + name + ": " + lit["block"] + " %}" + body + "{% endwith %}"
    elif kind in ("for", "tablerow"):
        src = (head + "{% assign blk__ = 'block' | split: ',' %}{% " + kind + " " + name + " in blk__ %}" + body
               + "{% end" + kind + " %}")
    else:  # include: keyword arguments of `include` are block scoped
        templates["p"] = body
        src = head + "{% include 'p', " + name + ": " + lit["block"] + " %}"
    return src, templates


# --------------------------------------------------------------------------- the property


class C10(Prop):
    id = "C10"
    title = "Templates may shadow caller data but never change it; lookup precedence holds"
    technique = ("property-based testing with a before/after deep-equality oracle (Hypothesis) + exhaustive "
                 "enumeration of the namespace-layer table")
    rule = (
        "(a) grammar programs (filters, arrays, loops with offset/limit/reversed, shadowing assigns/captures) and "
        "dedicated probes `container | f1..fk` (k <= 4, every array/string/math filter, every container reachable "
        "from the data) handed to out/assign/for/tablerow/cycle/include-for/render-for/with/macro, rendered with the "
        "data on four channels (env globals, template globals, matter/overlay_data, render args; own deep copy of a "
        "key subset each; from_string and loader route; sync and async); non-trivial when the identity log shows "
        ">= 1 filter received a caller-owned list/dict (or a member of one), or the probe hands the container "
        "straight to an iterating tag; (b) all 2**8 layer subsets x names {x, now, today} (built-in bit fixed by "
        "the name) x block kind x route x sync/async; non-trivial when >= 2 layers bind the name; distinct by "
        "SHA-1 of the case"
    )
    assumptions = [
        "deep equality is type-exact (list/tuple, bool/int/float), dict-key-order-exact, NaN equals NaN, -0.0 differs from 0.0",
        "the position of the built-in layer (now/today: after all globals, before counters) is taken from the "
        "property statement and liquid2/context.py:83-88; the docs (render_context.md) only order locals, render "
        "arguments, matter, template globals, environment globals and counters",
        "matter of partial templates is supplied and compared but (by design of render/include) never consulted",
        "built-in values are recognised by shape (ISO date / datetime), not compared with the clock",
        "non-LiquidError exceptions are C02's business: the data is still compared, the crash is only labelled",
    ]
    batch = 300

    def __init__(self) -> None:
        self.n_recv = 0
        self.n_err = 0

    def n_random(self, tier: str) -> int:
        return 20000 if tier == "quick" else 400000

    def strategy(self, tier: str, disabled: frozenset[str]):
        return st.one_of(prog_case(), probe_case(), probe_case())

    def enumerate(self, tier: str, disabled: frozenset[str]):
        for name in ("x", "now", "today"):
            for mask in range(256):
                layers = [LAYERS[i] for i in range(8) if mask >> i & 1]
                # the built-in layer exists exactly for the names now/today
                if ("builtin" in layers) != (name in ("now", "today")):
                    continue
                kinds = ["with", "for", "tablerow", "include"] if "block" in layers else [None]
                for kind in kinds:
                    insides = [False, True] if ("block" in layers and "local" in layers) else [False]
                    for inside in insides:
                        for route in ("string", "loader", "cache-hit"):
                            if route == "cache-hit" and (name != "x" or kind not in (None, "with")):
                                continue  # the second load from a caching loader that supplies matter
                            for bare in (False, True):
                                for mode in ("sync", "async"):
                                    yield {"kind": "prec", "name": name, "layers": layers, "block": kind,
                                           "assign_inside": inside, "route": route, "bare": bare, "mode": mode}
                                    if name == "x" and not bare:
                                        for fl in ("find", "has", "find_index", "where"):
                                            yield {"kind": "prec", "name": name, "layers": layers, "block": kind,
                                                   "assign_inside": inside, "route": route, "bare": bare,
                                                   "mode": mode, "lambda": fl}
                                    # the same subset with one layer binding nil: it still hides what is below it
                                    for nl in layers:
                                        if nl in NIL_LAYERS and kind in (None, "with", "include") and len(layers) >= 2:
                                            yield {"kind": "prec", "name": name, "layers": layers, "block": kind,
                                                   "assign_inside": inside, "route": route, "bare": bare,
                                                   "mode": mode, "nil_layer": nl}

    def enumerated_is_exhaustive(self, tier: str) -> bool:
        return True  # every one of the 256 subsets is rendered (for x: built-in bit clear; now/today: set)

    def budget_s(self, tier: str) -> float:
        return 240 if tier == "quick" else 3000

    def extra_evidence(self) -> dict[str, Any]:
        return {"filter_calls_with_caller_owned_container": self.n_recv, "renders_ending_in_liquid_error": self.n_err}

    # ------------------------------------------------------------------ dispatch

    def check(self, case: Any, disabled: frozenset[str] = frozenset()) -> Result:
        if case["kind"] == "prec":
            return self._check_prec(case)
        return self._check_readonly(case)

    # ------------------------------------------------------------------ (a)

    def _check_readonly(self, case: dict[str, Any]) -> Result:  # noqa: PLR0912, PLR0915
        res = Result()
        prog = case["prog"]
        lay = case["layout"]
        src = to_source(prog["main"], lay)
        templates = {k: to_source(v, lay) for k, v in prog["templates"].items()}
        modes = ["sync", "async"] if case["mode"] == "both" else [case["mode"]]
        received = False
        for mode in modes:
            received = self._render_once(case, mode, src, templates, res) or received
        if case["kind"] == "probe":
            res.labels.append("site:" + case["site"])
            for fname in case["filters"]:
                res.labels.append("applied:" + fname)
        direct_tag = (case["kind"] == "probe" and case.get("direct") and case["site"] in TAG_SITES
                      and any(case["src"] in case["channels"].get(ch, []) for ch in CHANNELS))
        res.nontrivial = received or direct_tag
        res.evaluations = len(modes)
        return res

    def _render_once(self, case: dict[str, Any], mode: str, src: str, templates: dict[str, str], res: Result) -> bool:
        """One render with fresh copies of the data on every channel; True if a filter got a caller-owned container."""
        data = case["data"]
        tuples = set(case.get("tuples") or ())

        def own(keys: list[str], channel: str) -> dict[str, Any]:
            m: dict[str, Any] = {}
            for k in keys:
                if k in data:
                    v = copy.deepcopy(data[k])
                    if isinstance(v, dict):
                        # the same name on two channels holds two different hashes: merging one into the
                        # other (instead of shadowing it) changes the caller's object
                        v[MARK] = channel
                    m[k] = tuple(v) if k in tuples and isinstance(v, list) else v
            m[MARK] = channel
            return m

        supplied: dict[str, dict[str, Any]] = {ch: own(case["channels"].get(ch, []), ch) for ch in CHANNELS}
        for pname in templates:  # matter of partials: never consulted, must stay untouched all the same
            supplied["matter:" + pname] = own(case["channels"].get("matter", []), "pmatter")
        before = {ch: copy.deepcopy(m) for ch, m in supplied.items()}
        watch = Watch()
        for ch, m in supplied.items():
            watch.register(ch, m, before[ch])

        matter = {"main": supplied["matter"]}
        for pname in templates:
            matter[pname] = supplied["matter:" + pname]
        all_templates = dict(templates)
        all_templates["main"] = src
        env = make_env(shopify=True, globals=supplied["env"], loader=MatterLoader(all_templates, matter))
        for fname, func in list(env.filters.items()):
            env.filters[fname] = Spy(fname, func, watch)

        is_async = mode == "async"
        outcome = "rendered"
        try:
            if case["route"] == "loader":
                if is_async:
                    tmpl = run_coro(env.get_template_async("main", globals=supplied["tmpl"]))
                else:
                    tmpl = env.get_template("main", globals=supplied["tmpl"])
            else:
                tmpl = env.from_string(src, globals=supplied["tmpl"], overlay_data=supplied["matter"])
            args = supplied["args"]
            if is_async:
                run_coro(tmpl.render_async(args) if case["positional"] else tmpl.render_async(**args))
            elif case["positional"]:
                tmpl.render(args)
            else:
                tmpl.render(**args)
        except LiquidError as err:
            outcome = "liquid-error"
            self.n_err += 1
            res.labels.append("error:" + type(err).__name__)
        except RecursionError:
            outcome = "recursion"
        except Exception as err:  # noqa: BLE001 - totality is C02; the data must be intact all the same
            outcome = "crash"
            res.labels.append("crash:" + exc_bucket(err))
        res.labels.append(outcome)
        res.labels.append(f"{case['kind']}:{mode}:{case['route']}")

        # ---- oracle: every supplied mapping is what it was
        for ch, m in supplied.items():
            d = diff(before[ch], m)
            if d is None:
                continue
            chan = "pmatter" if ch.startswith("matter:") else ch
            if ch in watch.blame:
                who = watch.blame[ch]
            elif case["kind"] == "probe" and case.get("direct") and case["site"] in TAG_SITES \
                    and d.startswith("$." + case["src"]):
                who = "tag:" + case["site"]
            else:
                who = "path:" + norm_path(d)
            res.fail(
                "read-only-data", f"mutated:{chan}:{who}",
                f"channel {ch!r} differs at {d} after {outcome} ({mode}, {case['route']}); "
                f"before={_at(before[ch], d)!r} after={_at(m, d)!r}; src={src!r}; partials={templates!r}",
            )

        # ---- bookkeeping
        self.n_recv += len(watch.recv)
        seen = set()
        for fname, ch in watch.recv:
            if (fname, ch) not in seen:
                seen.add((fname, ch))
                res.labels.append(f"recv:{fname}")
                res.labels.append(f"recv-chan:{ch.split(':')[0]}")
        return bool(watch.recv)

    # ------------------------------------------------------------------ (b)

    def _check_prec(self, case: dict[str, Any]) -> Result:
        res = Result()
        name = case["name"]
        layers = case["layers"]
        src, templates = prec_source(case)

        def mapping(layer: str) -> dict[str, Any] | None:
            m: dict[str, Any] = {}
            if not case["bare"]:
                m["pad_" + layer] = layer
            if layer in layers:
                m[name] = None if layer == case.get("nil_layer") else LAYER_VALUE[layer]
            return m or None

        eglobal, tglobal, matter, arg = mapping("eglobal"), mapping("tglobal"), mapping("matter"), mapping("arg")
        all_templates = dict(templates)
        all_templates["main"] = src
        loader_cls = CachingMatterLoader if case["route"] == "cache-hit" else MatterLoader
        env = make_env(shopify=True, globals=eglobal, loader=loader_cls(all_templates, {"main": matter}))
        is_async = case["mode"] == "async"
        try:
            if case["route"] == "cache-hit":
                # other callers load the page first (no globals, other globals); this call is a cache hit
                env.get_template("main")
                if is_async:
                    run_coro(env.get_template_async("main", globals={"other": 1}))
                    tmpl = run_coro(env.get_template_async("main", globals=tglobal))
                else:
                    env.get_template("main", globals={"other": 1})
                    tmpl = env.get_template("main", globals=tglobal)
            elif case["route"] == "loader":
                if is_async:
                    tmpl = run_coro(env.get_template_async("main", globals=tglobal))
                else:
                    tmpl = env.get_template("main", globals=tglobal)
            else:
                tmpl = env.from_string(src, globals=tglobal, overlay_data=matter)
            out = run_coro(tmpl.render_async(**(arg or {}))) if is_async else tmpl.render(**(arg or {}))
        except LiquidError as err:
            res.fail("precedence", f"precedence-error:{exc_bucket(err)}", f"{type(err).__name__}: {err}; src={src!r}")
            return res

        want_layer = next((ly for ly in LAYERS if ly in layers), None)
        got = re.findall(r"<<(.*?)>>", out, flags=re.S)
        res.nontrivial = len(layers) >= 2
        res.labels.append("top:" + str(want_layer))
        if case.get("nil_layer"):
            res.labels.append("nil-binding:" + case["nil_layer"])
        res.labels.append(f"prec:{case['mode']}:{case['route']}")
        if len(got) != 1:
            res.fail("precedence", "precedence-lookup-count", f"{len(got)} lookups rendered; out={out!r}; src={src!r}")
            return res
        val = got[0]
        if want_layer is None or want_layer == case.get("nil_layer"):
            ok = val == ""
        elif want_layer == "builtin":
            ok = bool(BUILTIN_RE[name].fullmatch(val))
        else:
            ok = val == LAYER_VALUE[want_layer]
        if not ok:
            if val == "":
                got_layer = "undefined"
            elif name in BUILTIN_RE and BUILTIN_RE[name].fullmatch(val):
                got_layer = "builtin"
            else:
                got_layer = next((ly for ly, v in LAYER_VALUE.items() if v == val), "other")
            res.fail(
                "precedence",
                f"precedence:{'nil-' if case.get('nil_layer') and want_layer == case.get('nil_layer') else ''}{want_layer}-lost-to:{got_layer}",
                f"name {name!r} bound in {layers}: rendered {val!r}, documented order gives layer {want_layer!r}; "
                f"src={src!r} mode={case['mode']} route={case['route']} bare={case['bare']}",
            )
        return res

    # ------------------------------------------------------------------

    def sample(self, case: Any) -> Any:
        if case["kind"] == "prec":
            return case
        return {
            "kind": case["kind"], "site": case.get("site"), "mode": case["mode"], "route": case["route"],
            "src": to_source(case["prog"]["main"], case["layout"])[:300],
            "channels": {ch: len(v) for ch, v in case["channels"].items()},
        }


def _at(obj: Any, d: str) -> Any:
    """The value at the differing path `d` (best effort, for the failure detail)."""
    cur = obj
    for m in re.finditer(r"\.([^.\[<]+)|\[(\d+)\]", d[1:]):
        try:
            cur = cur[m.group(1)] if m.group(1) is not None else cur[int(m.group(2))]
        except (KeyError, IndexError, TypeError):
            break
    r = repr(cur)
    return r if len(r) <= 300 else r[:300] + "..."


PROP = C10()
