"""C01 - rendering implements the documented Liquid semantics.

O1 model agreement (independent reference interpreter lv/model/interp.py), O2 layout
independence (model-free), O3 calibration of the model against ~150 documented examples.
"""

from __future__ import annotations

import copy
import json
import random
from typing import Any

from hypothesis import strategies as st

from lv.core.runner import Prop
from lv.core.runner import Result
from lv.core.runner import exc_bucket
from lv.gen.grammar import Cfg
from lv.gen.grammar import data_strategy
from lv.gen.grammar import program_strategy
from lv.gen.printer import to_source
from lv.harness.envs import make_env
from lv.model import interp
from lv.model.c01_calibration import TABLE
from lv.model.c01_focus import focus_program

from liquid2.exceptions import LiquidError

FILTERS = interp.MODEL_FILTERS
CFG_MAIN = Cfg(filter_names=FILTERS, tablerow=False, shopify=False, wc_rate=0.0, confusion=0.04)
CFG_WC = Cfg(filter_names=FILTERS, tablerow=False, shopify=False, wc_rate=0.15, confusion=0.02, budget=12)
CFG_FLAT = Cfg(filter_names=FILTERS, tablerow=False, shopify=False, wc_rate=0.0, confusion=0.02, partials=False,
               macros=False, budget=10, max_depth=2)
CFG_WC_FLAT = Cfg(filter_names=FILTERS, tablerow=False, shopify=False, wc_rate=0.5, confusion=0.0, partials=False,
                  macros=False, budget=8, max_depth=2, filters=False, ws_text=True)

CONTROL = ("if", "unless", "case", "for")
DEFAULT_CFG = 3  # default_trim '+', suppression on, shorthand off: the documented default environment


def config(c: int) -> dict[str, Any]:
    return {"default_trim": "+-~"[c % 3], "suppress": bool((c // 3) % 2), "shorthand": bool(c // 6)}


class ModelMiscalibrated(RuntimeError):
    """The reference model contradicts a documented example: a harness error, never a violation."""


# --------------------------------------------------------------------------- generator post-processing


def _echo(name: str, s: dict[str, Any]) -> dict[str, Any]:
    return {"t": "echo", "e": ["str", name], "wc": s.get("wc") or ["", ""]}


def _sanitise_block(stmts: list[dict[str, Any]], *, isolated: bool, partial: bool, in_macro: bool) -> list[dict[str, Any]]:
    """Replace, inside partial templates and macros, the statements whose interaction with the
    caller the documentation does not define (see C01.assumptions) by plain echoes."""
    out = []
    for s in stmts:
        t = s["t"]
        if t in ("increment", "decrement") and isolated:
            s = _echo(s["name"], s)
        elif t == "cycle" and (isolated or partial):
            s = {"t": "echo", "e": s["items"][0], "wc": s.get("wc") or ["", ""]}
        elif t == "call" and in_macro:
            s = _echo("call", s)
        else:
            s = dict(s)
            if t in ("with", "include", "render") and s.get("args"):
                seen: set[str] = {s["alias"]} if s.get("alias") else set()
                args = []
                for k, v in s["args"]:
                    if k not in seen:
                        seen.add(k)
                        args.append([k, v])
                s["args"] = args or [[k2, v2] for k2, v2 in s["args"][:1]]
            if t == "for" and s.get("offset") == "continue" and (isolated or partial):
                s["offset"] = None
            for key in ("body", "else"):
                if isinstance(s.get(key), list):
                    s[key] = _sanitise_block(s[key], isolated=isolated, partial=partial, in_macro=in_macro)
            if s.get("elsifs"):
                s["elsifs"] = [[c, _sanitise_block(b, isolated=isolated, partial=partial, in_macro=in_macro)]
                               for c, b in s["elsifs"]]
            if s.get("whens"):
                s["whens"] = [[v, _sanitise_block(b, isolated=isolated, partial=partial, in_macro=in_macro)]
                              for v, b in s["whens"]]
        out.append(s)
    return out


def sanitise(prog: dict[str, Any]) -> dict[str, Any]:
    main = []
    for s in prog["main"]:
        if s["t"] == "macro":
            s = dict(s)
            s["body"] = _sanitise_block(s["body"], isolated=True, partial=False, in_macro=True)
            main.append(s)
        else:
            main.extend(_sanitise_block([s], isolated=False, partial=False, in_macro=False))
    templates = {k: _sanitise_block(v, isolated=True, partial=True, in_macro=False) for k, v in prog["templates"].items()}
    return {"main": main, "templates": templates}


def _shorthand_path(e: Any, rnd: random.Random) -> None:
    if not isinstance(e, list) or not e:
        return
    if e[0] == "path":
        for seg in e[2]:
            if seg[0] == "i" and seg[1] >= 0 and rnd.random() < 0.5:
                seg[0] = "si"
            elif seg[0] == "p":
                _shorthand_path(seg[1], rnd)
        return
    for x in e:
        if isinstance(x, list):
            _shorthand_path(x, rnd)
        elif isinstance(x, dict):
            for a in x.get("args") or []:
                _shorthand_path(a, rnd)


def use_shorthand(prog: dict[str, Any], seed: int) -> dict[str, Any]:
    """With shorthand_indexes on, print some non-negative index segments as `.0` (migration.md)."""
    prog = copy.deepcopy(prog)
    rnd = random.Random(seed)

    def fn(s: dict[str, Any], _ctx: tuple[str, ...]) -> None:
        for e in interp.stmt_exprs(s):
            _shorthand_path(e, rnd)

    interp.walk_stmts(prog["main"], fn)
    for tb in prog["templates"].values():
        interp.walk_stmts(tb, fn)
    return prog


@st.composite
def case_strategy(draw: Any) -> dict[str, Any]:
    which = draw(st.integers(0, 15))
    if which >= 11:
        prog = interp.normalise_program(draw(focus_program()))
    else:
        cfg = CFG_MAIN if which < 4 else CFG_FLAT if which < 7 else CFG_WC if which < 9 else CFG_WC_FLAT
        prog = interp.normalise_program(sanitise(draw(program_strategy(cfg))))
    prog = json.loads(json.dumps(prog))  # no shared sub-objects: text runs are identified by object identity
    c = draw(st.integers(0, 11))
    if c >= 6:
        prog = use_shorthand(prog, draw(st.integers(0, 2**20)))
    return {"kind": "focus" if which >= 11 else "prog", "prog": prog, "data": draw(data_strategy()), "cfg": c,
            "layout": draw(st.integers(1, 10**6))}


# --------------------------------------------------------------------------- known defect shapes


def _has_marker(s: dict[str, Any]) -> bool:
    for k, v in s.items():
        if k.startswith("wc") and v and any(m for m in _flat(v)):
            return True
    return False


def _flat(v: Any) -> list[Any]:
    if isinstance(v, list):
        out = []
        for i in v:
            out.extend(_flat(i))
        return out
    return [v]


def shape_case_first_when_trim(prog: dict[str, Any], default_trim: str) -> bool:
    """A `case` whose first branch (`when`, or `else` when there is no `when`) starts with a text run and
    whose `case` tag and first branch tag have different effective right markers."""
    hit = [False]

    def fn(s: dict[str, Any], ctx: tuple[str, ...]) -> None:
        if s["t"] != "case" or "liquid" in ctx:
            return
        if s["whens"]:
            body, w = s["whens"][0][1], (s.get("wc_whens") or [["", ""]])[0][1]
        elif s.get("else") is not None:
            body, w = s["else"], (s.get("wc_else") or ["", ""])[1]
        else:
            return
        if not body or body[0]["t"] != "text":
            return
        a = (s.get("wc") or ["", ""])[1] or default_trim
        if a != (w or default_trim):
            hit[0] = True

    interp.walk_stmts(prog["main"], fn)
    for tb in prog["templates"].values():
        interp.walk_stmts(tb, fn)
    return hit[0]


def _conds_of(prog: dict[str, Any]) -> list[Any]:
    out: list[Any] = []

    def grab(e: Any) -> None:
        if isinstance(e, list) and e and e[0] in ("and", "or", "not", "grp"):
            out.append(e)

    def fn(s: dict[str, Any], _ctx: tuple[str, ...]) -> None:
        for e in interp.stmt_exprs(s):
            interp._walk_expr(e, grab)

    interp.walk_stmts(prog["main"], fn)
    for tb in prog["templates"].values():
        interp.walk_stmts(tb, fn)
    return out


def shape_not_in_logical_chain(prog: dict[str, Any], _default_trim: str) -> bool:
    """`not` used, without parentheses around it, as an operand of `and` / `or`."""
    return any(interp.has_bare_not(c) for c in _conds_of(prog))


def neg_lead(prog: dict[str, Any]) -> bool:
    """An output statement without a left marker whose expression starts with a negative number:
    the printer may emit `{{-1 }}`, which reads as a whitespace-control marker (printer artefact)."""
    hit = [False]

    def lead(e: Any) -> Any:
        while isinstance(e, list) and e and e[0] in ("filtered", "ternary", "array"):
            e = e[1][0] if e[0] == "array" else e[1]
        return e

    def fn(s: dict[str, Any], _ctx: tuple[str, ...]) -> None:
        if s["t"] == "out" and not (s.get("wc") or ["", ""])[0]:
            e = lead(s["e"])
            if isinstance(e, list) and e and ((e[0] == "int" and e[1] < 0) or (e[0] == "float" and e[1].startswith("-"))):
                hit[0] = True

    interp.walk_stmts(prog["main"], fn)
    for tb in prog["templates"].values():
        interp.walk_stmts(tb, fn)
    return hit[0]


def shape_final_newline_after_trim(prog: dict[str, Any], default_trim: str) -> bool:
    """A template whose last statement is a whitespace-only text run of >= 2 characters ending in a
    newline, preceded by markup whose effective right marker is '-' or '~'."""
    for stmts in [prog["main"], *prog["templates"].values()]:
        if len(stmts) < 2 or stmts[-1]["t"] != "text":
            continue
        txt = stmts[-1]["s"]
        if len(txt) < 2 or not txt.endswith("\n") or txt.strip():
            continue
        items: list[Any] = []
        try:
            interp.linearise(stmts, items)
        except Exception:  # noqa: BLE001
            continue
        if len(items) >= 2 and items[-1][0] == "text" and items[-2][0] == "mark" and (items[-2][2] or default_trim) != "+":
            return True
    return False


CYCLE_ITEMS: list[list[str]] = [
    ["-1", "5"], ["-2", "5"], ["1", "2"], ["1.0", "2.0"], ["true", "2"], ["'1'", "'2'"], ["1", "2", "3"], ["2", "1"],
    ["'a'", "'b'"], ["'a'", "'B'"], ["false", "0"], ["0", "0"], ["nil", "1"], ["''", "1"], ["-1", "-2"], ["-2", "-1"],
    ["1.5", "2"], ["'a'"], ["'a'", "'b'", "'a'"],
]


def _lit_value(text: str) -> Any:
    return {"true": True, "false": False, "nil": None}.get(text, None) if text in ("true", "false", "nil") else \
        text[1:-1] if text.startswith("'") else float(text) if "." in text else int(text)


def _lit_text(text: str) -> str:
    return "" if text == "nil" else text[1:-1] if text.startswith("'") else text


# name -> (opening line(s) separated by '|', closing line, iterations of the body, expression echoed afterwards)
NEST_TAGS: dict[str, tuple[str, str, int, str]] = {
    "if": ("if true", "endif", 1, ""),
    "if-else": ("if false|else", "endif", 1, ""),
    "unless": ("unless false", "endunless", 1, ""),
    "case": ("case 1|when 1", "endcase", 1, ""),
    "case-else": ("case 1|when 2|else", "endcase", 1, ""),
    "for": ("for VAR in (1..2)", "endfor", 2, ""),
    "for-else": ("for VAR in nosuch|else", "endfor", 1, ""),
    "tablerow": ("tablerow VAR in (1..2) cols: 1", "endtablerow", 2, ""),
    "capture": ("capture VAR", "endcapture", 1, "VAR"),
    "with": ("with VAR: 1", "endwith", 1, ""),
}

ORDER_POOL: list[Any] = [None, False, True, 0, 1, -1, 2, 10, 0.0, 1.0, 0.5, 1.5, -0.5, "", "0", "1", "a", "b", "B", "10", "true",
                         "false", " "]

DYNAMIC_FLAGS = ("map_missing_property",)

DEFECT_SHAPES = {
    "not_in_logical_chain": shape_not_in_logical_chain,
    "final_newline_after_trim": shape_final_newline_after_trim,
    "case_first_when_trim": shape_case_first_when_trim,
}


# --------------------------------------------------------------------------- running


def run_impl(prog: dict[str, Any], data: dict[str, Any], opts: dict[str, Any], layout: int) -> tuple[str, Any]:
    """("ok", text) | ("err", class name) | ("crash", exc) for non-Liquid exceptions (C02's business)."""
    try:
        src = to_source(prog["main"], layout)
        templates = {k: to_source(v, layout) for k, v in prog["templates"].items()}
    except Exception as err:  # noqa: BLE001 - printer limitation
        return ("noprint", repr(err))
    env = make_env(templates, **opts)
    try:
        return ("ok", env.from_string(src).render(**data))
    except LiquidError as err:
        return ("err", type(err).__name__)
    except RecursionError:
        return ("crash", "RecursionError")
    except Exception as err:  # noqa: BLE001
        return ("crash", exc_bucket(err))


def agree(model: tuple[str, str], got: tuple[str, Any]) -> bool:
    if model[0] == "ok":
        return got == model
    if model[0] == "err":
        return got[0] == "err"
    return True


def o1_fails(prog: dict[str, Any], data: dict[str, Any], opts: dict[str, Any]) -> tuple[Any, Any] | None:
    m = interp.render(prog, data, **opts)
    if m[0] == "unsup":
        return None
    got = run_impl(prog, data, opts, 0)
    if got[0] in ("crash", "noprint"):
        return None
    return None if agree(m, got) else (m, got)


# --------------------------------------------------------------------------- localisation


def _children(s: dict[str, Any]) -> list[dict[str, Any]]:
    out: list[dict[str, Any]] = []
    for key in ("body", "else"):
        if isinstance(s.get(key), list):
            out.extend(s[key])
    for _c, b in s.get("elsifs") or []:
        out.extend(b)
    for _v, b in s.get("whens") or []:
        out.extend(b)
    return out


def _first_op(c: Any) -> str | None:
    if not isinstance(c, list) or not c:
        return None
    if c[0] == "cmp":
        return c[1]
    if c[0] in ("and", "or", "not"):
        return _first_op(c[1]) or (_first_op(c[2]) if len(c) > 2 else None) or c[0]
    if c[0] == "grp":
        return _first_op(c[1])
    return None


def _expr_detail(e: Any, fails: Any) -> str:
    if not isinstance(e, list) or not e:
        return "?"
    k = e[0]
    if k == "filtered":
        names = [f["name"] for f in e[2]]
        for n in range(1, len(names) + 1):
            if fails(["filtered", e[1], e[2][:n]]):
                return "filter:" + names[n - 1]
        return "filter:" + names[0]
    if k == "ternary":
        return "ternary"
    if k == "path":
        segs = {"n": "name", "i": "index", "si": "shorthand", "p": "dynamic"}
        return "path:" + ("+".join(sorted({segs.get(s[0], s[0]) for s in e[2]})) or "root")
    return k


def localise(prog: dict[str, Any], data: dict[str, Any], opts: dict[str, Any]) -> tuple[str, str, dict[str, Any] | None]:
    """(kind, detail, statement) of the smallest statement that still disagrees on its own."""
    heads = [s for s in prog["main"] if s["t"] == "macro"]

    def fails_alone(stmts: list[dict[str, Any]]) -> bool:
        sub = {"main": heads + stmts, "templates": prog["templates"]}
        try:
            return o1_fails(sub, data, opts) is not None
        except Exception:  # noqa: BLE001
            return False

    best: dict[str, Any] | None = None
    frontier = [s for s in prog["main"] if s["t"] != "macro"]
    for _depth in range(6):
        cands = [s for s in frontier if fails_alone([s])]
        if not cands:
            break
        best = min(cands, key=lambda s: len(json.dumps(s)))
        frontier = _children(best)
    if best is None:
        kinds = sorted(interp.stmt_kinds(prog["main"]) - {"text"})
        return ("interaction", "+".join(kinds[:4]), None)
    t = best["t"]

    def expr_fails(e: Any) -> bool:
        return fails_alone([{"t": "out", "e": e, "wc": ["", ""]}])

    if t in ("out", "echo", "assign"):
        detail = _expr_detail(best["e"], expr_fails)
    elif t in ("if", "unless"):
        detail = _first_op(best["cond"]) or "truthy"
    elif t == "for":
        detail = ("continue" if best.get("offset") == "continue" else "limit/offset" if best.get("limit") is not None
                  or best.get("offset") is not None else "reversed" if best.get("reversed") else "plain")
    elif t in ("include", "render"):
        detail = ("for" if best.get("loop") else "with") if best.get("var") is not None else "plain"
    else:
        detail = "plain"
    if _has_marker(best) and t not in ("out", "echo", "assign"):
        detail += "+wc"
    return (t, detail, best)


# --------------------------------------------------------------------------- property


def unsup_class(reason: str) -> str:
    return reason.split(":")[0][:40]


class C01(Prop):
    id = "C01"
    title = "Rendering implements the documented Liquid semantics"
    technique = ("model-based property testing: independent reference interpreter written from the docs + CTS, "
                 "plus model-free layout metamorphism and a calibration table of documented examples")
    rule = (
        "programs from the shared grammar restricted to the model's documented core (all built-in tags except tablerow/"
        "extends/translate, ~55 filters, lambdas, ternaries, template strings, array literals, partials, macros), x "
        "schema-conforming data (confusion 0-4 %), x default_trim {+,-,~} x suppression {on,off} x shorthand_indexes "
        "{on,off} (drawn per case), 30 % of programs with explicit whitespace-control markers; plus 150+ hand-transcribed "
        "doc/CTS examples. Non-trivial: the model covers the program, it contains >= 2 distinct construct kinds of which "
        ">= 1 control-flow tag was executed (model trace) and the output is non-empty. O3 (model-free): every pair and "
        "triple of a 23-value scalar pool (nil, booleans, ints, floats, strings; as data and as literals) under the "
        "order laws converse, asymmetry, strictness, antisymmetry, eq/ne complement and transitivity; non-trivial when "
        "some ordering holds. Distinct by SHA-1 of the case."
    )
    assumptions = [
        "The model asserts only what docs/*.md or a CTS golden case states; everything else is skipped and counted under "
        "labels unsup:<reason> (never asserted): stringified non-empty hashes, exponent-form floats, round ties, mixed-sign "
        "float modulo, mixed-type sort and ties between distinguishable items, nested arrays in array filters other than "
        "concat/map/sum, string inputs to array filters other than join/concat/sort, unicode whitespace in strip/"
        "truncatewords, nil/undefined/bool against empty/blank, ordering or contains on operands other than "
        "numbers/strings/arrays/hashes, precedence of `not` over comparisons (the generator parenthesises), errors in "
        "operands that short-circuit evaluation would skip, negative or non-integer limit/offset, cycle items whose values "
        "change, two matching values in one `when`, counters/cycles/offset:continue/calls inside partials and macros "
        "(rewritten to echoes by the generator post-pass), macro defaults that depend on the evaluation scope, binding "
        "names for templates with a directory or extension, forloop inside `include ... for`, and whitespace of blank "
        "with/capture/macro bodies (the docs speak of conditional blocks only; the implementation suppresses them too).",
        "Whitespace = what str.strip() removes; text at the very start/end of a template is trimmed by default_trim.",
        "A non-LiquidError exception from the implementation is C02's subject and only labelled here.",
        "O2 compares two printings of the same AST (layout seeds 0 and k) on output text / error-vs-no-error.",
    ]
    batch = 120

    def __init__(self) -> None:
        self.miscalibrated = 0
        self.calibrated = 0

    def n_random(self, tier: str) -> int:
        return 18000 if tier == "quick" else 400000

    def budget_s(self, tier: str) -> float:
        return 240 if tier == "quick" else 3000

    def strategy(self, tier: str, disabled: frozenset[str]):
        return case_strategy()

    def enumerate(self, tier: str, disabled: frozenset[str]):
        for i, (name, prog, data, want) in enumerate(TABLE):
            yield {"kind": "calibration", "name": name, "prog": prog, "data": data, "want": want, "cfg": DEFAULT_CFG,
                   "layout": 1000 + i}

        # block tags with an empty body between every pair of markers: which marker trims the text that follows
        # the end tag (a case tag may have no when at all)
        marks = ["", "-", "~", "+"]
        for right_open in marks:
            for right_end in marks:
                for cfg in (0, 1, 2):
                    for lead in ("", " "):
                        stmts = [
                            {"t": "case", "e": ["int", 1], "whens": [], "wc": ["", right_open], "wc_end": ["", right_end],
                             "wc_whens": [], "wc_else": ["", ""], "else": None, "lead_ws": lead},
                            {"t": "if", "cond": ["false"], "body": [], "elsifs": [], "else": None,
                             "wc": ["", right_open], "wc_end": ["", right_end]},
                        ]
                        for stmt in stmts:
                            main = [{"t": "text", "s": "[ \n"}, stmt, {"t": "text", "s": " \n b]"}]
                            yield {"kind": "prog", "prog": {"main": main, "templates": {}}, "data": {}, "cfg": cfg,
                                   "layout": 0}

        # every modelled filter with every argument replaced in turn by a value of each type (the model answers
        # `unsup` where the reference does not say what happens)
        from lv.gen.grammar import FILTERS as GF
        lefts = {"str": ["path", "s", []], "seq": ["path", "nums", []], "list": ["path", "nums", []],
                 "hashes": ["path", "items", []], "num": ["path", "n", []], "int": ["path", "n", []],
                 "float": ["path", "f", []], "any": ["path", "s", []], "strs": ["path", "words", []],
                 "ints": ["path", "nums", []]}
        plain = {"str": ["str", "p"], "int": ["int", 2], "num": ["int", 2], "float": ["float", "1.5"],
                 "any": ["str", "p"], "key": ["str", "title"], "bool": ["true"]}
        odd = [["nil"], ["true"], ["false"], ["float", "1.5"], ["int", -1], ["range", ["int", 1], ["int", 2]],
               ["path", "nums", []], ["path", "user", [["n", "first"]]], ["path", "nosuch", []], ["str", ""]]
        data = {"s": "a p b", "nums": [3, 1, 2], "words": ["b", "a"], "n": 7, "f": 2.5, "user": {"name": "apple"},
                "items": [{"title": "t1", "price": 2}, {"title": "t0", "price": 1}]}
        for name in FILTERS:
            spec = GF.get(name)
            if spec is None or not spec[1] or spec[0] not in lefts:
                continue
            kinds = [k.rstrip("?") for k in spec[1]]
            if any(k not in plain for k in kinds):
                continue
            for pos in range(len(kinds)):
                for val in odd:
                    args = [["pos", val if j == pos else plain[k]] for j, k in enumerate(kinds)]
                    prog = {"main": [{"t": "out", "e": ["filtered", lefts[spec[0]], [{"name": name, "args": args}]],
                                      "wc": ["", ""]}], "templates": {}}
                    yield {"kind": "arg-types", "prog": prog, "data": data, "cfg": DEFAULT_CFG, "layout": 0}
        # O5 - cycle iterators are told apart by their items (and name): literal lists that differ in an item
        # never share an iterator, identical lists do
        for i, a in enumerate(CYCLE_ITEMS):
            for j, b in enumerate(CYCLE_ITEMS):
                yield {"kind": "cycle-pair", "a": a, "b": b, "named": (i + j) % 3 == 0, "cfg": DEFAULT_CFG}
        # O4 - every block tag nests in every block tag (markup and `liquid` line form): a well-formed
        # template is never rejected, and the innermost text comes out once per iteration
        for outer in NEST_TAGS:
            for inner in NEST_TAGS:
                for form in ("markup", "liquid"):
                    yield {"kind": "nesting", "outer": outer, "inner": inner, "form": form, "cfg": DEFAULT_CFG}
        # O3 - order laws over every pair of a scalar pool (model-free)
        for i, a in enumerate(ORDER_POOL):
            for j, b in enumerate(ORDER_POOL):
                yield {"kind": "order-laws", "a": a, "b": b, "literal": (i + j) % 2 == 1, "cfg": DEFAULT_CFG}

        for a in ORDER_POOL:
            for b in ORDER_POOL:
                for c in ORDER_POOL:
                    yield {"kind": "order-trans", "a": a, "b": b, "c": c, "cfg": DEFAULT_CFG}

    def _check_cycle_pair(self, case: Any) -> Result:
        res = Result()
        a, b = case["a"], case["b"]
        name = "g: " if case.get("named") else ""
        src = "{% cycle " + name + ", ".join(a) + " %}|{% cycle " + name + ", ".join(b) + " %}|{% cycle " + name + ", ".join(a) + " %}"
        same = a == b
        liquid_equal = len(a) == len(b) and all(_lit_value(x) == _lit_value(y) and
                                                isinstance(_lit_value(x), bool) == isinstance(_lit_value(y), bool)
                                                for x, y in zip(a, b))
        res.labels.append("cycle-pair:" + ("same" if same else "equal-valued" if liquid_equal else "different"))
        if liquid_equal and not same:
            return res  # 1 vs 1.0: whether equal-valued literals are "the same items" is not documented
        shown = [_lit_text(x) for x in a], [_lit_text(x) for x in b]
        want = "|".join([shown[0][0], shown[1][1 % len(b)] if same else shown[1][0],
                         shown[0][(2 if same else 1) % len(a)]])
        env = make_env({}, **config(case["cfg"]))
        res.evaluations = 1
        try:
            out = env.from_string(src).render()
        except Exception as err:  # noqa: BLE001
            res.labels.append("crash:" + exc_bucket(err))
            return res
        res.nontrivial = True
        if out != want:
            res.fail("cycle-identity", "cycle:" + ("same-items-not-shared" if same else "different-items-shared"),
                     f"src={src!r}: rendered {out!r}, the documented iterator identity gives {want!r}")
        return res

    def _check_nesting(self, case: Any) -> Result:
        res = Result()
        o, i = NEST_TAGS[case["outer"]], NEST_TAGS[case["inner"]]
        liquid = case["form"] == "liquid"
        res.labels.append(f"nesting:{case['form']}")

        def wrap(spec: tuple[str, str, int, str], body: str, depth: int, v: str) -> str:
            head, end, _mult, after = spec
            head, after = head.replace("VAR", v), after.replace("VAR", v)
            if liquid:
                pad = "  " * depth
                lines = [pad + ln for ln in head.split("|")] + [body] + [pad + end]
                if after:
                    lines.append(pad + "echo " + after)
                return "\n".join(lines)
            out = "".join("{% " + ln + " %}" for ln in head.split("|")) + body + "{% " + end + " %}"
            return out + ("{{ " + after + " }}" if after else "")

        if liquid:
            src = "{% liquid\n" + wrap(o, wrap(i, "      echo 'X'", 2, "w"), 1, "v") + "\n%}"
        else:
            src = wrap(o, wrap(i, "X", 2, "w"), 1, "v")
        want = o[2] * i[2]
        env = make_env({}, shopify=True, **config(case["cfg"]))
        res.evaluations = 1
        try:
            out = env.from_string(src).render()
        except LiquidError as err:
            res.fail("well-formed", f"nesting-rejected:{case['outer']}-in-{case['form']}:{type(err).__name__}",
                     f"{case['inner']} inside {case['outer']}: {type(err).__name__}: {str(err).splitlines()[0]}; src={src!r}")
            return res
        except Exception as err:  # noqa: BLE001 - C02's business
            res.labels.append("crash:" + exc_bucket(err))
            return res
        res.nontrivial = True
        if out.count("X") != want:
            res.fail("well-formed", f"nesting-count:{case['outer']}:{case['inner']}",
                     f"expected {want} X, rendered {out!r}; src={src!r}")
        return res

    def _check_trans(self, case: Any) -> Result:
        """Transitivity: a < b and b < c imply a < c (and the same for <=)."""
        res = Result()
        env = make_env({}, **config(case["cfg"]))
        vals = {"a": case["a"], "b": case["b"], "c": case["c"]}
        res.labels.append("order-laws:transitivity")

        def holds(x: str, op: str, y: str) -> bool:
            res.evaluations += 1
            try:
                return bool(env.from_string("{% if " + x + " " + op + " " + y + " %}T{% endif %}").render(**vals) == "T")
            except LiquidError:
                return False

        try:
            for op in ("<", "<="):
                if holds("a", op, "b") and holds("b", op, "c"):
                    res.nontrivial = True
                    if not holds("a", op, "c"):
                        kinds = "/".join(sorted({type(v).__name__ for v in vals.values()}))
                        res.fail("order-laws", f"order-law:transitivity:{kinds}", f"{vals} : a {op} b and b {op} c but not a {op} c")
        except Exception as err:  # noqa: BLE001 - C02's business
            res.labels.append("crash:" + exc_bucket(err))
        return res

    def _check_order(self, case: Any) -> Result:
        """Laws every ordering must satisfy together with equality, whatever the documentation leaves open
        about which values are ordered: converse (a < b iff b > a, a <= b iff b >= a), asymmetry, strictness
        (a < b implies a <= b and a != b) and antisymmetry (a <= b and b <= a imply a == b)."""
        res = Result()
        a, b = case["a"], case["b"]
        lit = case.get("literal") and all(type(v) in (bool, int, str) or v is None for v in (a, b))
        res.labels.append("order-laws:" + ("literal" if lit else "data"))

        def term(name: str, v: Any) -> str:
            if not lit:
                return name
            return "nil" if v is None else ("true" if v else "false") if isinstance(v, bool) else \
                str(v) if isinstance(v, int) else "'" + v + "'"

        env = make_env({}, **config(case["cfg"]))
        got: dict[str, str] = {}
        for key, left, op, right in (("lt", "a", "<", "b"), ("gt'", "b", ">", "a"), ("le", "a", "<=", "b"),
                                     ("ge'", "b", ">=", "a"), ("le'", "b", "<=", "a"), ("lt'", "b", "<", "a"),
                                     ("eq", "a", "==", "b"), ("ne", "a", "!=", "b")):
            x = term(left, a if left == "a" else b)
            y = term(right, a if right == "a" else b)
            src = "{% if " + x + " " + op + " " + y + " %}T{% else %}F{% endif %}"
            try:
                got[key] = env.from_string(src).render(a=a, b=b)
            except LiquidError as err:
                got[key] = type(err).__name__
            except Exception as err:  # noqa: BLE001 - C02's business
                res.labels.append("crash:" + exc_bucket(err))
                return res
            res.evaluations += 1
        kinds = "/".join(sorted({type(a).__name__, type(b).__name__}))
        bad = []
        if got["lt"] != got["gt'"]:
            bad.append("converse-lt-gt")
        if got["le"] != got["ge'"]:
            bad.append("converse-le-ge")
        if got["lt"] == "T" and got["lt'"] == "T":
            bad.append("asymmetry")
        if got["lt"] == "T" and (got["le"] != "T" or got["ne"] != "T"):
            bad.append("strictness")
        if got["le"] == "T" and got["le'"] == "T" and got["eq"] != "T":
            bad.append("antisymmetry")
        if (got["eq"] == "T") == (got["ne"] == "T") and got["eq"] in "TF" and got["ne"] in "TF":
            bad.append("eq-ne-complement")
        for law in bad:
            res.fail("order-laws", f"order-law:{law}:{kinds}", f"a={a!r} b={b!r} literal={bool(lit)} outcomes={got}")
        res.nontrivial = "T" in (got["lt"], got["lt'"], got["le"], got["le'"])
        return res

    def extra_evidence(self) -> dict[str, Any]:
        return {"model_calibration_ok": self.calibrated, "model_calibration_bad": self.miscalibrated,
                "model_calibration_table": f"{len(TABLE)} documented examples"}

    def sample(self, case: Any) -> Any:
        if case["kind"] in ("order-laws", "order-trans", "nesting", "cycle-pair"):
            return case
        try:
            src = to_source(case["prog"]["main"], 0)
        except Exception:  # noqa: BLE001
            src = "?"
        return {"kind": case["kind"], "cfg": config(case["cfg"]), "src": src[:300]}

    def check(self, case: Any, disabled: frozenset[str] = frozenset()) -> Result:  # noqa: PLR0912, PLR0915
        if case["kind"] == "order-laws":
            return self._check_order(case)
        if case["kind"] == "order-trans":
            return self._check_trans(case)
        if case["kind"] == "nesting":
            return self._check_nesting(case)
        if case["kind"] == "cycle-pair":
            return self._check_cycle_pair(case)
        res = Result()
        prog, data = json.loads(json.dumps(case["prog"])), case["data"]
        opts = config(case["cfg"])
        res.labels.append(f"cfg:{opts['default_trim']}{'S' if opts['suppress'] else 's'}{'H' if opts['shorthand'] else 'h'}")
        res.evaluations = 0

        for flag, shape in DEFECT_SHAPES.items():
            if flag in disabled and shape(prog, opts["default_trim"]):
                res.excluded.append(flag)
                return res

        trace: set[str] = set()
        model = interp.render(prog, data, trace=trace, known=disabled, **opts)
        if model[0] == "unsup" and model[1].startswith("known:"):
            res.excluded.append(model[1][6:])
            return res

        if case["kind"] == "calibration":
            want = case["want"]
            ok = (model[0] == "err") if want is None else model == ("ok", want)
            if not ok:
                self.miscalibrated += 1
                res.labels.append("model-miscalibrated")
                raise ModelMiscalibrated(f"{case['name']}: documented {want!r}, model {model!r}; "
                                         f"src={to_source(prog['main'], 0)!r}")
            self.calibrated += 1
            res.labels.append("calibration")

        got = run_impl(prog, data, opts, 0)
        res.evaluations += 1
        if got[0] == "noprint":
            res.labels.append("unprintable")
            return res
        if got[0] == "crash":
            res.labels.append("crash:" + str(got[1])[:80])
            return res

        kinds = interp.stmt_kinds(prog["main"])
        for k in kinds:
            res.labels.append("stmt:" + k)
        for tr in trace:
            if tr.startswith("filter:"):
                res.labels.append(tr)

        # O1 - model agreement
        if model[0] == "unsup":
            res.labels.append("unsup:" + unsup_class(model[1]))
        else:
            res.labels.append("model:" + model[0])
            if not agree(model, got):
                kind, detail, stmt = localise(prog, data, opts)
                sub = {"main": [x for x in prog["main"] if x["t"] == "macro"] + [stmt], "templates": prog["templates"]} if stmt is not None else prog
                hits = [flag for flag, shape in DEFECT_SHAPES.items() if shape(sub, opts["default_trim"])]
                if not hits and kind in ("interaction", "text"):
                    hits = [flag for flag, shape in DEFECT_SHAPES.items() if shape(prog, opts["default_trim"])]
                if hits:
                    detail = hits[0]
                for flag in DYNAMIC_FLAGS:
                    if interp.render(sub, data, known=frozenset([flag]), **opts) == ("unsup", "known:" + flag):
                        detail = flag
                what = "error-expected" if model[0] == "err" else "unexpected-error" if got[0] == "err" else "text"
                try:
                    wsrc = to_source([stmt], 0) if stmt is not None else to_source(prog["main"], 0)
                except Exception:  # noqa: BLE001
                    wsrc = "?"
                res.fail("model-agreement", f"model:{kind}:{detail}",
                         f"{what}: model={model!r} impl={got!r} cfg={opts} smallest={wsrc[:500]!r} "
                         f"full={to_source(prog['main'], 0)[:700]!r} templates={ {k: to_source(v, 0)[:300] for k, v in prog['templates'].items()} } data={json.dumps(data, ensure_ascii=False)[:700]}")
            executed = any(t in trace for t in CONTROL)
            res.nontrivial = (len(kinds - {"text"}) >= 2 and executed and model[0] == "ok" and bool(model[1]))

        # O2 - layout independence (model-free)
        if neg_lead(prog):
            res.labels.append("layout-skip:negative-literal-after-{{")
            return res
        got2 = run_impl(prog, data, opts, case["layout"])
        res.evaluations += 1
        if got2[0] in ("crash", "noprint"):
            res.labels.append("layout-crash")
        elif (got[0], got[1] if got[0] == "ok" else None) != (got2[0], got2[1] if got2[0] == "ok" else None):
            construct = self._layout_culprit(prog, data, opts, case["layout"])
            res.fail("layout-independence", f"layout:{construct}",
                     f"layout 0 -> {got!r}; layout {case['layout']} -> {got2!r}; cfg={opts} "
                     f"src0={to_source(prog['main'], 0)[:500]!r} srck={to_source(prog['main'], case['layout'])[:500]!r}")
        return res

    def _layout_culprit(self, prog: dict[str, Any], data: dict[str, Any], opts: dict[str, Any], layout: int) -> str:
        heads = [s for s in prog["main"] if s["t"] == "macro"]
        best = None
        for s in prog["main"]:
            if s["t"] == "macro":
                continue
            sub = {"main": heads + [s], "templates": prog["templates"]}
            a, b = run_impl(sub, data, opts, 0), run_impl(sub, data, opts, layout)
            if a[0] in ("ok", "err") and b[0] in ("ok", "err") and (a[0], a[1] if a[0] == "ok" else 0) != (b[0], b[1] if b[0] == "ok" else 0):
                if best is None or len(json.dumps(s)) < len(json.dumps(best)):
                    best = s
        return best["t"] if best is not None else "interaction"


PROP = C01()
