"""C13 - file-system and package loaders never read outside their roots.

A sandbox tree is built once per process under ``tempfile.mkdtemp()`` (read-only for the
cases, removed at exit).  Every file's content is a unique token naming its own path
relative to the sandbox directory, so whatever a loader returns tells us which file it read.

    <T>/secret.txt, x.html                     two levels above the file-system roots
    <T>/base/{secret.txt,x.html,x,x.liquid}    siblings of the roots
    <T>/base/root1x/x.html                     a sibling whose name has a root as prefix
    <T>/base/root1/...   <T>/base/root2/...    the FileSystemLoader search paths
    <T>/elsewhere/...                          an unrelated absolute location
    <T>/pkgs/                                  put on sys.path
    <T>/pkgs/lv_c13_pkg/{__init__.py,secret.txt,x.html,x.liquid}   package, outside package_path
    <T>/pkgs/lv_c13_pkg/tpl1/...  tpl2/...     the PackageLoader package paths

A case is JSON: ``{"name", "kind", "roots", "ext", "order", "modes", "accesses"}``.  The
marker ``<T>`` inside a name stands for the absolute path of the sandbox (which differs
from run to run), so that a replay file does not depend on the temp directory's name.

The reference resolution is computed from the *specification of the tree* (a dict), not by
asking the file system, and by plain string arithmetic on the name.
"""

from __future__ import annotations

import asyncio
import atexit
import itertools
import os
import re
import shutil
import stat
import sys
import tempfile
from concurrent.futures import Future as ConcurrentFuture
from concurrent.futures import ThreadPoolExecutor
from pathlib import Path
from typing import Any
from typing import Iterator

from hypothesis import strategies as st

from lv.core.runner import Prop
from lv.core.runner import Result
from lv.core.runner import exc_bucket
from lv.gen.printer import Layout
from lv.gen.printer import quote_string
from lv.harness.envs import make_env

from liquid2 import CachingFileSystemLoader
from liquid2 import ChoiceLoader
from liquid2 import FileSystemLoader
from liquid2 import PackageLoader
from liquid2.builtin.loaders.choice_loader import CachingChoiceLoader
from liquid2.exceptions import LiquidError
from liquid2.exceptions import TemplateNotFoundError

# --------------------------------------------------------------------------- the tree

U = "\u00fc\u65e5"  # a unicode path segment
PKG = "lv_c13_pkg"
MARK = "<T>"
P = f"pkgs/{PKG}"

FS_ROOTS = ["base/root1", "base/root2"]
PKG_ROOTS = [f"{P}/tpl1", f"{P}/tpl2"]

FILES: list[str] = [
    # outside: above the roots
    "secret.txt",
    "x.html",
    # outside: siblings of the file-system roots
    "base/secret.txt",
    "base/x.html",
    "base/x",
    "base/x.liquid",
    "base/a/x.html",
    "base/root1x/x.html",
    # root1
    "base/root1/secret.txt",
    "base/root1/x.html",
    "base/root1/x",
    "base/root1/a.html",  # 'a' + default extension, while 'a' itself is a directory
    "base/root1/a/x.html",
    "base/root1/a/x",
    "base/root1/a/secret.txt",
    "base/root1/a/sub/x.html",
    "base/root1/sub/secret.txt",
    "base/root1/sub/a/x",
    f"base/root1/{U}/x.html",
    # files whose names are what `..` becomes when a default extension is appended to it
    "base/root1/...html",
    "base/root1/...liquid",
    "base/root1/...txt",
    "base/root1/a/...html",
    "base/root1/a/...liquid",
    # root2
    "base/root2/x.html",  # shadowed by root1
    "base/root2/x",  # shadowed by root1
    "base/root2/a",  # a file here, a directory in root1
    "base/root2/sub/x.html",  # only here
    "base/root2/sub/x",
    "base/root2/sub/sub/x.html",
    f"base/root2/{U}.html",
    f"base/root2/{U}/x",
    # outside: unrelated location
    "elsewhere/secret.txt",
    "elsewhere/x.html",
    "elsewhere/x",
    "elsewhere/x.liquid",
    "elsewhere/a/x.html",
    # outside: next to / inside the package but not under package_path
    "pkgs/secret.txt",
    "pkgs/x.html",
    "pkgs/x.liquid",
    f"{P}/__init__.py",
    f"{P}/secret.txt",
    f"{P}/x.html",
    f"{P}/x.liquid",
    f"{P}/a/x.html",
    # package path 1
    f"{P}/tpl1/x.liquid",
    f"{P}/tpl1/x.html",
    f"{P}/tpl1/secret.txt",
    f"{P}/tpl1/sub/x.liquid",
    f"{P}/tpl1/a/sub/x.html",
    f"{P}/tpl1/a/secret.txt",
    f"{P}/tpl1/...liquid",
    f"{P}/tpl1/...html",
    f"{P}/tpl1/a/...liquid",
    # package path 2
    f"{P}/tpl2/x.liquid",  # shadowed by tpl1
    f"{P}/tpl2/x",  # no suffix: never reachable through a PackageLoader
    f"{P}/tpl2/a.liquid",
    f"{P}/tpl2/a/x.liquid",
    f"{P}/tpl2/a/x.html",
    f"{P}/tpl2/sub/x.html",
    f"{P}/tpl2/sub.html",
    f"{P}/tpl2/{U}/x.liquid",
    f"{P}/tpl2/{U}.html",
]

# symbolic links inside the search directories whose targets lie outside them
SYMLINKS = {
    "base/root1/lnk.html": "../secret.txt",
    "base/root1/lnkdir": "../../elsewhere",
    f"{P}/tpl1/lnk.liquid": "../secret.txt",
    f"{P}/tpl1/lnkdir": "../../../elsewhere",
}
SYMLINK_NAMES = ["lnk.html", "lnk", "lnkdir/x.html", "lnkdir/x", "lnk.liquid", "lnkdir/x.liquid", "lnkdir/secret.txt",
                 "a/../lnk.html"]

ALL_FILES = frozenset(FILES)
ALL_DIRS = frozenset(
    "/".join(f.split("/")[:i]) for f in FILES for i in range(1, len(f.split("/")))
)
assert not (ALL_FILES & ALL_DIRS)

RE_TOKEN = re.compile(r"C13FILE<([^>]*)>")


def token_of(rel: str) -> str:
    return f"C13FILE<{rel}>"


def content_of(rel: str) -> str:
    if rel.endswith(".py"):
        return f'"""{token_of(rel)}"""\n'
    return token_of(rel)


class _Sandbox:
    def __init__(self) -> None:
        self.pid = os.getpid()
        self.dir = os.path.realpath(tempfile.mkdtemp(prefix="lv_c13_"))
        try:
            for rel in FILES:
                path = os.path.join(self.dir, rel)
                os.makedirs(os.path.dirname(path), exist_ok=True)
                with open(path, "w", encoding="utf-8") as fd:
                    fd.write(content_of(rel))
            # links planted inside the roots that lead out of them (only SYMLINK_NAMES reach them)
            for rel, target in SYMLINKS.items():
                os.symlink(target, os.path.join(self.dir, rel))
            # read-only for the cases
            for dirpath, _dirnames, filenames in os.walk(self.dir):
                for fn in filenames:
                    os.chmod(os.path.join(dirpath, fn), stat.S_IRUSR | stat.S_IRGRP | stat.S_IROTH)
                os.chmod(dirpath, 0o555)
            # no symlinks anywhere: the model (FILES) is the reality
            for rel in FILES:
                real = os.path.realpath(os.path.join(self.dir, rel))
                if real != os.path.join(self.dir, rel):
                    raise RuntimeError(f"sandbox path {rel!r} is not canonical: {real!r}")
        except BaseException:
            self.remove()
            raise
        self.syspath_entry = os.path.join(self.dir, "pkgs")

    def install_package(self) -> None:
        if self.syspath_entry not in sys.path:
            sys.path.insert(0, self.syspath_entry)

    def remove(self) -> None:
        if os.getpid() != self.pid:
            return  # a forked worker never removes the parent's tree
        entry = getattr(self, "syspath_entry", None)
        if entry is not None:
            while entry in sys.path:
                sys.path.remove(entry)
        for mod in [m for m in sys.modules if m == PKG or m.startswith(PKG + ".")]:
            del sys.modules[mod]

        def _onerror(func: Any, path: str, _exc: Any) -> None:
            try:
                os.chmod(os.path.dirname(path), 0o755)
                os.chmod(path, 0o755)
                func(path)
            except OSError:
                pass

        if os.path.isdir(self.dir):
            for dirpath, _d, _f in os.walk(self.dir):
                try:
                    os.chmod(dirpath, 0o755)
                except OSError:
                    pass
            shutil.rmtree(self.dir, onerror=_onerror)


_SANDBOX: _Sandbox | None = None


def _cleanup() -> None:
    global _SANDBOX
    sb = _SANDBOX
    if sb is not None and sb.pid == os.getpid():
        _SANDBOX = None
        sb.remove()


def sandbox() -> _Sandbox:
    """The per-process sandbox.  A worker forked after the parent built its tree re-uses the
    parent's (read-only) tree; the creating process removes it at exit."""
    global _SANDBOX
    sb = _SANDBOX
    if sb is not None and os.path.isdir(sb.dir):
        sb.install_package()
        return sb
    sb = _Sandbox()
    _SANDBOX = sb
    sb.install_package()
    atexit.register(_cleanup)
    try:  # pool workers leave through os._exit(): atexit does not run there, Finalize does
        from multiprocessing import util as mp_util

        mp_util.Finalize(None, _cleanup, exitpriority=0)
    except Exception:  # noqa: BLE001
        pass
    return sb


# --------------------------------------------------------------------------- reference resolution

KIND_NAMES = {
    "fs": "FileSystemLoader",
    "cfs": "CachingFileSystemLoader",
    "pkg": "PackageLoader",
    "choice": "ChoiceLoader",
    "cchoice": "CachingChoiceLoader",
}
KINDS = list(KIND_NAMES)
ACCESSES = ["get", "include", "render", "extends"]
MODES = ["sync", "async"]


def classify(name: str) -> str:
    if name.startswith("/"):
        return "absolute"
    if ".." in name.split("/"):
        return "dotdot"
    return "other"


def norm_segments(name: str) -> list[str]:
    """Normalised relative name: empty and '.' segments carry no meaning."""
    return [s for s in name.split("/") if s not in ("", ".")]


def is_plain(name: str) -> bool:
    segs = name.split("/")
    return bool(name) and "\x00" not in name and all(s not in ("", ".", "..") for s in segs)


def suffix_state(last: str) -> str:
    """'none' | 'has' | 'ambiguous': does the final segment carry a file extension?
    (the loaders add the default extension only to names without one)"""
    if last.startswith(".."):
        return "ambiguous"  # `...txt`: whether that is a hidden `..txt` or a name with suffix .txt is not documented
    stripped = last.lstrip(".")
    if "." not in stripped:
        return "none"
    if stripped.endswith("."):
        return "ambiguous"
    return "has"


def sub_loaders(case: dict[str, Any]) -> list[tuple[str, list[str], str | None]]:
    """[(flavour, [root rel paths], effective default extension)] in search order."""
    kind = case["kind"]
    idx = case["roots"]
    ext = case.get("ext") or None
    fs = ("fs", [FS_ROOTS[i] for i in idx], ext)
    pkg = ("pkg", [PKG_ROOTS[i] for i in idx], ext or ".liquid")
    if kind in ("fs", "cfs"):
        return [fs]
    if kind == "pkg":
        return [pkg]
    return [pkg, fs] if case.get("order") else [fs, pkg]


def reference(case: dict[str, Any], name: str) -> dict[str, Any]:
    """What the documented resolution selects for a relative, '..'-free name.

    acceptable: set of sandbox-relative files that may be served; strict: the selection is
    unambiguous; dir: a directory inside a root is met first (outcome out of scope).
    """
    segs = norm_segments(name)
    acceptable: set[str] = set()
    strict = True
    dir_hit = not segs  # the root directory itself
    if segs and "\x00" not in name:
        rel = "/".join(segs)
        state = suffix_state(segs[-1])
        found = False
        for _flavour, roots, ext in sub_loaders(case):
            if ext is None or state == "has":
                cands = [rel]
            elif state == "none":
                cands = [rel + ext]
            else:
                cands = [rel, rel + ext]
                strict = False
            for cand in cands:
                for root in roots:
                    path = f"{root}/{cand}"
                    if path in ALL_FILES:
                        acceptable.add(path)
                        found = True
                        break
                    if path in ALL_DIRS:
                        dir_hit = True
                if found and strict:
                    break
            if found and strict:
                break
    return {"acceptable": acceptable, "strict": strict, "dir": dir_hit}


def configured_roots(case: dict[str, Any]) -> list[str]:
    return [r for _f, roots, _e in sub_loaders(case) for r in roots]


def arithmetic_outside_hit(case: dict[str, Any], name: str, tdir: str) -> bool:
    """Does the name, joined to a root by plain path arithmetic, denote an existing file
    outside every configured root?"""
    if "\x00" in name:
        return False
    roots = configured_roots(case)
    for _flavour, rts, ext in sub_loaders(case):
        for root in rts:
            for cand in ([name] if not ext else [name, name.rstrip("/") + ext]):
                full = os.path.normpath(os.path.join(tdir, root, cand))
                if not full.startswith(tdir + "/"):
                    continue
                rel = full[len(tdir) + 1:]
                if rel in ALL_FILES and not any(rel.startswith(r + "/") for r in roots):
                    return True
    return False


# --------------------------------------------------------------------------- loaders / access paths


def build_loader(case: dict[str, Any], tdir: str) -> Any:
    kind = case["kind"]
    idx = case["roots"]
    ext = case.get("ext") or None
    fs_paths: Any = [os.path.join(tdir, FS_ROOTS[i]) for i in idx]
    if len(fs_paths) == 1:
        fs_paths = fs_paths[0]  # a plain str
    else:
        fs_paths = [Path(p) if i % 2 else p for i, p in enumerate(fs_paths)]
    pk_paths: Any = [PKG_ROOTS[i].split("/", 2)[2] for i in idx]
    if len(pk_paths) == 1:
        pk_paths = pk_paths[0]

    def fs() -> Any:
        return FileSystemLoader(fs_paths, ext=ext)

    def pkg() -> Any:
        if ext is None:
            return PackageLoader(PKG, package_path=pk_paths)
        return PackageLoader(PKG, package_path=pk_paths, ext=ext)

    if kind == "fs":
        return fs()
    if kind == "cfs":
        return CachingFileSystemLoader(fs_paths, ext=ext)
    if kind == "pkg":
        return pkg()
    loaders = [pkg(), fs()] if case.get("order") else [fs(), pkg()]
    if kind == "choice":
        return ChoiceLoader(loaders)
    if kind == "cchoice":
        return CachingChoiceLoader(loaders)
    raise ValueError(f"unknown loader kind {kind!r}")


def literal_for(name: str) -> str:
    """A Liquid string literal denoting `name`; without escapes where possible."""
    needs_escape = "\\" in name or "${" in name or any(ord(c) < 0x20 or ord(c) == 0x7F for c in name)
    if not needs_escape:
        if "'" not in name:
            return "'" + name + "'"
        if '"' not in name:
            return '"' + name + '"'
    return quote_string(name, Layout(0))


class _LiteralMismatch(Exception):
    pass


def _tag_template(env: Any, tag: str, name: str) -> Any:
    """Parse `{% tag 'name' %}` and make sure the tag really asks for `name`."""
    tmpl = env.from_string("{% " + tag + " " + literal_for(name) + " %}")
    nodes = tmpl.nodes
    value = getattr(getattr(nodes[0], "name", None), "value", None) if len(nodes) == 1 else None
    if not isinstance(value, str) or str(value) != name:
        raise _LiteralMismatch(f"{tag}: literal {literal_for(name)!r} denotes {value!r}, wanted {name!r}")
    return tmpl


def prepare(env: Any, access: str, name: str) -> tuple[Any, dict[str, Any]]:
    """Parse the one-tag template of a tag access path (no loader involved yet).
    Raises LiquidSyntaxError / _LiteralMismatch when the name cannot be written as a literal."""
    if access == "get":
        return None, {}
    if access == "include":
        return env.from_string("{% include n %}"), {"n": name}
    return _tag_template(env, access, name), {}


class _InlineExecutor(ThreadPoolExecutor):
    """Runs each job at once on the calling (event loop) thread.

    The loaders hand their file-system work to `loop.run_in_executor(None, ...)`.  The harness runs in
    forked worker processes under a SIGALRM watchdog; worker threads there bought nothing for this property
    and once left a worker waiting for ever on a job, so the jobs are run inline: same functions, same
    arguments, a real event loop, no threads.  Set LV_C13_THREADS=1 to use a real single-thread pool."""

    def submit(self, fn: Any, /, *args: Any, **kwargs: Any) -> Any:  # type: ignore[override]
        fut: ConcurrentFuture[Any] = ConcurrentFuture()
        try:
            fut.set_result(fn(*args, **kwargs))
        except Exception as err:  # noqa: BLE001 - delivered through the future, as a pool would
            fut.set_exception(err)
        return fut


REAL_THREADS = os.environ.get("LV_C13_THREADS") == "1"


class _CaseLoop:
    """A fresh event loop per case (FileSystemLoader/PackageLoader use run_in_executor, so a real loop
    is needed); created lazily and torn down, with its executor, when the case ends."""

    def __init__(self) -> None:
        self.loop: asyncio.AbstractEventLoop | None = None
        self.executor: ThreadPoolExecutor | None = None

    def run(self, coro: Any) -> Any:
        if self.loop is None:
            self.loop = asyncio.new_event_loop()
            self.executor = ThreadPoolExecutor(max_workers=1) if REAL_THREADS else _InlineExecutor(max_workers=1)
            self.loop.set_default_executor(self.executor)
        return self.loop.run_until_complete(coro)

    def close(self) -> None:
        if self.executor is not None:
            self.executor.shutdown(wait=True)
            self.executor = None
        if self.loop is not None:
            try:
                self.loop.run_until_complete(self.loop.shutdown_asyncgens())
            finally:
                self.loop.close()
                self.loop = None


def execute(env: Any, tmpl: Any, data: dict[str, Any], name: str, mode: str, loop: _CaseLoop) -> str:
    """One execution of the code under test; returns the rendered text."""
    if tmpl is None:
        if mode == "sync":
            return env.get_template(name).render()

        async def go() -> str:
            loaded = await env.get_template_async(name)
            return await loaded.render_async()

        return loop.run(go())
    if mode == "sync":
        return tmpl.render(**data)
    return loop.run(tmpl.render_async(**data))


# --------------------------------------------------------------------------- generators

SEGS = ["a", "sub", "x.html", "x", ".", "..", "", "secret.txt", U]


def grammar_names(max_segments: int) -> Iterator[str]:
    seen: set[str] = set()
    for n in range(1, max_segments + 1):
        for combo in itertools.product(SEGS, repeat=n):
            plain = "/".join(combo)
            for name in (plain, "/" + plain, plain + "/", "/" + plain + "/", "//".join(combo),
                         "//" + plain):
                if name not in seen:
                    seen.add(name)
                    yield name


OUTSIDE_ABS = [
    "secret.txt", "x.html", "base/secret.txt", "base/x.html", "base/x", "base/root1x/x.html",
    "elsewhere/secret.txt", "elsewhere/x.html", "elsewhere/x", "elsewhere/a/x.html",
    "pkgs/secret.txt", f"{P}/__init__.py", f"{P}/secret.txt", f"{P}/x", f"{P}/x.html",
]
INSIDE_ABS = ["base/root1/x.html", "base/root1/a/x", "base/root2/sub/x.html", f"{P}/tpl1/x.html",
              f"{P}/tpl1/x", f"{P}/tpl2/a/x.html"]


def extra_names() -> list[str]:
    out: list[str] = []
    for rel in OUTSIDE_ABS + INSIDE_ABS:
        out.append(f"{MARK}/{rel}")
    for rel in ("base/secret.txt", "elsewhere/x.html", f"{P}/secret.txt", "base/root1/x.html"):
        out.append(f"/{MARK}/{rel}")  # leading '//'
        out.append(f"{MARK}//{rel}")
        out.append(f"{MARK}/./{rel}")
        out.append(f"a/{MARK}/{rel}")  # absolute path embedded after a segment
        out.append(f"./{MARK}/{rel}")
        out.append(f"{MARK}/{rel}/")
    out.append(f"{MARK}/base/root1/../secret.txt")
    out.append(f"{MARK}/base/root1/../root1/x.html")
    # longer '..' walks than the bounded grammar reaches in the quick tier
    out += [
        "a/../../x.html", "a/../../secret.txt", "a/sub/../../../secret.txt", "a/sub/../../../x",
        "sub/../../../secret.txt", "./../x.html", "a/./../../x.html", "a//../..//x.html",
        "../root2/sub/x.html", "../root1/x.html", "../root1x/x.html", "../tpl2/a/x.html",
        "../tpl1/x.html", "../../elsewhere/x.html", "../../../elsewhere/x", "../__init__.py",
        "../../base/x", f"../../{PKG}/secret.txt", "a/../x.html", "a/sub/../../x.html",
        "a/../../root1/x.html", "x.html/..", "x.html/../x.html", "x.html/../../secret.txt",
        "../x.liquid", "../x", "../../x", "a/../../a/x.html", "..", "../", "../..", "a/..", "a/../",
    ]
    # unicode compatibility look-alikes of '.' and '/': each is an ordinary character of a segment name, so none
    # of these names exists - unless something normalises the name after it was validated
    walks = [n for n in out if ".." in n and MARK not in n][:24]
    for n in walks:
        for dots in LOOKALIKE_DOTS:
            out.append(n.replace("..", dots))
        for slash in LOOKALIKE_SLASHES:
            out.append(n.replace("/", slash))
        out.append(n.replace("..", LOOKALIKE_DOTS[0]).replace("/", LOOKALIKE_SLASHES[0]))
        # the other platform's separator is an ordinary character here: a name is not a walk because it would be
        # one after converting `\\` to `/` - unless something converts it after the name was validated
        out.append(n.replace("/", "\\"))
        out.append(n.replace("/", "\\", 1))
        out.append("\\".join(n.rsplit("/", 1)))
        out.append(n.replace("../", "..\\"))
    for rel in ("base/secret.txt", "elsewhere/x.html", f"{P}/secret.txt", "base/root1/x.html"):
        out.append(f"{MARK_FW}\uff0f{rel.replace('/', chr(0xff0f))}")
        out.append(f"{MARK_FW}/{rel}")
        out.append(f"\uff0f{MARK.strip('<>')}/{rel}")
    return out


LOOKALIKE_DOTS = ["\u2025", "\u2024\u2024", "\uff0e\uff0e", ".\uff0e", "\u2024.", "\u3002\u3002"]
LOOKALIKE_SLASHES = ["\uff0f", "\u2215", "\u2044", "\u29f8"]
MARK_FW = "<TF>"  # the sandbox path with every '/' written as U+FF0F FULLWIDTH SOLIDUS


def control_names() -> list[str]:
    """Plain relative names of every inside file (completeness control)."""
    out: list[str] = []
    for root in FS_ROOTS + PKG_ROOTS:
        for f in FILES:
            if f.startswith(root + "/"):
                rel = f[len(root) + 1:]
                if rel not in out:
                    out.append(rel)
                stem = rel.rsplit(".", 1)[0]
                if "." in rel.rsplit("/", 1)[-1] and stem not in out:
                    out.append(stem)  # the same file through the default extension
    return out


ENUM_CONFIGS = [
    {"kind": kind, "roots": roots, "ext": ext, "order": 0}
    for kind in KINDS
    for roots in ([0], [0, 1])
    for ext in (None, ".html")
]

RANDOM_SEGS = SEGS + [
    "root1", "root2", "base", "elsewhere", "pkgs", PKG, "tpl1", "tpl2", "root1x", "__init__.py", "x.liquid",
    "a.html", "secret", "x.HTML", "...", "....", ". .", ".. ", " ..", " ", "..\\", "\\..", "\\", "..\\..",
    "%2e%2e", "%2f", "\uff0e\uff0e", "\u2025", "\u2024\u2024", "\u2215", "\uff0f", "\u2025", "\uff0f", MARK_FW, "..\x00", "\x00", "\x00.html",
    "~", "~root", "$HOME", "${x}", "C:", "c:\\", "file:", "x.", ".x", ".html", "x.html.", "x..html", U + ".html",
    "u\u0308\u65e5", "'", '"', "{{", "%}", "\n", "a" * 300, MARK, MARK.strip("<>"),
]
SEPS = ["/", "/", "/", "/", "//", "/./", "\\", "/../", "///"]
PREFIXES = ["", "", "", "/", "//", "./", "../", "../../", MARK + "/", MARK + "/base/", MARK + "/base/root1/",
            MARK + "/base/root1/../", MARK + "/" + P + "/", "/" + MARK + "/", "\\", "~/", " /", "\x00/",
            "a/" + MARK + "/", "/../", "/./"]
SUFFIXES = ["", "", "", "", "/", "//", "/.", "/..", "\x00", ".", " ", ".html", "\x00.html", "/\x00"]


@st.composite
def random_case(draw: Any) -> dict[str, Any]:
    n = draw(st.integers(1, 8))
    parts: list[str] = []
    for i in range(n):
        if i:
            parts.append(draw(st.sampled_from(SEPS)))
        r = draw(st.integers(0, 11))
        if r == 0:
            parts.append(draw(st.text(max_size=6)))
        elif r == 1:
            parts.append(draw(st.text(alphabet="./\\\x00 ax~\u00fc\u65e5\uff0e", max_size=6)))
        else:
            parts.append(draw(st.sampled_from(RANDOM_SEGS)))
    name = draw(st.sampled_from(PREFIXES)) + "".join(parts) + draw(st.sampled_from(SUFFIXES))
    if draw(st.integers(0, 5)) == 0:  # target an outside file exactly
        name = draw(st.sampled_from(PREFIXES)) + draw(st.sampled_from(sorted(ALL_FILES))) \
            + draw(st.sampled_from(SUFFIXES))
    if draw(st.integers(0, 7)) == 0 and name:  # one character edit
        pos = draw(st.integers(0, len(name) - 1))
        ins = draw(st.sampled_from(["\x00", "/", ".", "..", "\\", " ", "\u00e9", "\U0001f600", ""]))
        name = name[:pos] + ins + name[pos + draw(st.integers(0, 1)):]
    name = name[:700]
    return {
        "name": name,
        "kind": draw(st.sampled_from(KINDS)),
        "roots": draw(st.sampled_from([[0], [0, 1], [1, 0], [1]])),
        "ext": draw(st.sampled_from([None, None, ".html", ".liquid", ".txt"])),
        "order": draw(st.integers(0, 1)),
        "modes": draw(st.sampled_from([["sync"], ["async"], ["sync", "async"]])),
        "accesses": draw(st.lists(st.sampled_from(ACCESSES), min_size=1, max_size=4, unique=True)),
        "pre_roots": draw(st.sampled_from([None, None, None, [0], [1], [0, 1]])),
    }


# --------------------------------------------------------------------------- the property


class C13(Prop):
    id = "C13"
    title = "File-system and package loaders never read outside their roots"
    technique = (
        "bounded-exhaustive enumeration of a path grammar + property-based testing (Hypothesis), "
        "content-token oracle against a model of the sandbox tree"
    )
    rule = (
        "template names: every sequence of <= 3 (quick) / <= 4 (thorough) segments from {a, sub, x.html, x, '.', "
        "'..', '', secret.txt, a unicode name} joined with '/', each also with a leading '/', a trailing '/', "
        "both, doubled separators and a leading '//'; the absolute paths (<T> = sandbox dir) of outside and "
        "inside files; longer '..' walks; the plain relative names of all inside files (completeness control); "
        "plus Hypothesis names of <= 8 segments with unicode look-alikes, backslashes, NUL and long segments. "
        "Each name x {FileSystemLoader, CachingFileSystemLoader, PackageLoader over a temporary package, "
        "ChoiceLoader, CachingChoiceLoader over both} x one/two search paths x without/with default extension "
        "x sync/async x {get_template, include (name as data), render, extends (name as literal)}. A case is "
        "non-trivial when the name contains '.', '..', empty or absolute components, or, joined to a configured "
        "root by plain path arithmetic, denotes an existing file outside every configured root; distinct by "
        "SHA-1 of the case. thorough is exhaustive over the bounded grammar x the 20 enumerated configurations "
        "x 2 modes x 4 access paths; quick pairs every grammar name with every loader kind and half of the "
        "(search paths, extension) combinations (all 20 for the control, absolute and long '..' names)"
    )
    assumptions = [
        "POSIX path semantics (separator '/', no drive letters); the sandbox contains no symbolic links, so "
        "os.path.realpath of a file is its path in the tree specification",
        "a name whose normalised form (after default-extension handling) meets a directory inside a root "
        "before a file is out of scope: only confinement is checked there, not the outcome",
        "a non-LiquidError exception (ValueError for NUL bytes, OSError for over-long names or directories) "
        "is out of scope here (totality is C02); it is counted in a label",
        "where it is unclear whether the final segment has an extension ('x.', 'x..') either reading of the "
        "default-extension rule is accepted",
        "tag access paths are only judged when the parsed tag really asks for the intended name "
        "(checked on the parsed node); otherwise the evaluation is skipped and counted",
        "the package is imported from a temporary directory prepended to sys.path inside the process",
        "async mode runs on a fresh event loop per case whose default executor runs the loaders' "
        "run_in_executor jobs inline on the loop thread (no worker threads inside the forked harness workers)",
    ]
    batch = 250

    def n_random(self, tier: str) -> int:
        return 6000 if tier == "quick" else 120000

    def strategy(self, tier: str, disabled: frozenset[str]):
        return random_case()

    def enumerate(self, tier: str, disabled: frozenset[str]):
        # control and hand-picked names: every configuration, both tiers
        fixed = control_names() + extra_names()
        seen = set(fixed)
        for name in fixed:
            for cfg in ENUM_CONFIGS:
                yield self._case(name, cfg)
        if "symlinks" not in disabled:
            for name in SYMLINK_NAMES:
                for cfg in ENUM_CONFIGS:
                    yield self._case(name, cfg)
        # histories on one loader object: what a traversal name collapses to is loaded first
        for name, warm in (("sub/../x.html", ["x.html"]), ("nosuch/../x.html", ["x.html"]), ("a/../x", ["x", "x.html"]),
                           ("a/../a/x.html", ["a/x.html"]), ("./a/../x.html", ["x.html"]), ("a/sub/../../x.html", ["x.html"]),
                           ("sub/../x", ["x", "x.liquid", "x.html"]), ("x.html/../x.html", ["x.html"]),
                           ("a//x.html", ["a/x.html"]), ("./x.html", ["x.html"])):
            for cfg in ENUM_CONFIGS:
                case = self._case(name, cfg)
                case["warm"] = warm
                yield case
        # histories across loader objects: a neighbour with other search paths loads the name first
        for name in control_names():
            for kind in KINDS:
                for ext in (None, ".html"):
                    for roots, pre in (([1], [0]), ([0], [1]), ([1], [0, 1])):
                        case = self._case(name, {"kind": kind, "roots": roots, "ext": ext, "order": 0})
                        case["pre_roots"] = pre
                        yield case
        # grammar names: thorough = every configuration; quick = every loader kind, and for each kind two
        # of the four (search paths, extension) combinations, complementary and alternating with the name
        index = 0
        for name in grammar_names(3 if tier == "quick" else 4):
            if name in seen:
                continue
            index += 1
            for ci, cfg in enumerate(ENUM_CONFIGS):
                if tier == "quick":
                    combo = ci % 4  # 0: one path/no ext, 1: one path/ext, 2: two paths/no ext, 3: two paths/ext
                    if (combo in (0, 3)) != ((index + ci // 4) % 2 == 0):
                        continue
                yield self._case(name, cfg)

    @staticmethod
    def _case(name: str, cfg: dict[str, Any]) -> dict[str, Any]:
        case = dict(cfg)
        case["name"] = name
        case["modes"] = list(MODES)
        case["accesses"] = list(ACCESSES)
        return case

    def enumerated_is_exhaustive(self, tier: str) -> bool:
        # quick pairs every grammar name with every loader kind but only half of the
        # (search paths, extension) combinations
        return tier == "thorough"

    def budget_s(self, tier: str) -> float:
        return 240 if tier == "quick" else 3000

    def setup_worker(self) -> None:
        sandbox()

    # ------------------------------------------------------------------ oracle

    def check(self, case: Any, disabled: frozenset[str] = frozenset()) -> Result:
        loop = _CaseLoop()
        try:
            return self._check(case, loop, disabled)
        finally:
            loop.close()

    def _check(self, case: Any, loop: _CaseLoop, disabled: frozenset[str]) -> Result:  # noqa: PLR0912, PLR0915
        res = Result()
        res.evaluations = 0
        sb = sandbox()
        tdir = sb.dir
        name: str = case["name"].replace(MARK_FW, tdir.replace("/", "\uff0f")).replace(MARK, tdir)
        kind_name = KIND_NAMES[case["kind"]]
        cls = classify(name)
        roots = configured_roots(case)
        ref = reference(case, name) if cls == "other" else {"acceptable": set(), "strict": True, "dir": False}
        plain = is_plain(name)
        segs = name.split("/")
        res.nontrivial = (
            cls != "other" or any(s in ("", ".") for s in segs) or arithmetic_outside_hit(case, name, tdir)
        )
        res.labels.append("class:" + cls)
        if cls == "absolute" and "absolute-names" in disabled:
            # an active known finding ("absolute names are served") switches these cases off
            res.excluded.append("absolute-names")
            res.evaluations = 0
            return res
        if ref["dir"]:
            res.labels.append("dir-inside")

        env = make_env(loader=build_loader(case, tdir))  # one fresh Environment per case

        # (access, mode) -> bucket stem, detail ; decided after both modes ran
        found: dict[tuple[str, str], list[tuple[str, str, str]]] = {}

        for access in case.get("accesses") or ACCESSES:
            for mode in case.get("modes") or MODES:
                fails: list[tuple[str, str, str]] = []
                found[(access, mode)] = fails
                where = f"name={name!r} loader={kind_name} roots={roots} ext={case.get('ext')!r} {mode} {access}"
                res.evaluations += 1
                env.loader = build_loader(case, tdir)  # a fresh loader (and cache) for every evaluation
                if case.get("pre_roots") is not None:
                    # a neighbour: another loader object of the same kind over other directories is asked for
                    # the same name first; what it found is none of this loader's business
                    other = dict(case, roots=case["pre_roots"])
                    try:
                        make_env(loader=build_loader(other, tdir)).get_template(name)
                    except Exception:  # noqa: BLE001, S110
                        pass
                    res.labels.append("neighbour-loader")
                if case.get("warm"):
                    # the same loader object has served the names this one collapses to (a cache keyed by a
                    # normalised name would now answer without ever looking at the name that was asked for)
                    for pre in case["warm"]:
                        try:
                            env.get_template(pre)
                        except Exception:  # noqa: BLE001, S110
                            pass
                    res.labels.append("warmed-loader")
                try:
                    tmpl, data = prepare(env, access, name)
                except _LiteralMismatch:
                    res.labels.append("skipped:literal-mismatch:" + access)
                    continue
                except LiquidError:
                    res.labels.append("skipped:literal-rejected:" + access)
                    continue
                except Exception as err:  # noqa: BLE001 - a parser crash is C02's business
                    res.labels.append("out-of-scope:parse:" + type(err).__name__)
                    continue
                try:
                    out = execute(env, tmpl, data, name, mode, loop)
                except TemplateNotFoundError as err:
                    res.labels.append("not-found")
                    self._judge_error(err, ref, plain, cls, kind_name, access, where, fails)
                    continue
                except LiquidError as err:
                    res.labels.append("liquid-error:" + type(err).__name__)
                    self._judge_error(err, ref, plain, cls, kind_name, access, where, fails)
                    continue
                except RecursionError:
                    res.labels.append("recursion")
                    continue
                except Exception as err:  # noqa: BLE001
                    if cls != "other":
                        # "names that are absolute or contain parent-directory segments fail with
                        # TemplateNotFoundError" - not with whatever pathlib or the OS raises
                        fails.append(("must-reject", f"wrong-error:{kind_name}:{cls}:{access}:{type(err).__name__}",
                                      f"{where}: {type(err).__name__}: {str(err)[:200]}; expected "
                                      f"TemplateNotFoundError [{exc_bucket(err)}]"))
                    else:
                        res.labels.append("out-of-scope:" + type(err).__name__)  # totality is C02's business
                    continue

                # ---- a template was returned
                tokens = RE_TOKEN.findall(out)
                if len(tokens) != 1 or tokens[0] not in ALL_FILES or out != content_of(tokens[0]):
                    fails.append(("escape", f"escape:{kind_name}:{cls}:{access}:unknown-content",
                                  f"{where}: rendered {out[:200]!r}, which is no file of the sandbox"))
                    continue
                rel = tokens[0]
                real = os.path.realpath(os.path.join(tdir, rel))
                inside = any(
                    os.path.commonpath([real, os.path.realpath(os.path.join(tdir, r))])
                    == os.path.realpath(os.path.join(tdir, r))
                    for r in roots
                )
                if not inside and segs[0].startswith("lnk"):
                    fails.append(("escape", f"symlink-followed:{kind_name}:{access}",
                                  f"{where}: served <T>/{rel}, outside the search directories, through a symbolic "
                                  "link planted inside them"))
                    continue
                if not inside:
                    fails.append(("escape", f"escape:{kind_name}:{cls}:{access}",
                                  f"{where}: served <T>/{rel}, outside the search directories"))
                    continue
                if cls != "other":
                    fails.append(("must-reject", f"not-rejected:{kind_name}:{cls}:{access}",
                                  f"{where}: served <T>/{rel}; a name that is absolute or has a '..' segment "
                                  "must give TemplateNotFoundError"))
                    continue
                res.labels.append("served-inside")
                if ref["dir"]:
                    continue
                if rel not in ref["acceptable"]:
                    want = sorted(ref["acceptable"])
                    if not want:
                        why = "none-expected"
                    elif rel.rsplit("/", 1)[-1] != want[0].rsplit("/", 1)[-1]:
                        why = "extension"
                    else:
                        why = "search-order"
                    fails.append(("selection", f"wrong-file:{kind_name}:{access}:{why}",
                                  f"{where}: served <T>/{rel}, the reference resolution selects {want or 'nothing'}"))

        # bucket: add a mode discriminator only when exactly one mode fails
        for (access, mode), fails in found.items():
            other = "async" if mode == "sync" else "sync"
            other_fails = found.get((access, other))
            for oracle, bucket, detail in fails:
                if other_fails is not None and not any(b == bucket for _o, b, _d in other_fails):
                    bucket = f"{bucket}:{mode}-only"
                elif mode == "async" and other_fails is not None:
                    continue  # same failure in both modes: report once
                res.fail(oracle, bucket, detail)
        return res

    @staticmethod
    def _judge_error(err: LiquidError, ref: dict[str, Any], plain: bool, cls: str, kind_name: str,
                     access: str, where: str, fails: list[tuple[str, str, str]]) -> None:
        if cls != "other":
            if not isinstance(err, TemplateNotFoundError):
                fails.append(("must-reject", f"wrong-error:{kind_name}:{cls}:{access}:{type(err).__name__}",
                              f"{where}: {type(err).__name__}: {str(err)[:200]}; expected TemplateNotFoundError "
                              f"[{exc_bucket(err)}]"))
            return
        if plain and ref["strict"] and ref["acceptable"] and not ref["dir"]:
            fails.append(("completeness", f"missing:{kind_name}:{access}",
                          f"{where}: {type(err).__name__}: {str(err)[:200]}; the inside file "
                          f"{sorted(ref['acceptable'])} must be loadable by its plain relative name"))

    def sample(self, case: Any) -> Any:
        return {"name": case["name"][:120], "kind": case["kind"], "roots": case["roots"], "ext": case.get("ext")}

    def extra_evidence(self) -> dict[str, Any]:
        return {
            "sandbox_files": sorted(FILES),
            "loader_kinds": [KIND_NAMES[k] for k in KINDS],
            "access_paths": ACCESSES,
            "modes": MODES,
        }


PROP = C13()
