"""C19 - built-in filters obey their defining laws.

A case is one law applied to one filter with generated arguments of the documented types:

    {"law": "sort", "filter": "sort_natural", "form": "key", "left": [...], "args": ["k"]}

`form` says how the filter is applied: at template level (`tmpl`, or for the key based
sequence filters `nokey` / `key` / `keyval` / `lambda` / `lambdaeq`) with every value
passed as render data and the result observed through `| json`, or `direct` through
`env.filters[name]` for the filters that are plain functions.  The reference definitions
live in lv/model/c19_model.py and are written from docs/filter_reference.md + the CTS
golden cases only.  Failures are bucketed `<law>:<filter>:<form>`.
"""

from __future__ import annotations

import html
import json
import math
import random
import re
import struct
import unicodedata
from decimal import ROUND_HALF_EVEN
from decimal import Decimal
from fractions import Fraction
from typing import Any

from hypothesis import strategies as st

from lv.core.runner import Prop
from lv.core.runner import Result
from lv.core.runner import exc_bucket
from lv.harness.envs import make_env
from lv.model import c19_model as M

from liquid2.exceptions import LiquidError

# --------------------------------------------------------------------------- execution


def canon(v: Any) -> str:
    return json.dumps(v, sort_keys=True, default=_default)


def _default(o: Any) -> Any:
    if isinstance(o, tuple):
        return list(o)
    return {"__repr__": repr(o)}


def same(a: Any, b: Any) -> bool:
    return canon(a) == canon(b)


class Run:
    """One fresh Environment per case; counts executions of code under test."""

    def __init__(self, shopify: bool = False) -> None:
        self.env = make_env({}, shopify=shopify)
        self.evals = 0

    def render(self, src: str, data: dict[str, Any]) -> tuple[str, Any]:
        self.evals += 1
        try:
            return ("ok", self.env.from_string(src).render(**data))
        except LiquidError as err:
            return ("err", f"{type(err).__name__}: {str(err).splitlines()[0] if str(err) else ''}")
        except RecursionError:
            return ("err", "RecursionError")
        except Exception as err:  # noqa: BLE001 - an escape is a failed law here, C02 names it
            return ("exc", f"{exc_bucket(err)}: {err}")

    def value(self, expr: str, data: dict[str, Any]) -> tuple[str, Any]:
        out = self.render("{{ " + expr + " | json }}", data)
        if out[0] != "ok":
            return out
        try:
            return ("ok", json.loads(out[1]))
        except ValueError:
            return ("err", f"not json: {out[1][:200]!r}")

    def direct(self, name: str, left: Any, args: list[Any]) -> tuple[str, Any]:
        fn = self.env.filters[name]
        kwargs: dict[str, Any] = {}
        if getattr(fn, "with_environment", False):
            kwargs["environment"] = self.env
        self.evals += 1
        try:
            rv = fn(left, *args, **kwargs)
        except LiquidError as err:
            return ("err", f"{type(err).__name__}: {str(err).splitlines()[0] if str(err) else ''}")
        except Exception as err:  # noqa: BLE001
            return ("exc", f"{exc_bucket(err)}: {err}")
        try:
            return ("ok", json.loads(canon(rv)))
        except ValueError:
            return ("err", f"not json-able: {rv!r}")

    def plain(self, name: str) -> bool:
        return not getattr(self.env.filters[name], "with_context", False)

    def apply(self, form: str, name: str, left: Any, args: list[Any]) -> tuple[str, Any]:
        """`left | name: args...` in the given form (`direct` or `tmpl`)."""
        if form == "direct" and self.plain(name):
            return self.direct(name, left, args)
        data = {"x": left}
        for i, a in enumerate(args):
            data[f"a{i}"] = a
        expr = f"x | {name}" + (": " + ", ".join(f"a{i}" for i in range(len(args))) if args else "")
        return self.value(expr, data)

    def chain(self, form: str, left: Any, steps: list[tuple[str, list[Any]]]) -> tuple[str, Any]:
        """left | f1: args | f2: args ... (template: one expression; direct: nested calls)."""
        if form == "direct" and all(self.plain(n) for n, _ in steps):
            cur: Any = left
            for name, args in steps:
                out = self.direct(name, cur, args)
                if out[0] != "ok":
                    return out
                cur = out[1]
            return ("ok", cur)
        data = {"x": left}
        parts = ["x"]
        n = 0
        for name, args in steps:
            names = []
            for a in args:
                data[f"a{n}"] = a
                names.append(f"a{n}")
                n += 1
            parts.append(name + (": " + ", ".join(names) if names else ""))
        return self.value(" | ".join(parts), data)


def seq_expr(name: str, form: str, key: str) -> str:
    if form == "nokey":
        return f"x | {name}"
    if form == "key":
        return f"x | {name}: '{key}'"
    if form == "keyval":
        return f"x | {name}: '{key}', v"
    if form == "lambda":
        return f"x | {name}: i => i.{key}"
    if form == "lambdaeq":
        return f"x | {name}: i => i.{key} == v"
    raise ValueError(form)


MAP_OBSERVE = (
    "{% assign r = EXPR %}[{% for e in r %}{% if e == nil %}null{% else %}{{ e | json }}{% endif %}"
    "{% unless forloop.last %},{% endunless %}{% endfor %}]"
)


def seq_apply(run: Run, name: str, form: str, key: str, left: Any, value: Any = None) -> tuple[str, Any]:
    data = {"x": left, "v": value}
    expr = seq_expr(name, form, key)
    if name == "map":
        out = run.render(MAP_OBSERVE.replace("EXPR", expr), data)
        if out[0] != "ok":
            return out
        try:
            return ("ok", json.loads(out[1]))
        except ValueError:
            return ("err", f"not json: {out[1][:200]!r}")
    return run.value(expr, data)


# --------------------------------------------------------------------------- generators
#
# Hypothesis draws 8 bytes (size, generator index, seed); the case itself is built by a private
# PRNG seeded with that draw (the pattern lv/gen/printer.py uses for layouts).  A case drawn
# element by element from Hypothesis cost ~2.8 ms against 0.35 ms for checking it (and
# integers()/one_of() put 20-40 % of the mass on index 0); this way ~0.6 ms and uniform.
# `size` bounds every length and is the first byte, so the runner's shrinker (bytes -> 0)
# still walks towards small witnesses.

SMALL = "ab cA,.-é日\U0001f600<>&'\"%+/=\t\n"
KEY_POOL = ["a", "b", "A", "B", "ab", "Ab", "", "z", "é", "10", "9"]
MIXED = [None, False, True, 0, 1, 2, 0.0, 1.5, -3, "", "a", "b", "A", "1", "0"]
SPECIAL_INTS = [2**53, 2**53 + 1, -(2**53) - 1, 2**63 - 1, 2**63, 2**64 + 1, 10**30 + 7, -(10**25) - 3]
VERSIONS = ["v1.2", "v1.10", "1.2.1", "v1.10.0", "v1.1.0", "0001", "12", "107", "x", "beta", "a2b", "10", "9"]
SEP_ALPHA = ",;# -"
WORD_ALPHA = "abcAé日\U0001f600<&"
ENTITIES = ["&amp;", "&lt;", "&gt;", "&#39;", "&quot;", "&", "<", ">", "'", '"', "a", "&amp;amp;", " ", "&nbsp;",
            "&#x27;", "é"]
ENDS = ["...", "", "--", ".", ", and so on"]
ASCII_WS4 = " \t\r\n"


class G:
    """Private PRNG with the few combinators the generators need."""

    def __init__(self, seed: int, size: int) -> None:
        self.r = random.Random(seed)
        self.size = size

    def one(self, seq: Any) -> Any:
        return seq[self.r.randrange(len(seq))]

    def int(self, lo: int, hi: int) -> int:
        return self.r.randint(lo, hi)

    def p(self, x: float) -> bool:
        return self.r.random() < x

    def n(self, cap: int = 8) -> int:
        return self.r.randint(0, min(cap, self.size))

    def lst(self, fn: Any, cap: int = 8) -> list[Any]:
        return [fn(self) for _ in range(self.n(cap))]

    def text(self, alphabet: str, cap: int = 10, lo: int = 0) -> str:
        hi = max(lo, min(cap, self.size + 2))
        return "".join(self.one(alphabet) for _ in range(self.r.randint(lo, hi)))

    def uchar(self) -> str:
        r = self.r.random()
        if r < 0.5:
            return chr(self.r.randint(0x20, 0x7E))
        if r < 0.58:
            return chr(self.r.randint(0x00, 0x1F))
        if r < 0.75:
            return chr(self.r.randint(0xA0, 0x24F))
        if r < 0.9:
            cp = self.r.randint(0x250, 0xFFFF)
            return chr(cp) if not 0xD800 <= cp <= 0xDFFF else "�"
        return chr(self.r.randint(0x10000, 0x10FFFE))

    def utext(self, cap: int = 12, lo: int = 0) -> str:
        hi = max(lo, min(cap, self.size + 2))
        return "".join(self.uchar() for _ in range(self.r.randint(lo, hi)))

    def t_small(self) -> str:
        return self.text(SMALL)

    def t_any(self) -> str:
        return self.utext() if self.p(0.35) else self.text(SMALL)

    def t_key(self) -> str:
        return self.one(KEY_POOL) if self.p(0.6) else self.text("abAB é日", 3)

    # numbers
    def ints(self) -> int:
        r = self.r.random()
        if r < 0.5:
            return self.r.randint(-30, 30)
        if r < 0.8:
            return self.r.randint(-(2**80), 2**80)
        return self.one(SPECIAL_INTS)

    def spell(self, small: bool | None = None) -> str:
        if small is None:
            small = self.p(0.5)
        m, p = (self.r.randint(-99999, 99999), self.r.randint(1, 4)) if small else (
            self.r.randint(-(10**12), 10**12), self.r.randint(1, 6))
        sign = "-" if m < 0 else ""
        m = abs(m)
        return f"{sign}{m // 10**p}.{str(m % 10**p).zfill(p)}"

    def dec_float(self) -> float:
        return float(self.spell())

    def mid_float(self) -> float:
        return self.one((-1, 1)) * 10 ** self.r.uniform(-7, 12)

    def wild_float(self) -> float:
        while True:
            f = struct.unpack("<d", self.r.getrandbits(64).to_bytes(8, "little"))[0]
            if math.isfinite(f):
                return f

    def float_like(self) -> Any:
        r = self.r.random()
        if r < 0.4:
            return self.dec_float()
        if r < 0.65:
            return self.spell()
        if r < 0.9:
            return self.mid_float()
        return self.wild_float()

    def int_like(self) -> Any:
        return str(self.ints()) if self.p(0.3) else self.ints()

    def num_any(self) -> Any:
        return self.int_like() if self.p(0.5) else self.float_like()

    # values
    def mixed(self) -> Any:
        return self.one(MIXED)

    def scalar(self) -> Any:
        r = self.r.random()
        if r < 0.6:
            return self.one(MIXED)
        if r < 0.8:
            return self.t_small()
        return self.ints()

    def item(self) -> Any:
        if self.p(0.25):
            return {"k": self.one(["a", "b", 1, None])}
        return self.scalar()

    def hashes(self, value: Any, *, missing: bool = True, cap: int = 7) -> list[Any]:
        """Array of hashes over the key pool {k, t, id}: `k` is the tested property (sometimes
        missing), `id` makes the items distinguishable in most arrays, `t` is noise."""
        with_id = self.p(0.75)
        out = []
        for i in range(self.n(cap)):
            it: dict[str, Any] = {}
            if with_id:
                it["id"] = i
            if not (missing and self.p(0.12)):
                it["k"] = value(self)
            if self.p(0.25):
                it["t"] = "x"
            out.append(it)
        return out

    def nested(self, item: Any, depth: int = 0) -> list[Any]:
        """Flat or nested (depth <= 3) arrays."""
        out = []
        for _ in range(self.n(5 if depth == 0 else 3)):
            if depth < 2 and self.p(0.2):
                out.append(self.nested(item, depth + 1))
            else:
                out.append(item(self))
        return out

    def form2(self) -> str:
        return self.one(("tmpl", "direct"))


def case(law: str, flt: str, form: str, left: Any, args: list[Any]) -> dict[str, Any]:
    return {"law": law, "filter": flt, "form": form, "left": left, "args": args}


# ---- sequence laws


def _version(g: G) -> Any:
    return g.one(VERSIONS) if g.p(0.5) else g.text("abv.0123456789", 6)


def _sortable_num(g: G) -> Any:
    r = g.r.random()
    return g.int(-30, 30) if r < 0.4 else g.ints() if r < 0.7 else g.dec_float()


def _sort_values(g: G, flt: str) -> tuple[Any, bool]:
    if flt == "sort":
        return (G.t_key, True) if g.p(0.5) else (_sortable_num, False)
    if flt == "sort_natural":
        # "forced to lowercase" is str.lower(), which differs from casefold() on these
        special = ["Stra\u00dfe", "STRAST", "strasse", "\u017f", "s", "S", "\u03c2", "\u03c3", "\u03a3", "\ufb01", "fi", "FI",
                   "\u0130", "i", "I", "\u00df", "ss", "st"]
        return (lambda h: h.one(special) if h.p(0.2) else h.t_key() if h.p(0.7) else h.int(0, 1200)), True
    return (lambda h: h.one([True, False, 1.0, 0.0, 1, 0]) if h.p(0.12) else _version(h) if h.p(0.6)
            else h.int(-20, 120) if h.p(0.6) else h.dec_float()), True


def g_sort(g: G) -> dict[str, Any]:
    flt = g.one(("sort", "sort_natural", "sort_numeric"))
    form = g.one(("nokey", "key", "lambda"))
    values, missing = _sort_values(g, flt)
    if form == "nokey":
        return case("sort", flt, form, g.lst(values), [])
    return case("sort", flt, form, g.hashes(values, missing=missing), ["k"])


def g_reverse(g: G) -> dict[str, Any]:
    if g.p(0.1):
        return case("reverse", "reverse", g.form2(), g.t_small(), [])
    return case("reverse", "reverse", g.form2(), g.lst(G.item), [])


def _dupy(g: G) -> Any:
    r = g.r.random()
    if r < 0.35:
        return g.one(MIXED)
    if r < 0.6:
        return g.one(["a", "b", 1, 2, None])
    if r < 0.8:
        return g.int(0, 3)
    return {"k": g.one(["a", "b", 1])}


def g_uniq(g: G) -> dict[str, Any]:
    form = g.one(("nokey", "key", "lambda"))
    if form == "nokey":
        return case("uniq", "uniq", form, g.lst(_dupy), [])
    return case("uniq", "uniq", form, g.hashes(G.mixed), ["k"])


def g_compact(g: G) -> dict[str, Any]:
    form = g.one(("nokey", "key", "lambda"))
    if form == "nokey":
        return case("compact", "compact", form, g.lst(lambda h: None if h.p(0.3) else h.item()), [])
    return case("compact", "compact", form, g.hashes(G.mixed), ["k"])


SELECT_VALUES = [False, True, 0, 1, 2, 1.5, "", "a", "b", "A", "1", 0.0, -3, "0", None]


def g_select(g: G) -> dict[str, Any]:
    form = g.one(("key", "keyval", "lambda", "lambdaeq"))
    args: list[Any] = ["k"]
    if form in ("keyval", "lambdaeq"):
        v = g.one(SELECT_VALUES)
        args.append("a" if form == "lambdaeq" and v is None else v)
    return case(g.one(("select", "find")), "where", form, g.hashes(G.mixed), args)


AGREE = ["where", "reject", "find", "find_index", "has", "map", "sum", "sort", "sort_natural", "sort_numeric",
         "uniq", "compact"]


def _summand(g: G) -> Any:
    r = g.r.random()
    if r < 0.35:
        return g.int(-30, 30)
    if r < 0.5:
        return g.ints()
    if r < 0.65:
        return g.spell(True)
    if r < 0.8:
        return g.dec_float()
    if r < 0.9:
        return str(g.ints())
    if r < 0.95:
        return g.r.choice(["foo", "", "x1", "one", "1,5", "--2"])  # not numeric elements: they do not count
    return None


def g_agree(g: G) -> dict[str, Any]:
    flt = g.one(AGREE)
    args: list[Any] = ["k"]
    form = "key~lambda"
    if flt in SELECTORS:
        left = g.hashes(G.mixed)
        if g.p(0.5):
            form = "keyval~lambdaeq"
            v = g.one(SELECT_VALUES)
            args.append("a" if v is None else v)
    elif flt == "sum":
        left = g.hashes(_summand)
    elif flt.startswith("sort"):
        values, missing = _sort_values(g, flt)
        left = g.hashes(values, missing=missing)
    else:
        left = g.hashes(G.mixed)
    return case("agree", flt, form, left, args)


def g_map(g: G) -> dict[str, Any]:
    def item(h: G) -> Any:
        it: dict[str, Any] = {}
        if h.p(0.75):
            it["k"] = h.scalar()
        if h.p(0.3):
            it["t"] = "x"
        return it
    return case("map", "map", g.one(("key", "lambda")), g.nested(item), ["k"])


def g_sum(g: G) -> dict[str, Any]:
    form = g.one(("nokey", "key", "lambda"))
    if form == "nokey":
        return case("sum", "sum", form, g.nested(lambda h: {"k": h.int(-9, 9)} if h.p(0.1) else _summand(h)), [])
    return case("sum", "sum", form, g.hashes(_summand), ["k"])


def g_first_last(g: G) -> dict[str, Any]:
    r = g.r.random()
    left: Any
    if r < 0.55:
        left = g.nested(G.item)
    elif r < 0.7:
        left = g.lst(G.item, 6)
    elif r < 0.8:
        left = g.t_small()
    elif r < 0.9:
        left = g.ints()
    else:
        left = {k: g.scalar() for k in g.r.sample(["a", "b", "c"], g.int(0, 3))}
    return case("first-last", g.one(("first", "last")), g.form2(), left, [])


def g_slice(g: G) -> dict[str, Any]:
    r = g.r.random()
    left: Any = g.t_any() if r < 0.5 else g.lst(G.item, 7) if r < 0.8 else g.nested(G.scalar)
    n = len(left)
    args: list[Any] = [g.one([2**62, 2**63, 2**70]) if g.p(0.1) else g.int(-n, n + 2)]
    r2 = g.int(0, 5)
    if r2 > 0:
        args.append(g.one([0, 1, 2**63, 2**70]) if g.p(0.15) else g.int(0, n + 2))
    if r2 == 5:
        args = [str(a) for a in args]
    return case("slice", "slice", g.form2(), left, args)


def g_concat(g: G) -> dict[str, Any]:
    r = g.r.random()
    left: Any = g.t_small() if r < 0.2 else g.one([True, False, 0, 7, 1.5, 2**64]) if r < 0.28 else g.nested(G.item)
    right = g.nested(G.scalar) if g.p(0.3) else g.lst(G.item, 5)
    return case("concat", "concat", g.form2(), left, [right])


def g_split_join(g: G) -> dict[str, Any]:
    r = g.int(0, 9)
    if r < 5:
        s = g.t_any() if g.p(0.3) else g.text(WORD_ALPHA + SEP_ALPHA, 14)
        if s and g.p(0.5):
            i = g.int(0, len(s) - 1)
            sep = s[i:g.int(i, min(len(s), i + 3))]
        else:
            sep = g.text(SEP_ALPHA, 2)
        return case("split-join", "split", g.form2(), s, [sep])
    if r < 8:
        parts = g.lst(lambda h: h.text(WORD_ALPHA, 4), 6)
        return case("split-join", "join", g.form2(), parts, [g.text(SEP_ALPHA, 2, 1)])
    parts = g.lst(G.scalar, 6)
    return case("split-join", "join", g.form2(), parts, [g.t_small()] if g.p(0.75) else [])


# ---- codec laws


def _t_url(g: G) -> str:
    return g.utext() if g.p(0.35) else g.text("ab Z09-._~+%/?#[]@!$&'()*,;=:é日\U0001f600\n", 12)


def g_url(g: G) -> dict[str, Any]:
    if g.p(0.6):
        return case("url", "url_encode", g.form2(), _t_url(g), [])
    return case("url", "url_decode", g.form2(), _t_url(g), [g.int(0, 7)])


def g_b64(g: G) -> dict[str, Any]:
    r = g.r.random()
    s = g.utext(30) if r < 0.6 else g.text("?>~ÿ\U0001f600a", 9) if r < 0.8 else g.utext(60, min(g.size, 3))
    return case("b64", g.one(("base64_encode", "base64_url_safe_encode")), g.form2(), s, [])


def g_escape(g: G) -> dict[str, Any]:
    r = g.r.random()
    s = g.text("ab<>&'\";#xamplt gquo0123é", 14) if r < 0.4 else g.utext() if r < 0.6 else "".join(
        g.one(ENTITIES) for _ in range(g.n(6)))
    return case("escape", g.one(("escape", "escape_once")), g.form2(), s, [])


# ---- string definitions


def g_case_strip(g: G) -> dict[str, Any]:
    flt = g.one(("upcase", "downcase", "capitalize", "strip", "lstrip", "rstrip"))
    if flt in ("strip", "lstrip", "rstrip"):
        s = g.text(ASCII_WS4, 3) + g.t_any() + g.text(ASCII_WS4, 3)
    else:
        s = g.t_any() if g.p(0.5) else g.text("abcXYZ éÉßσΣǆİı 1", 8)
    return case("str-def", flt, g.form2(), s, [])


def g_affix(g: G) -> dict[str, Any]:
    r = g.r.random()
    arg: Any
    if r < 0.6:
        arg = g.t_any()
    elif r < 0.72:
        arg = g.ints()
    elif r < 0.82:
        arg = g.dec_float()
    elif r < 0.92:
        arg = g.one([True, False, None])
    else:
        arg = g.lst(lambda h: h.int(-30, 30) if h.p(0.5) else h.t_small(), 3)
    left: Any = g.scalar() if g.p(0.2) else g.t_any()
    return case("str-def", g.one(("append", "prepend")), g.form2(), left, [arg])


def g_replace(g: G) -> dict[str, Any]:
    flt = g.one(("replace", "replace_first", "replace_last", "remove", "remove_first", "remove_last"))
    s = g.t_any() if g.p(0.3) else g.text("ab ,é", 12)
    r = g.int(0, 9)
    if r < 6 and s:
        i = g.int(0, len(s) - 1)
        needle = s[i:g.int(i + 1, min(len(s), i + 3))]
    elif r == 9:
        needle = ""
    else:
        needle = g.text("ab ,é", 2, 1)
    args: list[Any] = [needle]
    if flt.startswith("replace") and (flt == "replace_last" or g.p(0.8)):
        args.append(g.text("ab#", 3) if g.p(0.6) else g.t_small())
    return case("str-def", flt, g.form2(), s, args)


def _end(g: G) -> str:
    return g.one(ENDS) if g.p(0.7) else g.t_small()


def g_truncate(g: G) -> dict[str, Any]:
    args: list[Any] = []
    r = g.int(0, 9)
    if g.p(0.5):
        s = g.utext(24) if g.p(0.5) else g.text("ab é日\U0001f600", 24)
        if r > 0:
            args.append(g.int(0, 26) if g.p(0.5) else g.int(max(0, len(s) - 2), len(s) + 2))
            if r > 4:
                args.append(_end(g))
        elif g.p(0.5):
            s = (s * 8)[:60]
        return case("str-def", "truncate", g.form2(), s, args)
    words = g.lst(lambda h: h.text("abAé日.", 4, 1) if h.p(0.6) else _nonspace(h), 7)
    if g.p(0.5):
        s = " ".join(words)
    else:
        s = g.text(ASCII_WS4, 3)
        for w in words:
            s += w + g.text(ASCII_WS4, 3, 1)
        if g.p(0.5):
            s = s.rstrip(ASCII_WS4)
    if r > 0:
        rr = g.r.random()
        args.append(g.int(-1, 9) if rr < 0.45 else g.int(max(0, len(words) - 1), len(words) + 1) if rr < 0.9
                    else g.one([2**31 - 1, 2**40]))
        if r > 4:
            args.append(_end(g))
    elif g.p(0.5):
        s = " ".join((words or ["w"]) * 6)
    return case("str-def", "truncatewords", g.form2(), s, args)


def _nonspace(g: G) -> str:
    out = ""
    while len(out) < g.int(1, 4):
        ch = g.uchar()
        if not ch.isspace() and unicodedata.category(ch) not in ("Zs", "Zl", "Zp", "Cc"):
            out += ch
    return out


# ---- arithmetic


def g_int_arith(g: G) -> dict[str, Any]:
    law = g.one(("int-arith", "int-arith", "plus-minus", "divmod"))
    a, b = g.int_like(), g.int_like()
    flt = g.one(("plus", "minus", "times", "divided_by", "modulo")) if law == "int-arith" else (
        "plus" if law == "plus-minus" else "divided_by")
    if flt in ("divided_by", "modulo") and int(b) == 0:
        b = 7
    return case(law, flt, g.form2(), a, [b])


def g_dec_arith(g: G) -> dict[str, Any]:
    a, b = g.num_any(), g.float_like()
    if g.p(0.5):
        a, b = b, a
    return case("dec-arith", g.one(("plus", "minus", "times", "divided_by")), g.form2(), a, [b])


def _pos_num(g: G) -> Any:
    r = g.r.random()
    if r < 0.2:
        v: Any = g.int(1, 10**6)
    elif r < 0.3:
        v = g.int(1, 2**70)
    elif r < 0.55:
        v = g.spell(True)
    elif r < 0.8:
        v = g.dec_float()
    else:
        v = 10 ** g.r.uniform(-6, 9)
    return v.lstrip("-") if isinstance(v, str) else abs(v)


def g_float_mod(g: G) -> dict[str, Any]:
    a, b = _pos_num(g), _pos_num(g)
    if g.p(0.5):
        neg = lambda v: ("-" + v) if isinstance(v, str) else -v  # noqa: E731
        a, b = neg(a), neg(b)
    return case("float-mod", "modulo", g.form2(), a, [b])


def g_unary(g: G) -> dict[str, Any]:
    return case("unary", g.one(("abs", "ceil", "floor")), g.form2(), g.num_any(), [])


def g_minmax(g: G) -> dict[str, Any]:
    a = g.num_any()
    return case("minmax", g.one(("at_least", "at_most")), g.form2(), a, [a if g.p(0.1) else g.num_any()])


def g_round(g: G) -> dict[str, Any]:
    r = g.r.random()
    left = g.dec_float() if r < 0.4 else g.spell() if r < 0.6 else g.mid_float() if r < 0.8 else g.int_like()
    k = g.int(0, 9)
    args: list[Any] = []
    if k > 2:
        d = g.int(0, 8)
        if M.num_kind(left) == "float" and g.p(0.08):
            d = g.int(-3, -1)
        args.append(str(d) if k == 9 else d)
    return case("round", "round", g.form2(), left, args)


# filter -> (kind of left value, plain arguments, positions of the parameters documented as <string>)
STRARG: dict[str, tuple[str, list[Any], list[int]]] = {
    "append": ("str", ["x"], [0]), "prepend": ("str", ["x"], [0]),
    "remove": ("str", ["a"], [0]), "remove_first": ("str", ["a"], [0]), "remove_last": ("str", ["a"], [0]),
    "replace": ("str", ["a", "b"], [0, 1]), "replace_first": ("str", ["a", "b"], [0, 1]),
    "replace_last": ("str", ["a", "b"], [0, 1]), "split": ("str", [" "], [0]), "join": ("list", [", "], [0]),
    "truncate": ("str", [3, "~"], [1]), "truncatewords": ("str", [1, "~"], [1]),
}


def g_strarg(g: G) -> dict[str, Any]:
    """A <string> parameter receives a value that is not a string: it counts as the text that value renders as."""
    flt = g.one(sorted(STRARG))
    kind, plain, where = STRARG[flt]
    left: Any = g.lst(lambda h: h.t_small(), 4) if kind == "list" else (g.t_any() + " a1 true 2.5 b")
    args = list(plain)
    pos = g.one(where)
    r = g.r.random()
    if r < 0.35:
        args[pos] = g.one([None, True, False])
    elif r < 0.6:
        args[pos] = g.int(-3, 30)
    elif r < 0.8:
        args[pos] = g.dec_float()
    else:
        args[pos] = g.lst(lambda h: h.int(0, 9) if h.p(0.5) else h.t_small(), 3)
    c = case("strarg", flt, g.form2(), left, args)
    c["pos"] = pos
    return c


def g_hasidx(g: G) -> dict[str, Any]:
    """`has` against `find_index` / `find` on arrays of anything: whatever the three mean for scalars,
    they must tell the same story (has <=> an index was found)."""
    n = g.r.randint(0, 5)
    left = [g.one(MIXED) if g.p(0.8) else {"k": g.one(MIXED)} for _ in range(n)]
    key = g.one([0, 1, "", "a", "k", "0", False, True, 2])
    args = [key] if g.p(0.6) else [key, g.one(MIXED)]
    return case("hasidx", "has", "scalar", left, args)


GENERATORS = [
    g_strarg, g_hasidx,
    g_sort, g_sort, g_reverse, g_uniq, g_compact, g_select, g_select, g_agree, g_agree, g_map, g_sum, g_first_last,
    g_slice, g_concat, g_split_join, g_split_join, g_url, g_b64, g_escape, g_case_strip, g_case_strip, g_affix,
    g_replace, g_replace, g_truncate, g_truncate, g_int_arith, g_int_arith, g_dec_arith, g_dec_arith, g_float_mod,
    g_unary, g_minmax, g_round,
]


SIZES = (0, 1, 2, 2, 3, 3, 4, 4, 5, 5, 6, 6, 7, 8, 8, 8)


def build(raw: bytes) -> dict[str, Any]:
    """8 Hypothesis-drawn bytes -> case: size, generator, PRNG seed (in shrink order)."""
    return GENERATORS[raw[1] % len(GENERATORS)](G(int.from_bytes(raw[2:], "big"), SIZES[raw[0] % 16]))


SELECTORS = ("where", "reject", "find", "find_index", "has")

# minimal input per known-defect shape (also the deterministic part of every run)
WITNESSES = {
    "truncate-short-num": case("str-def", "truncate", "tmpl", "hello", [2]),
    "truncate-len-eq-num": case("str-def", "truncate", "tmpl", "hello", [5]),
    "truncatewords-fewer-ws": case("str-def", "truncatewords", "tmpl", "a  b", [5]),
    "replace-last-at-start": case("str-def", "replace_last", "tmpl", "abc", ["a", "x"]),
    "compact-key-missing": case("compact", "compact", "key", [{"k": "x"}, {}], ["k"]),
    "bool-int-eq": case("select", "where", "keyval", [{"k": True}, {"k": 1}], ["k", 1]),
    "where-zero-falsy": case("select", "where", "key", [{"k": 0}], ["k"]),
    "append-nonstring-arg": case("str-def", "append", "tmpl", "x", [True]),
    "reverse-string": case("reverse", "reverse", "tmpl", "abc", []),
}


# --------------------------------------------------------------------------- known-defect shapes

FLAGS = (
    "truncate-short-num", "truncate-len-eq-num", "truncatewords-fewer-ws", "replace-last-at-start",
    "compact-key-missing", "bool-int-eq", "where-zero-falsy", "append-nonstring-arg", "reverse-string",
)


def _zero_num(v: Any) -> bool:
    return M.is_num(v) and v == 0


def defect_shapes(c: dict[str, Any]) -> set[str]:  # noqa: PLR0912
    """Which known-defect input shapes this case has (pure function of the case)."""
    out: set[str] = set()
    law, flt, form, left, args = c["law"], c["filter"], c["form"], c["left"], c["args"]
    if law in ("strarg", "hasidx"):
        return out  # a relation between two calls of the filter, not a definition of its result
    if flt == "truncate":
        num = args[0] if args else 50
        end = args[1] if len(args) > 1 else "..."
        if len(left) >= num and num < len(end):
            out.add("truncate-short-num")
        elif len(left) == num:
            out.add("truncate-len-eq-num")
    elif flt == "truncatewords":
        num = max(args[0] if args else 15, 1)
        words = M.words_of(left)
        if len(words) < num and left != " ".join(words) and num < 2**31 - 1:
            out.add("truncatewords-fewer-ws")
    elif flt in ("replace_last", "remove_last"):
        if args[0] != "" and left.rfind(args[0]) == 0:
            out.add("replace-last-at-start")
    elif flt == "append":
        if args[0] is None or isinstance(args[0], (bool, list)):
            out.add("append-nonstring-arg")
    elif law == "reverse" and isinstance(left, str):
        out.add("reverse-string")
    keyish = form in ("key", "keyval", "key~lambda", "keyval~lambdaeq")
    if flt == "compact" and form in ("key", "key~lambda") and any(not M.has_prop(i, "k") for i in left):
        out.add("compact-key-missing")
    if law in ("select", "find") or (law == "agree" and flt in SELECTORS):
        props = [M.prop(i, "k") for i in left]
        if keyish and (len(args) == 1 or args[1] is None) and any(_zero_num(p) for p in props):
            out.add("where-zero-falsy")
        if keyish and len(args) == 2 and any(M.py_conflates(p, args[1]) for p in props):
            out.add("bool-int-eq")
    if flt == "uniq" and law == "uniq":
        keys = left if form == "nokey" else [M.prop(i, "k") for i in left if M.has_prop(i, "k")]
        scal = [k for k in keys if not isinstance(k, (dict, list))]
        if any(M.py_conflates(a, b) for a in scal for b in scal):
            out.add("bool-int-eq")
    return out


# --------------------------------------------------------------------------- the property


class C19(Prop):
    id = "C19"
    title = "Built-in filters obey their defining laws"
    technique = "property-based testing (Hypothesis): algebraic laws + independent reference definitions per filter"
    rule = (
        "one case = one law x one filter x one application form (template level through `| json`, string-key and "
        "lambda forms for the sequence filters, direct env.filters[name] call for plain-function filters) with "
        "generated arguments of the documented types; non-trivial when the array has >= 2 elements and a "
        "duplicate or missing key, the string contains the separator / needle / an escapable or strippable "
        "character (or is actually truncated), or a number lies beyond 2**53 or carries >= 3 decimals; distinct "
        "by SHA-1 of the case"
    )
    assumptions = [
        "only docs/filter_reference.md + the CTS golden cases are demanded; where they are silent the generator is "
        "narrowed: negative slice lengths and starts before -len, sort/sort_natural with nil values or numeric "
        "keys plus missing keys, property values starting with U+10FFFF, uniq with both a missing and a nil "
        "property, non-hash items for key-based filters, nested arrays outside concat/map/sum/first/last/slice, "
        "bool summands, empty-needle replace on an empty string",
        "sort orders strings by code point (doc example + CTS 'sort a string'); sort_numeric compares the tuples "
        "of non-negative integers found in the string form (doc example), digit-less and missing items last; "
        "stability is demanded for all three sorts (DESIGN law; docs only say 'probably in the same order')",
        "whitespace for strip/lstrip/rstrip/truncatewords is ASCII whitespace; when the character left at a "
        "stripped edge is whitespace only by Unicode's definition the clause is skipped",
        "upcase/downcase/capitalize are demanded per character (c.upper()/c.lower()); strings whose case "
        "mapping is context or title-case dependent (final sigma, digraph title case) are skipped",
        "truncatewords with a word count equal to num may keep the ellipsis (literal reading of 'fewer than') or "
        "return the input unchanged (reference implementation): both accepted; truncate with len == num and "
        "truncate with num < len(ellipsis) are demanded as 'unchanged' and 'ellipsis only' (flags "
        "truncate-len-eq-num / truncate-short-num)",
        "plus/minus/times/sum/float modulo must return the float nearest to the exact decimal result computed on "
        "the decimal spellings (repr of a float, text of a numeric string) whenever that result (and every "
        "partial sum) has <= 28 significant digits, else agree to 1e-15 relative; divided_by with a float operand "
        "is shown by the docs as float division and is compared at 1e-15 relative; operands/results outside "
        "1e-290..1e290 are skipped; float modulo only for same-sign operands with |a/b| < 1e15; round only "
        ">= 4 ulp away from a tie; numeric strings carry <= 15 significant digits when not integers",
        "Liquid equality for the where/reject/find/has/uniq definitions is the language's `==` on scalars "
        "(true != 1, 1 == 1.0)",
        "append/prepend: 'coerced to a string' means the text the value renders as ({{ true }} -> true, nil -> '', "
        "arrays concatenated), which is what prepend does; escape is only required to satisfy "
        "html.unescape(escape(s)) = s and to leave no raw < > & (the doc example spells ' as &#39;, the filter "
        "emits &#x27;: not demanded); url_encode must leave no RFC 3986 reserved character or space unescaped",
        "the generator index, size and PRNG seed of a case are one 8-byte Hypothesis draw; the case content is "
        "produced by a private PRNG from that draw (15x cheaper than drawing each element, uniform over laws)",
    ]
    batch = 400

    def n_random(self, tier: str) -> int:
        return 120000 if tier == "quick" else 6000000

    def budget_s(self, tier: str) -> float:
        return 240 if tier == "quick" else 3000

    def strategy(self, tier: str, disabled: frozenset[str]):
        return st.binary(min_size=8, max_size=8).map(build)

    def enumerate(self, tier: str, disabled: frozenset[str]):
        for flag in FLAGS:
            yield WITNESSES[flag]

    def sample(self, case: Any) -> Any:
        return {"law": case["law"], "filter": case["filter"], "form": case["form"],
                "left": canon(case["left"])[:200], "args": canon(case["args"])[:120]}

    # ------------------------------------------------------------------ dispatch

    def check(self, case: Any, disabled: frozenset[str] = frozenset()) -> Result:
        res = Result()
        hit = defect_shapes(case) & disabled
        if hit:
            res.excluded.extend(sorted(hit))
            res.evaluations = 0
            return res
        law = case["law"]
        run = Run(shopify=law == "b64")
        res.labels.append(f"{law}:{case['filter']}")
        res.labels.append(f"form:{case['form']}")
        getattr(self, "_law_" + law.replace("-", "_"))(case, res, run)
        res.evaluations = max(run.evals, 1)
        return res

    @staticmethod
    def _bad(res: Result, c: dict[str, Any], clause: str, detail: str, law: str | None = None,
             flt: str | None = None, form: str | None = None) -> None:
        bucket = f"{law or c['law']}:{flt or c['filter']}:{form or c['form']}"
        shapes = sorted(defect_shapes(c))
        res.fail(clause, bucket, f"{clause}: {detail} | left={canon(c['left'])[:500]} args={canon(c['args'])[:300]}"
                 + (f" | known-defect shapes: {shapes}" if shapes else ""))

    def _expect(self, res: Result, c: dict[str, Any], clause: str, out: tuple[str, Any], want: Any, **kw: Any) -> bool:
        if out[0] != "ok":
            self._bad(res, c, clause, f"expected {canon(want)[:300]}, got {out[0]} {out[1]}", **kw)
            return False
        if not same(out[1], want):
            self._bad(res, c, clause, f"expected {canon(want)[:400]}, got {canon(out[1])[:400]}", **kw)
            return False
        return True

    # ------------------------------------------------------------------ sequences

    @staticmethod
    def _sort_key(flt: str, item: Any, form: str) -> Any:
        if form == "nokey":
            missing, v = False, item
        else:
            missing, v = not M.has_prop(item, "k"), M.prop(item, "k")
        if missing:
            return (1,)
        if flt == "sort":
            return (0, v)
        if flt == "sort_natural":
            return (0, str(v).lower())
        if M.is_num(v):
            return (0, (v,))
        if isinstance(v, bool) or v is None:
            return (1,)  # 'true' / 'false' / nil have no digits: with the digit-less items, last
        found = tuple(int(d) for d in re.findall(r"\d+", v if isinstance(v, str) else M.liquid_str(v)))
        return (0, found) if found else (1,)

    def _law_sort(self, c: dict[str, Any], res: Result, run: Run) -> None:
        flt, form, left = c["filter"], c["form"], c["left"]
        keys = [self._sort_key(flt, i, form) for i in left]
        res.nontrivial = len(left) >= 2 and (len({canon(k) for k in keys}) < len(keys) or (1,) in keys)
        out = seq_apply(run, flt, form, "k", left)
        if out[0] != "ok" or not isinstance(out[1], list):
            self._bad(res, c, "result", f"got {out}")
            return
        got = out[1]
        if sorted(canon(i) for i in got) != sorted(canon(i) for i in left):
            self._bad(res, c, "permutation", f"result {canon(got)[:400]} is not a permutation of the input")
            return
        gk = [self._sort_key(flt, i, form) for i in got]
        if any(gk[i] > gk[i + 1] for i in range(len(gk) - 1)):
            self._bad(res, c, "ordered", f"result {canon(got)[:400]} is not ascending under the documented key")
            return
        want = [i for _, i in sorted(zip(keys, range(len(left)), strict=True))]
        if not same(got, [left[i] for i in want]):
            self._bad(res, c, "stable", f"equal keys reordered: {canon(got)[:400]}")

    def _law_reverse(self, c: dict[str, Any], res: Result, run: Run) -> None:
        form, left = c["form"], c["left"]
        if isinstance(left, str):
            res.nontrivial = len(left) >= 2 and left != left[::-1]
            out = run.render("{{ x | reverse }}", {"x": left})
            if out != ("ok", left):
                self._bad(res, c, "string-unchanged", f"docs: a string is returned unchanged; got {out}")
            return
        res.nontrivial = len(left) >= 2 and len({canon(i) for i in left}) < len(left)
        self._expect(res, c, "definition", run.apply(form, "reverse", left, []), left[::-1])
        self._expect(res, c, "involution", run.chain(form, left, [("reverse", []), ("reverse", [])]), left)

    @staticmethod
    def _uniq_model(left: list[Any], form: str) -> list[Any]:
        kept: list[Any] = []
        keys: list[Any] = []
        for item in left:
            if form == "nokey":
                k = ("V", item)
            else:
                k = ("V", M.prop(item, "k")) if M.has_prop(item, "k") else ("M",)
            dup = False
            for o in keys:
                if o[0] != k[0]:
                    continue
                if k[0] == "M":
                    dup = True
                elif isinstance(k[1], (dict, list)) or isinstance(o[1], (dict, list)):
                    dup = canon(k[1]) == canon(o[1])
                else:
                    dup = M.leq(k[1], o[1])
                if dup:
                    break
            if not dup:
                keys.append(k)
                kept.append(item)
        return kept

    def _law_uniq(self, c: dict[str, Any], res: Result, run: Run) -> None:
        form, left = c["form"], c["left"]
        want = self._uniq_model(left, form)
        res.nontrivial = len(left) >= 2 and (len(want) < len(left) or any(not M.has_prop(i, "k") for i in left if form != "nokey"))
        out = seq_apply(run, "uniq", form, "k", left)
        undetermined = form != "nokey" and any(not M.has_prop(i, "k") for i in left) and any(
            M.has_prop(i, "k") and i["k"] is None for i in left)
        if form == "nokey" and any(isinstance(i, dict) for i in left):
            # hashes compare structurally; nested true/1 is not pinned by the docs
            undetermined = any(M.py_conflates(a, b) for i in left if isinstance(i, dict) for a in i.values()
                               for j in left if isinstance(j, dict) for b in j.values())
        if undetermined:
            res.labels.append("uniq:undetermined-equality")
        elif not self._expect(res, c, "first-occurrences", out, want):
            return
        if out[0] == "ok":
            again = seq_apply(run, "uniq", form, "k", out[1])
            self._expect(res, c, "idempotent", again, out[1])

    def _law_compact(self, c: dict[str, Any], res: Result, run: Run) -> None:
        form, left = c["form"], c["left"]
        if form == "nokey":
            want = [i for i in left if i is not None]
        else:
            want = [i for i in left if M.prop(i, "k") is not None]
        res.nontrivial = len(left) >= 2 and len(want) < len(left)
        self._expect(res, c, "removes-nil-in-order", seq_apply(run, "compact", form, "k", left), want)

    @staticmethod
    def _pred(c: dict[str, Any]) -> Any:
        args = c["args"]
        if len(args) == 1 or args[1] is None:
            return lambda item: M.truthy(M.prop(item, "k"))
        return lambda item: M.leq(M.prop(item, "k"), args[1])

    def _nontrivial_hashes(self, left: list[Any]) -> bool:
        props = [canon(M.prop(i, "k")) for i in left if M.has_prop(i, "k")]
        return len(left) >= 2 and (len(set(props)) < len(props) or len(props) < len(left))

    def _law_select(self, c: dict[str, Any], res: Result, run: Run) -> None:
        form, left, args = c["form"], c["left"], c["args"]
        value = args[1] if len(args) > 1 else None
        pred = self._pred(c)
        res.nontrivial = self._nontrivial_hashes(left)
        w = seq_apply(run, "where", form, "k", left, value)
        r = seq_apply(run, "reject", form, "k", left, value)
        if w[0] == "ok" and r[0] == "ok" and isinstance(w[1], list) and isinstance(r[1], list):
            # partition preserving order: walking the input consumes exactly one of the two heads
            wi = ri = 0
            ok = True
            for item in left:
                ci = canon(item)
                in_w = wi < len(w[1]) and canon(w[1][wi]) == ci
                in_r = ri < len(r[1]) and canon(r[1][ri]) == ci
                if in_w and in_r:
                    # identical items on both sides: decide by the definition to stay deterministic
                    in_w, in_r = (True, False) if pred(item) else (False, True)
                if in_w:
                    wi += 1
                elif in_r:
                    ri += 1
                else:
                    ok = False
                    break
            if not ok or wi != len(w[1]) or ri != len(r[1]):
                self._bad(res, c, "partition", f"where={canon(w[1])[:300]} reject={canon(r[1])[:300]} do not partition the input in order",
                          law="partition", flt="where-reject")
        self._expect(res, c, "where-definition", w, [i for i in left if pred(i)], law="select-def", flt="where")
        self._expect(res, c, "reject-definition", r, [i for i in left if not pred(i)], law="select-def", flt="reject")

    def _law_find(self, c: dict[str, Any], res: Result, run: Run) -> None:
        form, left, args = c["form"], c["left"], c["args"]
        value = args[1] if len(args) > 1 else None
        pred = self._pred(c)
        res.nontrivial = self._nontrivial_hashes(left)
        hits = [n for n, i in enumerate(left) if pred(i)]
        w = seq_apply(run, "where", form, "k", left, value)
        f = seq_apply(run, "find", form, "k", left, value)
        fi = seq_apply(run, "find_index", form, "k", left, value)
        h = seq_apply(run, "has", form, "k", left, value)
        if w[0] == "ok" and isinstance(w[1], list):
            self._expect(res, c, "find = first of where", f, w[1][0] if w[1] else None, law="find-first-of-where", flt="find")
        self._expect(res, c, "find definition", f, left[hits[0]] if hits else None, law="find-def", flt="find")
        self._expect(res, c, "find_index definition", fi, hits[0] if hits else None, law="find-def", flt="find_index")
        self._expect(res, c, "has definition", h, bool(hits), law="find-def", flt="has")
        if fi[0] == "ok" and f[0] == "ok":
            idx = fi[1]
            if idx is None:
                if f[1] is not None:
                    self._bad(res, c, "find_index = index of find", f"find={canon(f[1])} but find_index=nil",
                              law="find-index", flt="find_index")
            elif not (isinstance(idx, int) and 0 <= idx < len(left) and same(left[idx], f[1])):
                self._bad(res, c, "find_index = index of find", f"find={canon(f[1])} find_index={idx}",
                          law="find-index", flt="find_index")
            if h[0] == "ok" and h[1] is not (idx is not None):
                self._bad(res, c, "has <=> find_index != nil", f"has={h[1]} find_index={idx}", law="has-iff-index", flt="has")

    def _law_agree(self, c: dict[str, Any], res: Result, run: Run) -> None:
        flt, form, left, args = c["filter"], c["form"], c["left"], c["args"]
        value = args[1] if len(args) > 1 else None
        res.nontrivial = self._nontrivial_hashes(left)
        kf, lf = form.split("~")
        a = seq_apply(run, flt, kf, "k", left, value)
        b = seq_apply(run, flt, lf, "k", left, value)
        if a[0] != b[0] or (a[0] == "ok" and not same(a[1], b[1])):
            self._bad(res, c, "string-key form = lambda form", f"{kf}: {a[0]} {canon(a[1])[:300]} / {lf}: {b[0]} {canon(b[1])[:300]}")

    def _law_map(self, c: dict[str, Any], res: Result, run: Run) -> None:
        form, left = c["form"], c["left"]
        flat = M.flatten(left)
        res.nontrivial = len(flat) >= 2 and any(not M.has_prop(i, "k") for i in flat)
        self._expect(res, c, "map definition", seq_apply(run, "map", form, "k", left), [M.prop(i, "k") for i in flat])

    def _law_sum(self, c: dict[str, Any], res: Result, run: Run) -> None:
        form, left = c["form"], c["left"]
        flat = M.flatten(left)
        vals = flat if form == "nokey" else [M.prop(i, "k") for i in flat]
        total = Decimal(0)
        all_int = True
        digits = 0
        for v in vals:
            if v is None or isinstance(v, dict):
                continue
            if isinstance(v, str) and v in ("foo", "", "x1", "one", "1,5", "--2"):
                continue  # "the sum of all numeric elements": a string that is no number is not one of them
            if M.num_kind(v) == "float":
                all_int = False
            total, d = M.dec_op("plus", total, M.spelling(v))
            digits = max(digits, d)
        res.nontrivial = len(vals) >= 2 and (abs(total) > 2**53 or not all_int)
        out = seq_apply(run, "sum", form, "k", left)
        if out[0] != "ok":
            self._bad(res, c, "sum definition", f"expected {total}, got {out}")
        elif all_int:
            if not (isinstance(out[1], int) and not isinstance(out[1], bool) and out[1] == total):
                self._bad(res, c, "exact integer sum", f"expected {total}, got {out[1]!r}")
        else:
            self._float_result(res, c, "decimal sum", out, total, digits)

    def _law_first_last(self, c: dict[str, Any], res: Result, run: Run) -> None:
        flt, form, left = c["filter"], c["form"], c["left"]
        want: Any = None
        if isinstance(left, list) and left:
            want = left[0] if flt == "first" else left[-1]
        elif isinstance(left, dict) and left and flt == "first":
            k = next(iter(left))
            want = [k, left[k]]
        res.nontrivial = isinstance(left, list) and len(left) >= 2
        self._expect(res, c, "indexing definition", run.apply(form, flt, left, []), want)

    def _law_slice(self, c: dict[str, Any], res: Result, run: Run) -> None:
        form, left, args = c["form"], c["left"], c["args"]
        start = int(args[0])
        length = int(args[1]) if len(args) > 1 else 1
        n = len(left)
        s = start if start >= 0 else n + start
        want = left[s:s + length]
        res.nontrivial = n >= 2 and 0 < len(want) < n
        self._expect(res, c, "indexing definition", run.apply(form, "slice", left, args), want)

    def _law_concat(self, c: dict[str, Any], res: Result, run: Run) -> None:
        form, left, args = c["form"], c["left"], c["args"]
        head = list(left) if isinstance(left, str) else M.flatten(left) if isinstance(left, list) else [left]
        res.nontrivial = len(head) >= 1 and len(args[0]) >= 1 and (
            not isinstance(left, list) or len(head) != len(left) or head == args[0])
        self._expect(res, c, "concatenation definition", run.apply(form, "concat", left, args), head + args[0])

    def _law_split_join(self, c: dict[str, Any], res: Result, run: Run) -> None:
        flt, form, left, args = c["filter"], c["form"], c["left"], c["args"]
        if flt == "split":
            sep = args[0]
            res.nontrivial = sep != "" and sep in left and left != sep
            self._expect(res, c, "split definition", run.apply(form, "split", left, [sep]), M.split_def(left, sep))
            if sep != "" and left not in ("", sep):
                self._expect(res, c, "join . split = id", run.chain(form, left, [("split", [sep]), ("join", [sep])]), left,
                             law="split-join-inverse")
            return
        sep = args[0] if args else " "
        joined = sep.join(M.liquid_str(p) for p in left)
        res.nontrivial = len(left) >= 2
        self._expect(res, c, "join definition", run.apply(form, "join", left, args), joined, law="join-def")
        strings = all(isinstance(p, str) for p in left)
        if args and strings and left and sep and joined not in ("", sep) and not any(ch in p for p in left for ch in sep):
            self._expect(res, c, "split . join = id", run.chain(form, left, [("join", [sep]), ("split", [sep])]), left,
                         law="split-join-inverse")

    # ------------------------------------------------------------------ codecs

    def _law_url(self, c: dict[str, Any], res: Result, run: Run) -> None:
        flt, form, left = c["filter"], c["form"], c["left"]
        res.nontrivial = any(ch in M.RESERVED or ch in " +%" or ord(ch) > 127 for ch in left)
        if flt == "url_decode":
            spelled = M.pct_encode(left, c["args"][0])
            self._expect(res, c, "decodes any valid %-encoding", run.apply(form, "url_decode", spelled, []), left)
            return
        enc = run.apply(form, "url_encode", left, [])
        if enc[0] != "ok" or not isinstance(enc[1], str):
            self._bad(res, c, "result", f"got {enc}")
            return
        e = enc[1]
        if any(ch in M.RESERVED or ch == " " for ch in e) or re.search(r"%(?![0-9A-Fa-f]{2})", e):
            self._bad(res, c, "reserved characters are %-escaped, space is +", f"got {e!r}")
        self._expect(res, c, "url_decode . url_encode = id", run.chain(form, left, [("url_encode", []), ("url_decode", [])]), left)

    def _law_b64(self, c: dict[str, Any], res: Result, run: Run) -> None:
        flt, form, left = c["filter"], c["form"], c["left"]
        url = flt == "base64_url_safe_encode"
        dec = "base64_url_safe_decode" if url else "base64_decode"
        res.nontrivial = len(left.encode()) % 3 != 0 or any(ord(ch) > 127 for ch in left)
        want = M.b64(left.encode("utf-8"), M.B64_URL if url else M.B64_STD)
        self._expect(res, c, "base64 definition", run.apply(form, flt, left, []), want)
        self._expect(res, c, "decode . encode = id", run.chain(form, left, [(flt, []), (dec, [])]), left)

    def _law_escape(self, c: dict[str, Any], res: Result, run: Run) -> None:
        flt, form, left = c["filter"], c["form"], c["left"]
        res.nontrivial = any(ch in left for ch in "<>&'\"")
        esc = run.apply(form, "escape", left, [])
        if esc[0] != "ok" or not isinstance(esc[1], str):
            self._bad(res, c, "result", f"got {esc}", flt="escape")
            return
        if flt == "escape":
            if html.unescape(esc[1]) != left:
                self._bad(res, c, "html.unescape(escape(s)) = s", f"escape gave {esc[1]!r}")
            if "<" in esc[1] or ">" in esc[1] or re.search(r"&(?!#?\w+;)", esc[1]):
                self._bad(res, c, "&, < and > are converted", f"escape gave {esc[1]!r}")
            return
        once = run.apply(form, "escape_once", left, [])
        if once[0] != "ok":
            self._bad(res, c, "result", f"got {once}")
            return
        self._expect(res, c, "escape_once idempotent", run.apply(form, "escape_once", once[1], []), once[1])
        self._expect(res, c, "escape_once . escape = escape", run.apply(form, "escape_once", esc[1], []), esc[1])

    # ------------------------------------------------------------------ string definitions

    def _law_hasidx(self, c: dict[str, Any], res: Result, run: Run) -> None:
        left, args = c["left"], c["args"]
        data = {"x": left, "a": args[0], "b": args[1] if len(args) > 1 else None}
        call = ": a" + (", b" if len(args) > 1 else "")
        h = run.value("x | has" + call, data)
        fi = run.value("x | find_index" + call, data)
        res.nontrivial = any(not bool(i) for i in left)
        if h[0] != "ok" or fi[0] != "ok":
            if (h[0] == "ok") != (fi[0] == "ok"):
                self._bad(res, c, "has <=> find_index", f"has={h} find_index={fi}")
            return
        if bool(h[1]) != (fi[1] is not None):
            self._bad(res, c, "has <=> find_index", f"has={h[1]!r} but find_index={fi[1]!r}")
        # the lambda forms: the matching element may itself be nil or false, so `has` is not "find found something"
        for pred in ("i => i == a", "i => i != a", "i => not i", "i => i == nil", "i => i == b", "(i, j) => j == 1",
                     "i => i.k == a", "i => not i.k"):
            h = run.value("x | has: " + pred, data)
            fi = run.value("x | find_index: " + pred, data)
            w = run.value("x | where: " + pred + " | size", data)
            if h[0] != "ok" or fi[0] != "ok" or w[0] != "ok":
                if len({h[0], fi[0], w[0]}) != 1:
                    self._bad(res, c, "has <=> find_index (lambda)", f"{pred}: has={h} find_index={fi} where|size={w}")
                continue
            if bool(h[1]) != (fi[1] is not None) or bool(h[1]) != (w[1] != 0):
                self._bad(res, c, "has <=> find_index (lambda)",
                          f"{pred}: has={h[1]!r} find_index={fi[1]!r} where|size={w[1]!r}")

    def _law_strarg(self, c: dict[str, Any], res: Result, run: Run) -> None:
        """f(x, .., v, ..) == f(x, .., text(v), ..) for a parameter the reference documents as <string>."""
        flt, form, left, args, pos = c["filter"], c["form"], c["left"], c["args"], c["pos"]
        as_text = list(args)
        as_text[pos] = M.liquid_str(args[pos])
        got = run.apply(form, flt, left, args)
        want = run.apply(form, flt, left, as_text)
        res.nontrivial = bool(as_text[pos])
        if got[0] == "exc" or want[0] == "exc":
            self._bad(res, c, "strarg", f"escaped exception: {got if got[0] == 'exc' else want}")
        elif got[0] != want[0] or (got[0] == "ok" and not same(got[1], want[1])):
            self._bad(res, c, "strarg", f"with the value {args[pos]!r}: {got}; with its text {as_text[pos]!r}: {want}")

    def _law_str_def(self, c: dict[str, Any], res: Result, run: Run) -> None:  # noqa: PLR0912, PLR0915
        flt, form, s, args = c["filter"], c["form"], c["left"], c["args"]
        want: Any
        if flt == "upcase":
            want = "".join(ch.upper() for ch in s)
            res.nontrivial = want != s
        elif flt == "downcase":
            want = "".join(ch.lower() for ch in s)
            res.nontrivial = want != s
            if "\u03a3" in s:  # final-sigma rule: context dependent
                res.labels.append("str-def:case-context-skip")
                return
        elif flt == "capitalize":
            want = s[:1].upper() + "".join(ch.lower() for ch in s[1:])
            res.nontrivial = want != s
            if s and (s[0].upper() != s[0].title() or "\u03a3" in s or len(s[0].upper()) != 1):
                res.labels.append("str-def:case-context-skip")
                return
        elif flt in ("strip", "lstrip", "rstrip"):
            want, determined = M.ascii_strip(s, flt != "rstrip", flt != "lstrip")
            res.nontrivial = want != s
            if not determined:
                res.labels.append("str-def:unicode-space-skip")
                return
        elif flt in ("append", "prepend"):
            a, s = M.liquid_str(args[0]), M.liquid_str(s)
            want = s + a if flt == "append" else a + s
            res.nontrivial = bool(s) and bool(a)
        elif flt in ("replace", "replace_first", "replace_last", "remove", "remove_first", "remove_last"):
            needle = args[0]
            sub = args[1] if len(args) > 1 else ""
            if needle == "" and (s == "" or flt.startswith("remove")):
                if flt.startswith("remove"):
                    want = s
                else:
                    res.labels.append("str-def:empty-needle-empty-input-skip")
                    return
            elif flt in ("replace", "remove"):
                want = M.replace_all(s, needle, sub)
            elif flt.endswith("first"):
                want = M.replace_first(s, needle, sub)
            else:
                want = M.replace_last(s, needle, sub)
            res.nontrivial = needle != "" and needle in s
        elif flt == "truncate":
            num = args[0] if args else 50
            end = args[1] if len(args) > 1 else "..."
            if len(s) <= num:
                want = s
            else:
                want = s[:max(num - len(end), 0)] + end
            res.nontrivial = len(s) > num
        else:  # truncatewords
            num = max(args[0] if args else 15, 1)
            end = args[1] if len(args) > 1 else "..."
            words = M.words_of(s)
            if any(ch.isspace() and ch not in M.ASCII_WS for ch in s):
                res.labels.append("str-def:unicode-space-skip")
                return
            res.nontrivial = len(words) > num
            if len(words) < num:
                want = s
            elif len(words) == num:
                # docs: 'fewer than' -> unchanged, otherwise truncated with the ellipsis appended; the
                # reference implementation leaves an exact fit unchanged.  Either is accepted.
                out = run.apply(form, flt, s, args)
                if out not in (("ok", s), ("ok", " ".join(words) + end)):
                    self._bad(res, c, "truncatewords definition (exact fit)", f"got {out}")
                return
            else:
                want = " ".join(words[:num]) + end
        self._expect(res, c, f"{flt} definition", run.apply(form, flt, s, args), want)

    # ------------------------------------------------------------------ arithmetic

    @staticmethod
    def _big(*vals: Any) -> bool:
        for v in vals:
            if abs(M.exact(v)) > 2**53:
                return True
            sp = str(v) if isinstance(v, str) else repr(v)
            if "." in sp and "e" not in sp and len(sp.split(".")[1]) >= 3:
                return True
            if "e-" in sp:
                return True
        return False

    def _int_result(self, res: Result, c: dict[str, Any], clause: str, out: tuple[str, Any], want: int, **kw: Any) -> None:
        if not (out[0] == "ok" and isinstance(out[1], int) and not isinstance(out[1], bool) and out[1] == want):
            self._bad(res, c, clause, f"expected the integer {want}, got {out[0]} {out[1]!r}", **kw)

    def _law_int_arith(self, c: dict[str, Any], res: Result, run: Run) -> None:
        flt, form, left, args = c["filter"], c["form"], c["left"], c["args"]
        a, b = int(left), int(args[0])
        res.nontrivial = self._big(left, args[0]) or abs(a * b) > 2**53
        want = {"plus": a + b, "minus": a - b, "times": a * b}.get(flt)
        if flt == "divided_by":
            want = M.floor_frac(Fraction(a, b))
        elif flt == "modulo":
            want = a - b * M.floor_frac(Fraction(a, b))
        self._int_result(res, c, f"exact integer {flt}", run.apply(form, flt, left, args), want)

    def _law_plus_minus(self, c: dict[str, Any], res: Result, run: Run) -> None:
        form, left, args = c["form"], c["left"], c["args"]
        res.nontrivial = self._big(left, args[0])
        self._int_result(res, c, "minus undoes plus", run.chain(form, left, [("plus", args), ("minus", args)]), int(left))
        self._int_result(res, c, "plus undoes minus", run.chain(form, left, [("minus", args), ("plus", args)]), int(left),
                         flt="minus")

    def _law_divmod(self, c: dict[str, Any], res: Result, run: Run) -> None:
        form, left, args = c["form"], c["left"], c["args"]
        a, b = int(left), int(args[0])
        res.nontrivial = self._big(left, args[0])
        q = run.apply(form, "divided_by", left, args)
        r = run.apply(form, "modulo", left, args)
        if q[0] != "ok" or r[0] != "ok" or not all(isinstance(v, int) and not isinstance(v, bool) for v in (q[1], r[1])):
            self._bad(res, c, "integer quotient and remainder", f"divided_by={q} modulo={r}")
            return
        if q[1] * b + r[1] != a or not (0 <= abs(r[1]) < abs(b)) or (r[1] != 0 and (r[1] < 0) != (b < 0)):
            self._bad(res, c, "a = (a div b) * b + (a mod b), floor division", f"q={q[1]} r={r[1]}")
        back = run.chain(form, q[1], [("times", [args[0]]), ("plus", [r[1]])])
        self._int_result(res, c, "times/plus rebuild the dividend", back, a)

    def _float_result(self, res: Result, c: dict[str, Any], clause: str, out: tuple[str, Any], want: Decimal,
                      digits: int) -> None:
        """Exact decimal result `want`: the float nearest to it is demanded when it has <= 28
        significant digits (what any Decimal based implementation computes exactly), else 1e-15."""
        if out[0] == "ok" and isinstance(out[1], float):
            if digits <= M.IMPL_DIGITS and out[1] == float(want):
                return
            if digits > M.IMPL_DIGITS and M.close(out[1], Fraction(want), 1e-15):
                return
        self._bad(res, c, clause, f"expected {float(want)!r} (exact {want:.60g}), got {out[0]} {out[1]!r}")

    def _law_dec_arith(self, c: dict[str, Any], res: Result, run: Run) -> None:
        flt, form, left, args = c["filter"], c["form"], c["left"], c["args"]
        a, b = M.exact(left), M.exact(args[0])
        res.nontrivial = self._big(left, args[0])
        if not all(M.representable(v) for v in (a, b)):
            res.labels.append("dec-arith:range-skip")
            return
        if flt == "divided_by":
            # the docs show float division here (20 / 7.0 = 2.857142857142857): stated tolerance
            if b == 0 or M.to_num(args[0]) == 0 or not M.representable(a / b):
                res.labels.append("dec-arith:range-skip")
                return
            out = run.apply(form, flt, left, args)
            if not (out[0] == "ok" and isinstance(out[1], float) and M.close(out[1], a / b, 1e-15)):
                self._bad(res, c, "decimal divided_by", f"expected {float(a / b)!r}, got {out[0]} {out[1]!r}")
            return
        want, digits = M.dec_op(flt, M.spelling(left), M.spelling(args[0]))
        if not M.representable(Fraction(want)):
            res.labels.append("dec-arith:range-skip")
            return
        self._float_result(res, c, f"decimal {flt}", run.apply(form, flt, left, args), want, digits)

    def _law_float_mod(self, c: dict[str, Any], res: Result, run: Run) -> None:
        form, left, args = c["form"], c["left"], c["args"]
        a, b = M.exact(left), M.exact(args[0])
        res.nontrivial = self._big(left, args[0])
        if b == 0 or M.to_num(args[0]) == 0 or abs(a / b) >= 10**15 or not M.representable(b):
            res.labels.append("float-mod:range-skip")
            return
        want = a - b * M.floor_frac(a / b)
        out = run.apply(form, "modulo", left, args)
        if M.num_kind(left) == "int" and M.num_kind(args[0]) == "int":
            self._int_result(res, c, "integer modulo", out, int(want))
        elif want != 0 and not M.representable(want):
            res.labels.append("float-mod:range-skip")
        else:
            wd = M.frac_to_dec(want)
            self._float_result(res, c, "same-sign float modulo", out, wd, len(wd.normalize(M.HP).as_tuple().digits))

    def _law_unary(self, c: dict[str, Any], res: Result, run: Run) -> None:
        flt, form, left = c["filter"], c["form"], c["left"]
        n = M.to_num(left)
        res.nontrivial = self._big(left)
        out = run.apply(form, flt, left, [])
        if flt == "abs":
            want = abs(n)
            if not (out[0] == "ok" and type(out[1]) is type(want) and out[1] == want):
                self._bad(res, c, "abs definition", f"expected {want!r}, got {out[0]} {out[1]!r}")
            return
        fn = M.ceil_frac if flt == "ceil" else M.floor_frac
        want = fn(Fraction(n))
        if fn(M.exact(left)) != want:
            res.labels.append("unary:spelling-vs-double-skip")
            return
        self._int_result(res, c, f"exact {flt}", out, want)

    def _law_minmax(self, c: dict[str, Any], res: Result, run: Run) -> None:
        flt, form, left, args = c["filter"], c["form"], c["left"], c["args"]
        a, b = M.to_num(left), M.to_num(args[0])
        res.nontrivial = self._big(left, args[0])
        want = max(a, b) if flt == "at_least" else min(a, b)
        out = run.apply(form, flt, left, args)
        ok = out[0] == "ok" and M.is_num(out[1]) and out[1] == want and (a == b or type(out[1]) is type(want))
        if not ok:
            self._bad(res, c, "max" if flt == "at_least" else "min", f"expected {want!r}, got {out[0]} {out[1]!r}")

    def _law_round(self, c: dict[str, Any], res: Result, run: Run) -> None:
        form, left, args = c["form"], c["left"], c["args"]
        digits = int(args[0]) if args else 0
        res.nontrivial = self._big(left)
        out = run.apply(form, "round", left, args)
        if M.num_kind(left) == "int":
            self._int_result(res, c, "round of an integer", out, int(left))
            return
        if digits < 0:
            self._int_result(res, c, "negative digits give 0 (CTS)", out, 0)
            return
        sp = M.spelling(left)
        scaled = M.exact(left) * 10**digits
        frac = scaled - M.floor_frac(scaled)
        ulp = Fraction(math.ulp(float(M.to_num(left))))
        if abs(frac - Fraction(1, 2)) * Fraction(1, 10**digits) <= 4 * ulp:
            res.labels.append("round:tie-skip")
            return
        want = sp.quantize(Decimal(1).scaleb(-digits), rounding=ROUND_HALF_EVEN)
        if digits == 0:
            self._int_result(res, c, "round to an integer", out, int(want))
        elif not (out[0] == "ok" and isinstance(out[1], float) and out[1] == float(want)):
            self._bad(res, c, "round to n decimals", f"expected {float(want)!r}, got {out[0]} {out[1]!r}")


PROP = C19()
