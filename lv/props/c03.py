"""C03 - async rendering is observationally identical to sync rendering, and the result of
an async render does not depend on how it is interleaved with other coroutines."""

from __future__ import annotations

import asyncio
import os
import shutil
import tempfile
from typing import Any

from hypothesis import strategies as st

from lv.core.runner import Prop
from lv.core.runner import Result
from lv.core.runner import exc_bucket
from lv.gen.grammar import Cfg
from lv.gen.grammar import data_strategy
from lv.gen.grammar import program_strategy
from lv.gen.printer import to_source
from lv.harness.envs import make_env
from lv.harness import sched
from lv.harness.sched import interleavings
from lv.harness.sched import run_alone
from lv.harness.sched import run_explicit
from lv.harness.sched import run_schedule
from lv.harness.sched import wrap_async

from liquid2 import CachingChoiceLoader
from liquid2 import CachingDictLoader
from liquid2 import CachingFileSystemLoader
from liquid2 import CachingLoaderMixin
from liquid2 import ChoiceLoader
from liquid2 import DictLoader
from liquid2 import FileSystemLoader
from liquid2 import StrictUndefined
from liquid2.exceptions import LiquidError
from liquid2.undefined import FalsyStrictUndefined

CFG = Cfg(
    wc_rate=0.05, shopify=True, tablerow=True, confusion=0.08, budget=12, max_depth=3,
    partial_names=["card", "row.html", "snippets/foo.html", "deep/er/item.liquid"],
)
LOADERS = ["dict", "dict", "cdict", "cdict-ns", "choice", "cchoice", "fs", "cfs"]
SHM = "/dev/shm" if os.path.isdir("/dev/shm") else None


class SuspendingDictLoader(DictLoader):
    """A dict loader whose async source lookup really suspends (one await point per load)."""

    async def get_source_async(self, env: Any, template_name: str, *, context: Any = None, **kwargs: Any) -> Any:
        await sched.Yield()
        return self.get_source(env, template_name, context=context, **kwargs)


class CachingSuspendingDictLoader(CachingLoaderMixin, SuspendingDictLoader):
    def __init__(self, templates: dict[str, str], *, namespace_key: str = "", capacity: int = 300) -> None:
        CachingLoaderMixin.__init__(self, auto_reload=True, namespace_key=namespace_key, capacity=capacity)
        SuspendingDictLoader.__init__(self, templates)


def err_outcome(err: LiquidError) -> tuple[str, str, Any, Any]:
    tok = err.token
    return ("err", type(err).__name__, err.template_name, tok.start if tok is not None else None)


@st.composite
def diff_case(draw: Any) -> dict[str, Any]:
    prog = draw(program_strategy(CFG))
    return {
        "kind": "diff",
        "prog": prog,
        "layout": draw(st.integers(0, 5)),
        "data": draw(data_strategy(allow_empty=True)),
        "loader": draw(st.sampled_from(LOADERS)),
        "mask": draw(st.integers(0, 15)),
        "via": draw(st.sampled_from(["from_string", "get_template"])),
        # drops whose integer properties change on every read: equal output needs equal evaluation counts
        "counting": draw(st.integers(0, 3)) == 0,
        "undefined": draw(st.sampled_from(["default", "default", "default", "strict", "falsy"])),
        # resource limits are enforced by hand-written sync/async twins as well
        "limits": draw(st.sampled_from([None, None, None, {"loop_iteration_limit": 6}, {"loop_iteration_limit": 12},
                                        {"loop_iteration_limit": 30}, {"output_stream_limit": 40},
                                        {"context_depth_limit": 4}, {"local_namespace_limit": 400}])),
    }


@st.composite
def sched_case(draw: Any) -> dict[str, Any]:
    n = draw(st.integers(2, 3))
    progs = [draw(program_strategy(CFG))]
    same = draw(st.booleans())
    for _ in range(n - 1):
        progs.append(progs[0] if same else draw(program_strategy(CFG)))
    return {
        "kind": "sched",
        "progs": progs,
        "layout": draw(st.integers(0, 3)),
        "data": [draw(data_strategy(allow_empty=True)) for _ in range(n)],
        "loader": draw(st.sampled_from(["dict", "cdict", "cdict-ns", "cchoice", "adict", "acdict", "acdict", "acdict-ns"])),
        "mask": draw(st.integers(0, 15)),
        "schedule": draw(st.lists(st.integers(0, 5), max_size=40)),
        "share_template": same and draw(st.booleans()),
        # tasks either render a template made with from_string, or first fetch it with
        # get_template_async(name, globals=...) - each task with its own globals
        "via": draw(st.sampled_from(["from_string", "get_template", "get_template"])),
    }


class C03(Prop):
    id = "C03"
    title = "Async rendering is observationally identical to sync rendering"
    technique = "differential property-based testing (sync vs async twins) + enumerated/sampled coroutine interleavings"
    rule = (
        "grammar programs with partials in sub-directories, macros, tablerow, lambdas x data x loader kind (Dict, "
        "CachingDict with/without namespace key, Choice, CachingChoice, FileSystem, CachingFileSystem) x data wrapped "
        "in pure drops with __getitem_async__; schedule cases run 2-3 render_async coroutines sharing "
        "Environment/loader (and Template) interleaved at the drops' await points - all interleavings when the "
        "total number of steps is small, the drawn schedule otherwise. Non-trivial: the template parses and either a "
        "partial is loaded through the loader or a block tag with an async twin is executed; for schedule cases at "
        "least 2 coroutines suspended at least once. Distinct by SHA-1 of the case."
    )
    assumptions = [
        "outcome = output text, or (error class, template name, token start); error messages are not compared",
        "most drops are pure (value is a function of the key); a quarter of the differential cases use counting "
        "drops, whose integer properties change on every read, so that a differing number of evaluations is observable",
        "interleavings are explored only at the harness' await points; OS-thread interleavings of run_in_executor are not controlled",
    ]
    batch = 250

    def n_random(self, tier: str) -> int:
        return 12000 if tier == "quick" else 300000

    def strategy(self, tier: str, disabled: frozenset[str]):
        return st.one_of(diff_case(), diff_case(), diff_case(), sched_case())

    def enumerate(self, tier: str, disabled: frozenset[str]):
        """Resource limits at their boundaries, for every pairing of loop constructs: the limit checks are
        written twice (sync and async) in every tag that loops, loads or buffers."""
        outers = {
            "for": "{% for a in (1..3) %}@{% endfor %}",
            "tablerow": "{% tablerow a in (1..3) cols: 2 %}@{% endtablerow %}",
            "render-for": "{% render 'mid' for nums %}",
            "include-for": "{% include 'mid' for nums %}",
            "for-render": "{% for a in (1..3) %}{% render 'mid' %}{% endfor %}",
            "for-include-capture": "{% for a in (1..3) %}{% capture c %}{% include 'mid' %}{% endcapture %}{{ c }}{% endfor %}",
            "for-call": "{% macro m %}@{% endmacro %}{% for a in (1..3) %}{% call m %}{% endfor %}",
        }
        inners = {
            "for": "{% for b in (1..4) %}x{% endfor %}",
            "tablerow": "{% tablerow b in (1..4) %}x{% endtablerow %}",
            "render-for": "{% render 'leaf' for four %}",
            "include-for": "{% include 'leaf' for four %}",
            "render-for-nested": "{% render 'leaf2' for four %}",
        }
        data = {"nums": [1, 2, 3], "four": [1, 2, 3, 4]}
        for oi, (on, o) in enumerate(sorted(outers.items())):
            for ii, (inn, inner) in enumerate(sorted(inners.items())):
                src = o.replace("@", inner)
                templates = {"mid": inner, "leaf": "y", "leaf2": "{% for c in (1..2) %}z{% endfor %}"}
                product = 12 * (2 if inn == "render-for-nested" else 1)
                for limit in (2, 3, 4, product - 1, product, product + 1):
                    for li, loader in enumerate(("dict", "adict", "acdict")):
                        if (oi + ii + li + limit) % 3 and loader != "dict":
                            continue
                        yield {"kind": "diff", "src": src, "templates": templates, "data": data, "loader": loader,
                               "mask": (oi + ii) % 16, "via": "from_string",
                               "limits": {"loop_iteration_limit": limit}, "family": f"limit-nest:{on}:{inn}"}
        # what is evaluated at all (short-circuit, branches not taken) under the strict undefined policies
        for src in (
            "{% if false and x == 1 %}t{% else %}f{% endif %}", "{% if n or x contains 'a' %}t{% else %}f{% endif %}",
            "{% if nil and (x == 1 or x contains 2) %}t{% else %}f{% endif %}", "{{ 'a' if n or x == 1 else 'b' }}",
            "{% unless n or x > 1 %}t{% else %}f{% endunless %}", "{% if n %}t{% elsif x == 1 %}e{% endif %}",
            "{% if n or x.y == 1 and x %}t{% endif %}", "{{ n | default: x }}", "{% case n %}{% when 3 %}a{% when x %}b{% endcase %}",
            "{% for i in nums limit: 1 %}{{ i }}{% else %}{{ x }}{% endfor %}", "{{ x if false else n }}",
            "{% assign v = x %}{% capture c %}{{ n }}{% endcapture %}{{ c }}", "{% if x %}t{% else %}f{% endif %}{{ x.y }}",
            "{% case n %}{% when 3, x %}a{% endcase %}", "{% case n %}{% when 1 or 3 or x %}a{% else %}e{% endcase %}",
            "{% case 'q' %}{% when x, 'q' %}a{% endcase %}", "{% if nums contains 1 or x %}t{% endif %}",
            "{{ nums | where: i => i == 1 or x | size }}", "{{ 'a' if n == 3 or x else x }}",
        ):
            for pol in ("strict", "falsy"):
                yield {"kind": "diff", "src": src, "templates": {}, "data": {"n": 3, "nums": [1, 2]}, "loader": "dict",
                       "mask": 0, "via": "from_string", "limits": None, "undefined": pol, "family": "strict-twins"}
        # the bound variable of include / render and a keyword argument of the same name (which one is in scope when
        # the other is evaluated must not depend on the mode)
        parts = {"p": "[{{ p }}|{{ x }}|{{ y }}]", "d/q": "<{{ q }}|{{ x }}>"}
        for src in (
            "{% include 'p' with x, x: y %}", "{% include 'p' with x, x: y, y: x %}", "{% include 'p' for xs as x, x: y %}",
            "{% include 'p' for xs, xs: ys %}", "{% include 'd/q' with x.k, x: u %}", "{% render 'p' with x, x: y %}",
            "{% render 'p' for xs as x, x: y %}", "{% render 'd/q' with y as x, x: 1 %}",
            "{% assign x = 'L' %}{% include 'p' with x as y, x: y %}{{ x }}",
            # a later argument that names what an earlier argument of the same tag binds reads the OUTER variable
            "{% with x: 'B', y: x %}{{ x }}{{ y }}{% endwith %}", "{% with y: x, x: 'B', z: x %}{{ x }}{{ y }}{{ z }}{% endwith %}",
            "{% render 'p', x: 'B', y: x %}", "{% include 'p', x: 'B', y: x %}{{ x }}",
            "{% macro m x, y %}{{ x }}{{ y }}{% endmacro %}{% call m x: 'B', y: x %}",
            "{% assign x = 'L' %}{% with x: 'B', y: x %}{{ y }}{% with x: y, y: x %}{{ x }}{{ y }}{% endwith %}{% endwith %}",
        ):
            for loader in ("dict", "adict"):
                yield {"kind": "diff", "src": src, "templates": parts,
                       "data": {"x": "X", "y": "Y", "xs": [1, 2], "ys": [7], "u": {"k": "K"}}, "loader": loader,
                       "mask": 0, "via": "from_string", "limits": None, "family": "bound-var-vs-kwarg"}
        # every expression is evaluated the same number of times in both modes (data that changes per read)
        for src in (
            "{% if false %}I{% elsif u.k > 0 %}E{{ u.k }}{% else %}L{% endif %}|{{ u.k }}",
            "{% if u.k == 9 %}I{% elsif u.k == 1 %}E{% elsif u.k == 2 %}F{% else %}L{% endif %}|{{ u.k }}",
            "{% unless u.k == 0 %}I{% elsif u.k == 1 %}E{% else %}L{% endunless %}|{{ u.k }}",
            "{% case u.k %}{% when 5 %}a{% when 0 %}b{% when u.k %}c{% else %}d{% endcase %}|{{ u.k }}",
            "{% for i in (u.k..u.k) %}{{ i }}{% else %}none{% endfor %}|{{ u.k }}",
            "{% for i in nums limit: u.k offset: u.k %}{{ i }}{% endfor %}|{{ u.k }}",
            "{{ u.k if u.k == 1 else u.k }}|{{ u.k }}", "{{ u.k | plus: u.k | default: u.k }}|{{ u.k }}",
            "{% assign v = u.k %}{% capture c %}{{ u.k }}{% endcapture %}{{ c }}{{ v }}|{{ u.k }}",
            "{% with a: u.k %}{{ a }}{{ a }}{% endwith %}|{{ u.k }}", "{% cycle u.k, u.k %}{% cycle u.k, u.k %}|{{ u.k }}",
            "{% render 'p', a: u.k %}{% include 'p', a: u.k %}|{{ u.k }}", "{% render 'p' for nums as a %}|{{ u.k }}",
            "{% macro m a %}{{ a }}{{ a }}{% endmacro %}{% call m u.k %}{% call m a: u.k %}|{{ u.k }}",
            "{{ nums | map: i => u.k | join: ',' }}|{{ u.k }}", "{{ nums | where: i => i == u.k | join: ',' }}|{{ u.k }}",
            "{{ \"${u.k}-${u.k}\" }}|{{ u.k }}", "{% if u.k and u.k or u.k %}t{% endif %}|{{ u.k }}",
            "{% tablerow i in nums cols: u.k %}{{ u.k }}{% endtablerow %}|{{ u.k }}",
            "{% liquid\nif u.k == 5\necho 'a'\nelsif u.k == 1\necho u.k\nendif %}|{{ u.k }}",
        ):
            for loader in ("dict", "adict"):
                yield {"kind": "diff", "src": src, "templates": {"p": "[{{ a }}{{ u.k }}]"},
                       "data": {"u": {"k": 0}, "nums": [1, 2, 3]}, "loader": loader, "mask": 0, "via": "from_string",
                       "limits": None, "counting": True, "family": "evaluation-counts"}
        # static analysis of partials that load partials: which scope an included template is analysed in (the
        # one it is loaded from, which is not the root's inside a rendered partial) is decided twice
        scoped = {
            "card": "{% assign price = item.price %}{% include 'label' %}{{ title }}",
            "label": "{{ title }}: {{ price }} {{ currency }}{% assign shown = true %}",
            "rcard": "{% assign price = item.price %}{% render 'label', price: price %}{{ shown }}",
            "icard": "{% assign price = 1 %}{% include 'label' %}{{ shown }}{% render 'leaf', x: shown %}",
            "leaf": "{{ x }}{{ title }}{{ price }}{% include 'label' %}",
            "base": "{% assign price = 2 %}[{% block b %}{% include 'label' %}{% endblock %}]{{ shown }}",
            "kid": "{% extends 'base' %}{% block b %}{{ block.super }}{% render 'card', item: product %}{{ price }}{% endblock %}",
        }
        for src in (
            "{% assign title = 'Home' %}{% render 'card', item: product %}{{ price }}",
            "{% assign title = 'Home' %}{% include 'card' %}{{ price }}{{ shown }}",
            "{% assign title = 'Home' %}{% render 'rcard', item: product %}",
            "{% include 'icard' %}{{ title }}",
            "{% for item in products %}{% render 'card', item: item %}{% include 'icard' %}{% endfor %}{{ item }}",
            "{% with title: 't' %}{% render 'icard' %}{% endwith %}{% include 'label' %}",
            "{% assign title = 'T' %}{% render 'kid' %}{% include 'kid' %}",
            "{% macro m item %}{% render 'card', item: item %}{% include 'label' %}{% endmacro %}{% call m product %}{{ price }}",
        ):
            for loader in ("dict", "adict"):
                yield {"kind": "diff", "src": src, "templates": scoped,
                       "data": {"product": {"price": 3}, "products": [{"price": 4}], "currency": "EUR"}, "loader": loader,
                       "mask": 0, "via": "from_string", "limits": None, "family": "analysis-scope-chains"}
        # depth and output limits across include / render / extends chains
        chain = {"d1": "1{% include 'd2' %}", "d2": "2{% render 'd3' %}", "d3": "3{% include 'd4' %}", "d4": "4{% render 'd5' %}",
                 "d5": "5", "base": "[{% block b %}B{% endblock %}]",
                 "child": "{% extends 'base' %}{% block b %}{{ block.super }}{% include 'd3' %}{% endblock %}"}
        for entry in ("{% include 'd1' %}", "{% render 'd1' %}", "{% render 'child' %}", "{% include 'child' %}",
                      "{% for i in (1..2) %}{% render 'd2' %}{% endfor %}"):
            for lim in ({"context_depth_limit": n} for n in (2, 3, 4, 5, 6, 7)):
                yield {"kind": "diff", "src": entry, "templates": chain, "data": {}, "loader": "adict", "mask": 0,
                       "via": "from_string", "limits": lim, "family": "limit-depth"}
            for lim in ({"output_stream_limit": n} for n in (1, 2, 3, 4, 5, 8, 9, 10)):
                yield {"kind": "diff", "src": entry, "templates": chain, "data": {}, "loader": "dict", "mask": 0,
                       "via": "from_string", "limits": lim, "family": "limit-output"}

    def enumerated_is_exhaustive(self, tier: str) -> bool:
        return False

    def budget_s(self, tier: str) -> float:
        return 240 if tier == "quick" else 3000

    def setup_worker(self) -> None:
        self._loop = asyncio.new_event_loop()

    # ------------------------------------------------------------------

    def _loader(self, kind: str, templates: dict[str, str], tmp: list[str]) -> Any:
        if kind == "dict":
            return DictLoader(dict(templates))
        if kind == "cdict":
            return CachingDictLoader(dict(templates), capacity=2)
        if kind == "cdict-ns":
            return CachingDictLoader(dict(templates), namespace_key="tenant", capacity=3)
        if kind == "choice":
            half = sorted(templates)[: len(templates) // 2]
            return ChoiceLoader([DictLoader({k: templates[k] for k in half}), DictLoader(dict(templates))])
        if kind == "cchoice":
            return CachingChoiceLoader([DictLoader({}), DictLoader(dict(templates))], capacity=2)
        if kind == "adict":
            return SuspendingDictLoader(dict(templates))
        if kind == "acdict":
            return CachingSuspendingDictLoader(dict(templates), capacity=3)
        if kind == "acdict-ns":
            return CachingSuspendingDictLoader(dict(templates), namespace_key="tenant", capacity=3)
        if tmp:
            d = tmp[0]  # one directory per case: paths must be equal for the sync and async twins
        else:
            d = tempfile.mkdtemp(prefix="lv-c03-", dir=SHM)
            tmp.append(d)
            for name, src in templates.items():
                path = os.path.join(d, name)
                os.makedirs(os.path.dirname(path), exist_ok=True)
                with open(path, "w", encoding="utf-8", newline="") as fd:
                    fd.write(src)
        if kind == "fs":
            return FileSystemLoader(d)
        return CachingFileSystemLoader(d, capacity=2)

    def _run_async(self, coro: Any, needs_loop: bool) -> Any:
        if needs_loop:
            return self._loop.run_until_complete(coro)
        task = run_alone(coro)
        if task.error is not None:
            raise task.error
        return task.result

    def check(self, case: Any, disabled: frozenset[str] = frozenset()) -> Result:
        tmp: list[str] = []
        try:
            if case["kind"] == "diff":
                return self._check_diff(case, tmp)
            return self._check_sched(case, tmp)
        finally:
            for d in tmp:
                shutil.rmtree(d, ignore_errors=True)

    def _check_diff(self, case: Any, tmp: list[str]) -> Result:  # noqa: PLR0912, PLR0915
        res = Result()
        if "src" in case:  # enumerated cases are given as source text
            src = case["src"]
            templates = dict(case["templates"])
        else:
            prog = case["prog"]
            lay = case["layout"]
            src = to_source(prog["main"], lay)
            templates = {k: to_source(v, lay) for k, v in prog["templates"].items()}
        templates["__main__.html"] = src
        kind = case["loader"]
        needs_loop = kind in ("fs", "cfs")
        sched.USE_ASYNCIO[0] = needs_loop
        res.labels.append("loader:" + kind)

        limits = case.get("limits")
        if limits:
            res.labels.append("limit:" + next(iter(limits)))

        policy = {"strict": StrictUndefined, "falsy": FalsyStrictUndefined}.get(case.get("undefined", "default"))
        if policy is not None:
            res.labels.append("undefined:" + case["undefined"])

        def fresh() -> Any:
            return make_env(shopify=True, loader=self._loader(kind, templates, tmp), limits=limits, undefined=policy)

        def data() -> dict[str, Any]:
            d = wrap_async(case["data"], case["mask"], counting=bool(case.get("counting")))
            if isinstance(d, dict):
                d = dict(d)
            else:  # top level must be a plain dict for **kwargs
                d = dict(case["data"])
            d.setdefault("tenant", "t1")
            return d

        # ---- template acquisition: from_string vs get_template / get_template_async
        env_s, env_a = fresh(), fresh()
        try:
            if case["via"] == "get_template":
                try:
                    t_s: Any = ("ok", env_s.get_template("__main__.html"))
                except LiquidError as err:
                    t_s = err_outcome(err)
                try:
                    t_a: Any = ("ok", self._run_async(env_a.get_template_async("__main__.html"), needs_loop))
                except LiquidError as err:
                    t_a = err_outcome(err)
                if t_s[0] != t_a[0] or (t_s[0] == "err" and t_s[:2] != t_a[:2]):
                    res.fail("get_template", f"get-template-differs:{kind}", f"sync={t_s!r} async={t_a!r} src={src!r}")
                    return res
                if t_s[0] == "err":
                    res.labels.append("unparsable")
                    return res
                ts, ta = t_s[1], t_a[1]
                if (ts.name, str(ts)) != (ta.name, str(ta)):
                    res.fail("get_template", f"get-template-name:{kind}",
                             f"sync name={ts.name!r} async name={ta.name!r}")
            else:
                try:
                    ts = env_s.from_string(src)
                    ta = env_a.from_string(src)
                except LiquidError:
                    res.labels.append("unparsable")
                    return res
        except RecursionError:
            return res
        except Exception as err:  # noqa: BLE001
            res.labels.append("crash:" + exc_bucket(err))
            return res

        # ---- render
        try:
            try:
                out_s: Any = ("ok", ts.render(**data()))
            except LiquidError as err:
                out_s = err_outcome(err)
            try:
                out_a: Any = ("ok", self._run_async(ta.render_async(**data()), needs_loop))
            except LiquidError as err:
                out_a = err_outcome(err)
        except RecursionError:
            return res
        except Exception as err:  # noqa: BLE001 - C02's business
            res.labels.append("crash:" + exc_bucket(err))
            return res
        res.evaluations = 2
        res.nontrivial = bool(templates) and ("{%" in src)
        if out_s != out_a:
            if out_s[0] == "ok" and out_a[0] == "ok":
                b = f"render-differs:text:{kind}"
            elif out_s[0] != out_a[0]:
                b = f"render-differs:{out_s[1] if out_s[0] == 'err' else 'ok'}-vs-{out_a[1] if out_a[0] == 'err' else 'ok'}"
            elif out_s[1] != out_a[1]:
                b = f"render-differs:error-class:{out_s[1]}-vs-{out_a[1]}"
            elif out_s[2] != out_a[2]:
                b = f"render-differs:error-template-name:{out_s[1]}"
            else:
                b = f"render-differs:error-position:{out_s[1]}"
            res.fail("sync-vs-async", b, f"sync={out_s!r} async={out_a!r} src={src!r} templates={templates!r}")
            return res

        # ---- analyze
        try:
            try:
                an_s: Any = ("ok", ts.analyze())
            except LiquidError as err:
                an_s = ("err", type(err).__name__)
            try:
                an_a: Any = ("ok", self._run_async(ta.analyze_async(), needs_loop))
            except LiquidError as err:
                an_a = ("err", type(err).__name__)
            if an_s[0] != an_a[0] or (an_s[0] == "err" and an_s != an_a):
                res.fail("analyze", "analyze-differs:outcome", f"sync={an_s!r} async={an_a!r} src={src!r}")
            elif an_s[0] == "ok":
                a, b2 = an_s[1], an_a[1]
                for fld in ("variables", "globals", "locals", "filters", "tags"):
                    va, vb = getattr(a, fld), getattr(b2, fld)
                    if _norm(va) != _norm(vb):
                        res.fail("analyze", f"analyze-differs:{fld}", f"sync={_norm(va)!r} async={_norm(vb)!r} src={src!r}")
                        break
        except RecursionError:
            pass
        except Exception as err:  # noqa: BLE001
            res.labels.append("crash:" + exc_bucket(err))
        return res

    def _check_sched(self, case: Any, tmp: list[str]) -> Result:  # noqa: PLR0912
        res = Result()
        sched.USE_ASYNCIO[0] = False
        lay = case["layout"]
        progs = case["progs"]
        kind = case["loader"]
        templates: dict[str, str] = {}
        for p in progs:
            for k, v in p["templates"].items():
                templates.setdefault(k, to_source(v, lay))
        srcs = [to_source(p["main"], lay) + "{{ gv }}" for p in progs]
        via = case.get("via", "from_string")
        names = [f"__main{0 if case['share_template'] else i}.html" for i in range(len(srcs))]
        if via == "get_template":
            for nm, s_ in zip(names, srcs):
                templates.setdefault(nm, s_)

        class _Made:
            """Something with render_async(**data): a Template, or fetch-then-render."""

            def __init__(self, env: Any, i: int) -> None:
                self.env, self.i = env, i

            async def render_async(self, **data: Any) -> str:
                t = await self.env.get_template_async(names[self.i], globals={"gv": f"G{self.i}"},
                                                      tenant=data.get("tenant"))
                return await t.render_async(**data)

        def build() -> tuple[Any, list[Any]]:
            env = make_env(shopify=True, loader=self._loader(kind, templates, tmp))
            tmpls: list[Any] = []
            for i, s in enumerate(srcs):
                if via == "get_template":
                    tmpls.append(_Made(env, i))
                elif case["share_template"] and i > 0:
                    tmpls.append(tmpls[0])
                else:
                    tmpls.append(env.from_string(s, globals={"gv": f"G{i}"}))
            return env, tmpls

        def datas() -> list[dict[str, Any]]:
            out = []
            for i, d in enumerate(case["data"]):
                w = wrap_async(d, case["mask"])
                w = dict(w) if isinstance(w, dict) else dict(d)
                w.setdefault("tenant", f"t{i % 2}")
                out.append(w)
            return out

        def outcome_of(task: Any) -> Any:
            if task.error is None:
                return ("ok", task.result)
            if isinstance(task.error, LiquidError):
                return err_outcome(task.error)
            return ("crash", type(task.error).__name__)

        try:
            try:
                _env, tmpls = build()
            except LiquidError:
                res.labels.append("unparsable")
                return res
            # reference: each coroutine alone, on fresh objects
            alone = []
            counts = []
            for i in range(len(srcs)):
                _e, tl = build()
                t = run_alone(tl[i].render_async(**datas()[i]))
                alone.append(outcome_of(t))
                counts.append(t.steps + 1)
            res.evaluations = len(srcs)
            if any(o[0] == "crash" for o in alone):
                res.labels.append("crash")
                return res
            res.nontrivial = sum(1 for c in counts if c > 1) >= 2
            total = sum(counts)
            if total <= 9:
                orders = interleavings(counts, limit=130)
                res.labels.append("exhaustive-interleavings")
            else:
                orders = []
                res.labels.append("sampled-interleaving")
            runs = 0
            for order in orders:
                _e, tl = build()
                ds = datas()
                tasks = run_explicit([tl[i].render_async(**ds[i]) for i in range(len(srcs))], order)
                runs += 1
                got = [outcome_of(t) for t in tasks]
                if got != alone:
                    res.fail("schedule", f"schedule-dependent:{kind}",
                             f"order={order} alone={alone!r} interleaved={got!r} srcs={srcs!r}")
                    break
            if not orders:
                _e, tl = build()
                ds = datas()
                tasks = run_schedule([tl[i].render_async(**ds[i]) for i in range(len(srcs))], case["schedule"])
                runs += 1
                got = [outcome_of(t) for t in tasks]
                if got != alone:
                    res.fail("schedule", f"schedule-dependent:{kind}",
                             f"schedule={case['schedule']} alone={alone!r} interleaved={got!r} srcs={srcs!r}")
            res.evaluations += runs * len(srcs)
        except RecursionError:
            pass
        return res

    def sample(self, case: Any) -> Any:
        if case["kind"] == "diff":
            return {"kind": "diff", "loader": case["loader"], "mask": case["mask"],
                    "src": (case["src"] if "src" in case else to_source(case["prog"]["main"], case["layout"]))[:250],
                    "partials": sorted(case["templates"] if "src" in case else case["prog"]["templates"])}
        return {"kind": "sched", "loader": case["loader"], "n": len(case["progs"]), "schedule": case["schedule"][:20],
                "src0": to_source(case["progs"][0]["main"], case["layout"])[:200]}


def _norm(d: dict[str, Any]) -> Any:
    out = {}
    for k, v in d.items():
        out[k] = sorted(repr(x) for x in v)
    return out


PROP = C03()
