"""C04 - auto-escape: untrusted data never reaches the output unescaped.

Domain: ``Environment(auto_escape=True)`` (default registry and the Shopify one).
Template-author literals are drawn from an alphabet with no HTML-significant character
and none of the characters that occur in escape entities; `safe` is never used.  Every
``str`` of the render data is *tainted*: ``<TAG>&TAG'TAG"`` with a per-string unique TAG.

Three sources of cases:

* ``chain``  dedicated generator: ``{{ left | f1: a | f2 ... }}`` (<= 5 filters, every filter
  of the registry, tainted left values AND tainted arguments) wrapped in one of the
  constructs (capture, include/render with kwargs, macro, loops, template string, ternary,
  translate tag / t-filters, ``block.super`` in an extends chain, tablerow, ...);
* ``prog``   the shared grammar generator with restricted literals over tainted data;
* ``enum``   deterministic: every filter x left kind x argument taint pattern, and every
  ordered pair of string filters.

Oracle (see DESIGN.md, C04): O1 raw ``< > ' "``, O2 ``&TAG`` with two confirming
re-renders, O3 positive control with ``| safe``.
"""

from __future__ import annotations

import re
from typing import Any
from typing import Callable

from hypothesis import strategies as st

from lv.core.runner import Prop
from lv.core.runner import Result
from lv.core.runner import exc_bucket
from lv.gen.grammar import Cfg
from lv.gen.grammar import program_strategy
from lv.gen.printer import to_source
from lv.harness.envs import make_env
from lv.harness.envs import run_coro

from liquid2.exceptions import LiquidError
from liquid2.undefined import DebugUndefined

# --------------------------------------------------------------------------- alphabets

TAG_LETTERS = "BCDEFHIJKNRSVWYZ"  # disjoint from entity letters (a m p l t g q u o x) in both cases
TAG_LEN = 3
N_TAGS = len(TAG_LETTERS) ** TAG_LEN

# literal alphabet: no HTML-significant char, nothing that occurs in `&lt; &gt; &amp; &#39; &#34;`,
# no ASCII letter at all (all 26 are either entity letters or tag letters), no `%` `$` `{` `}`.
LIT_ALPHABET = "0125678 .,:!?-_/()[]|=+*~@^\n\téλж日"
LIT_WORDS = [" ", "", "-", ", ", "0", "12", "é", ".", "\n", " : ", "日", "7/8", "_", "λ"]

SPECIALS = "<>'\""
CHAR_CLASS = {"<": "lt", ">": "gt", "'": "apos", '"': "quot", "&": "amp"}
SWAP = {"<": ">", ">": "<", "'": '"', '"': "'"}  # same raw and escaped length
NEUTRAL = "§"

RE_ENGINE = re.compile(r'<br />|<tr class="row\d+">|<td class="col\d+">|</td>|</tr>', re.I)
RE_ENTITY = re.compile(r"&(?:lt|gt|amp|#39|#34);", re.I)
RE_AMP_TAG = re.compile(r"&([A-Za-z]{%d})" % TAG_LEN)
ENGINE_SOURCES = ("newline_to_br", "tablerow")

lit_text = st.one_of(st.sampled_from(LIT_WORDS), st.text(alphabet=LIT_ALPHABET, min_size=1, max_size=5))
lit_string = st.one_of(st.sampled_from(LIT_WORDS), st.text(alphabet=LIT_ALPHABET, max_size=4))


def tag_of(i: int) -> str:
    i %= N_TAGS
    n = len(TAG_LETTERS)
    return TAG_LETTERS[i // (n * n)] + TAG_LETTERS[(i // n) % n] + TAG_LETTERS[i % n]


def taint(tag: str, variant: int = 0) -> str:
    """A plain str saturated with < > & ' " whose every special char touches `tag`."""
    if variant == 1:
        return f"<{tag}>&{tag}'{tag}\"\n"
    if variant == 2:
        return f"<{tag}>\n&{tag}' {tag}\""
    if variant == 3:
        return f"%Y-<{tag}>&{tag}'{tag}\""
    return f"<{tag}>&{tag}'{tag}\""


# --------------------------------------------------------------------------- draw helper


class R:
    """Cheap integer draws (same trick as lv.gen.grammar.Gen)."""

    def __init__(self, draw: Callable[[Any], Any]) -> None:
        self.draw = draw
        self._data = getattr(draw, "__self__", None)
        if not hasattr(self._data, "draw_integer"):
            self._data = None

    def i(self, lo: int, hi: int) -> int:
        if self._data is not None:
            return self._data.draw_integer(lo, hi)
        return self.draw(st.integers(lo, hi))

    def p(self, prob: float) -> bool:
        return self.i(0, 999) < prob * 1000

    def pick(self, seq: Any) -> Any:
        return seq[self.i(0, len(seq) - 1)]


class Det(R):
    """Deterministic stand-in used by the enumerated part (always the first option)."""

    def __init__(self, salt: int = 0) -> None:  # noqa: D107
        self.salt = salt
        self.draw = None  # type: ignore[assignment]
        self._data = None

    def i(self, lo: int, hi: int) -> int:
        self.salt = (self.salt * 1103515245 + 12345) & 0x7FFFFFFF
        return lo + (self.salt >> 8) % (hi - lo + 1)


# --------------------------------------------------------------------------- tainted data (dedicated schema)

BABEL_VARS = ["currency_format", "decimal_format", "datetime_format", "unit_format", "currency_code",
              "locale", "timezone", "unit_length", "input_locale"]


def chain_data(r: R) -> tuple[dict[str, Any], list[str]]:
    base = r.i(0, N_TAGS - 1)
    stride = 2 * r.i(0, 40) + 1  # odd: a bijection of the tag space
    cnt = [0]
    owners: list[str] = []

    def t(variant: int | None = None) -> str:
        tag = tag_of(base + cnt[0] * stride)
        cnt[0] += 1
        owners.append(tag)
        if variant is None:
            variant = r.pick([0, 0, 0, 1, 2, 2])
        return taint(tag, variant)

    key = t(0)
    data: dict[str, Any] = {
        "x": t(), "y": t(), "z": t(), "ctl": t(0),
        "l": [t() for _ in range(r.i(1, 3))],
        "d": {key: t(), "k": t()},
        "kk": key,
        "hs": [{"k": t(), "n": 2, key: t()}, {"k": t(), "n": 1}, {"n": 5}],
        "u": {"name": t(), "address": {"city": t()}},
        "n": r.i(0, 3),
        "fl": 1.5,
        "flag": r.p(0.5),
        "fmt": t(3),
    }
    if r.p(0.3):
        data["l"].append(r.pick([None, 7, [t()], True]))
    for name in BABEL_VARS:
        if r.p(0.06):
            data[name] = t(0)
    return data, owners


def map_strings(obj: Any, fn: Callable[[str], str]) -> Any:
    if isinstance(obj, str):
        return fn(obj)
    if isinstance(obj, list):
        return [map_strings(v, fn) for v in obj]
    if isinstance(obj, dict):
        return {fn(k): map_strings(v, fn) for k, v in obj.items()}
    return obj


def mutate(data: dict[str, Any], ch: str, new: str, owner: str | None = None) -> dict[str, Any]:
    """`data` with `ch` replaced by `new` in the owner's strings (all tainted strings if None).
    Top-level names are never touched."""

    def fn(s: str) -> str:
        if owner is not None and owner not in s:
            return s
        return s.replace(ch, new)

    return {k: map_strings(v, fn) for k, v in data.items()}


# --------------------------------------------------------------------------- dedicated chain generator

# name -> (left type, positional arg kinds ('?' = optional), keyword args (name, kind, prob), result type)
FT: dict[str, tuple[str, list[str], list[tuple[str, str, float]], str]] = {
    "append": ("str", ["s"], [], "str"),
    "prepend": ("str", ["s"], [], "str"),
    "capitalize": ("str", [], [], "str"),
    "downcase": ("str", [], [], "str"),
    "upcase": ("str", [], [], "str"),
    "lstrip": ("str", [], [], "str"),
    "rstrip": ("str", [], [], "str"),
    "strip": ("str", [], [], "str"),
    "strip_html": ("str", [], [], "str"),
    "strip_newlines": ("str", [], [], "str"),
    "newline_to_br": ("str", [], [], "str"),
    "escape": ("str", [], [], "str"),
    "escape_once": ("str", [], [], "str"),
    "url_encode": ("str", [], [], "str"),
    "url_decode": ("str", [], [], "str"),
    "remove": ("str", ["s"], [], "str"),
    "remove_first": ("str", ["s"], [], "str"),
    "remove_last": ("str", ["s"], [], "str"),
    "replace": ("str", ["s", "s?"], [], "str"),
    "replace_first": ("str", ["s", "s?"], [], "str"),
    "replace_last": ("str", ["s", "s"], [], "str"),
    "slice": ("seq", ["i", "i?"], [], "same"),
    "split": ("str", ["s"], [], "strs"),
    "truncate": ("str", ["i?", "s?"], [], "str"),
    "truncatewords": ("str", ["i?", "s?"], [], "str"),
    "size": ("any", [], [], "num"),
    "default": ("any", ["a"], [("allow_false", "b", 0.2)], "any"),
    "join": ("list", ["s?"], [], "str"),
    "first": ("list", [], [], "any"),
    "last": ("list", [], [], "any"),
    "concat": ("list", ["L"], [], "list"),
    "reverse": ("list", [], [], "same"),
    "sort": ("list", ["k?"], [], "same"),
    "sort_natural": ("list", ["k?"], [], "same"),
    "sort_numeric": ("list", ["k?"], [], "same"),
    "uniq": ("list", ["k?"], [], "same"),
    "compact": ("list", ["k?"], [], "same"),
    "map": ("hashes", ["k"], [], "strs"),
    "where": ("hashes", ["k", "a?"], [], "hashes"),
    "reject": ("hashes", ["k", "a?"], [], "hashes"),
    "find": ("hashes", ["k", "a?"], [], "hash"),
    "find_index": ("hashes", ["k", "a?"], [], "num"),
    "has": ("hashes", ["k", "a?"], [], "any"),
    "sum": ("list", ["k?"], [], "num"),
    "abs": ("num", [], [], "num"),
    "ceil": ("num", [], [], "num"),
    "floor": ("num", [], [], "num"),
    "round": ("num", ["i?"], [], "num"),
    "at_least": ("num", ["n"], [], "num"),
    "at_most": ("num", ["n"], [], "num"),
    "plus": ("num", ["n"], [], "num"),
    "minus": ("num", ["n"], [], "num"),
    "times": ("num", ["n"], [], "num"),
    "divided_by": ("num", ["n"], [], "num"),
    "modulo": ("num", ["n"], [], "num"),
    "json": ("any", ["j?"], [], "str"),
    "date": ("date", ["f"], [], "str"),
    "t": ("str", ["s?"], [("plural", "s", 0.3), ("count", "i", 0.3), ("v", "s", 0.5)], "str"),
    "gettext": ("str", [], [("v", "s", 0.5)], "str"),
    "ngettext": ("str", ["s", "i"], [("v", "s", 0.4)], "str"),
    "pgettext": ("str", ["s"], [("v", "s", 0.4)], "str"),
    "npgettext": ("str", ["s", "s", "i"], [("v", "s", 0.4)], "str"),
    "currency": ("num", [], [("group_separator", "b", 0.2)], "str"),
    "money": ("num", [], [("group_separator", "b", 0.2)], "str"),
    "money_with_currency": ("num", [], [], "str"),
    "money_without_currency": ("num", [], [], "str"),
    "money_without_trailing_zeros": ("num", [], [], "str"),
    "decimal": ("num", [], [("group_separator", "b", 0.2)], "str"),
    "datetime": ("date", [], [("format", "f", 0.6)], "str"),
    "unit": ("num", ["u"], [("format", "s", 0.3), ("length", "s", 0.2), ("denominator", "n", 0.2),
                            ("denominator_unit", "u", 0.2)], "str"),
}
SHOPIFY_FT = {
    "base64_encode": ("str", [], [], "str"),
    "base64_decode": ("str", [], [], "str"),
    "base64_url_safe_encode": ("str", [], [], "str"),
    "base64_url_safe_decode": ("str", [], [], "str"),
}
ALL_FT = dict(FT)
ALL_FT.update(SHOPIFY_FT)
B64_PAIR = {"base64_encode": "base64_decode", "base64_url_safe_encode": "base64_url_safe_decode"}
B64_DECODE = set(B64_PAIR.values())
LAMBDA_OK = {"map", "where", "reject", "find", "find_index", "has", "sort", "sort_natural", "sort_numeric",
             "uniq", "compact", "sum"}
T_FILTERS = ("t", "gettext", "ngettext", "pgettext", "npgettext")

STR_PATHS = ["x", "y", "z", "x", "y", "l[0]", "l[1]", "l.first", "l.last", "d.k", "d[kk]", "u.name",
             "u.address.city", "hs[0].k", "hs.first.k", "hs[0][kk]", "kk", "u['name']"]
LIST_PATHS = ["l", "l", "hs", "d", "u"]
NUM_PATHS = ["n", "fl", "hs[0].n", "l.size"]
DATE_LITS = ["'2001-02-05 06:07:08'", "'2010-12-15'", "1152098955"]
FMT_LITS = ["'%Y'", "'%d/%m %H:%M'", "'%A %B'", "'%%'", "'%j'"]
UNIT_LITS = ["'length-meter'", "'duration-second'", "'mass-gram'"]


def compat(have: str, want: str) -> bool:
    if want in ("any", have):
        return True
    if want == "str":
        return have in ("date",)
    if want == "list":
        return have in ("strs", "hashes", "list")
    if want == "seq":
        return have in ("strs", "hashes", "list", "str")
    if want == "date":
        return have in ("str", "num")
    return False


class Chains:
    """Builds Liquid source text for filter chains and the constructs around them."""

    def __init__(self, r: R, *, shopify: bool) -> None:
        self.r = r
        self.shopify = shopify
        self.table = dict(ALL_FT if shopify else FT)
        self.names = list(self.table)
        self.extra_str: list[str] = []  # locals holding (Markup) strings: captures etc.
        self.prev = ""

    # ---- literals

    def lit_raw(self) -> str:
        r = self.r
        if r.draw is None:
            return r.pick(LIT_WORDS)
        return r.draw(lit_string)

    def lit(self) -> str:
        return self.q(self.lit_raw())

    def q(self, s: str) -> str:
        q = self.r.pick(["'", '"'])
        return q + s + q

    def text(self) -> str:
        r = self.r
        if r.draw is None:
            return r.pick(LIT_WORDS)
        return r.draw(lit_text)

    # ---- primitives

    def spath(self) -> str:
        if self.extra_str and self.r.p(0.25):
            return self.r.pick(self.extra_str)
        return self.r.pick(STR_PATHS)

    def left(self, want: str) -> tuple[str, str]:
        r = self.r
        if want == "any":
            want = r.pick(["str", "str", "str", "list", "hashes", "num", "dict"])
        if want in ("str", "seq"):
            k = r.i(0, 9)
            if k < 6:
                return self.spath(), "str"
            if k < 8:
                return self.lit(), "str"
            return self.tstr(), "str"
        if want == "list":
            p = r.pick(LIST_PATHS)
            return p, {"l": "strs", "hs": "hashes"}.get(p, "list")
        if want == "hashes":
            return "hs", "hashes"
        if want == "dict":
            return r.pick(["d", "u"]), "list"
        if want == "num":
            return (r.pick(NUM_PATHS), "num") if r.p(0.6) else (str(r.i(-2, 12)), "num")
        if want == "date":
            return (r.pick(DATE_LITS), "date") if r.p(0.6) else (self.spath(), "str")
        return self.spath(), "str"

    def tstr(self) -> str:
        """Template string literal with 1..3 interpolations (simple chains inside)."""
        r = self.r
        q = r.pick(["'", '"'])
        parts = []
        for _ in range(r.i(1, 3)):
            parts.append(self.lit_raw() if r.p(0.6) else "")
            inner = self.spath()
            if r.p(0.5):
                inner += self.filters("str", r.i(1, 2), quote=("'" if q == '"' else '"'))[0]
            parts.append("${" + inner + "}")
        parts.append(self.lit_raw() if r.p(0.5) else "")
        return q + "".join(parts) + q

    def arg(self, kind: str, fname: str, quote: str | None = None) -> str:  # noqa: PLR0911, PLR0912
        r = self.r

        def lit() -> str:
            s = self.lit_raw()
            return (quote + s + quote) if quote else self.q(s)

        if kind == "s":
            k = r.i(0, 9)
            if k < 6:
                return self.spath()
            if k < 9:
                if fname == "join" and r.p(0.4):
                    return (quote or "'") + " " + (quote or "'")
                return lit()
            return str(r.i(0, 9))
        if kind == "i":
            return str(r.i(-2, 14)) if r.p(0.8) else r.pick(["n", "l.size", "x"])
        if kind == "j":
            return str(r.i(0, 4)) if r.p(0.9) else "x"
        if kind == "n":
            return r.pick(["2", "1.5", "2", "fl", "x", "7"])
        if kind == "b":
            return r.pick(["true", "false", "flag", "x"])
        if kind == "k":
            return r.pick(["'k'", "'k'", "kk", "kk", "'n'", "y"]).replace("'", quote or "'")
        if kind == "L":
            return r.pick(["l", "hs", "l", "hs", "l", "x", "d"])
        if kind == "a":
            return r.pick([self.spath(), self.spath(), lit(), "n", "nil", "l", "hs[0]"])
        if kind == "f":
            return r.pick(["fmt", "fmt", "x", r.pick(FMT_LITS).replace("'", quote or "'")])
        if kind == "u":
            return r.pick(UNIT_LITS + ["x"]).replace("'", quote or "'")
        raise AssertionError(kind)

    def lambda_arg(self, fname: str, have: str) -> str:
        r = self.r
        item = "i.k" if have == "hashes" else "i"
        if fname in ("map", "sort", "sort_natural", "sort_numeric", "uniq", "compact", "sum"):
            return f"i => {item}"
        return r.pick([f"i => {item} == {self.spath()}", f"i => {item} contains {self.spath()}",
                       f"i => {item}", f"(i, j) => {item} != y"])

    def one_filter(self, name: str, have: str, quote: str | None = None) -> tuple[str, str]:
        r = self.r
        _lt, pos, kws, rt = self.table[name]
        args: list[str] = []
        if name in LAMBDA_OK and quote is None and r.p(0.25):
            args.append(self.lambda_arg(name, have))
        else:
            for kind in pos:
                opt = kind.endswith("?")
                if opt and r.p(0.35):
                    break
                args.append(self.arg(kind.rstrip("?"), name, quote))
        for kw, kind, prob in kws:
            if r.p(prob):
                args.append(f"{kw}: {self.arg(kind, name, quote)}")
        if rt == "same":
            rt = have
        if name in ("first", "last"):
            rt = {"strs": "str", "hashes": "hash"}.get(have, "any")
        if name == "map" and have != "hashes":
            rt = "list"
        s = " | " + name + (": " + ", ".join(args) if args else "")
        return s, rt

    def pick_filter(self, have: str) -> str:
        r = self.r
        if r.p(0.05):
            return r.pick(self.names)
        names = [n for n in self.names if compat(have, self.table[n][0])]
        if self.prev in B64_PAIR and r.p(0.5):
            return B64_PAIR[self.prev]
        if not r.p(0.1):
            names = [n for n in names if n not in B64_DECODE] or names
        if have in ("str", "any") and r.p(0.5):
            names = [n for n in names if self.table[n][0] == "str"] or names
        return r.pick(names)

    def filters(self, have: str, n: int, quote: str | None = None) -> tuple[str, str]:
        out = []
        for _ in range(n):
            name = self.pick_filter(have)
            s, have = self.one_filter(name, have, quote)
            self.prev = name
            out.append(s)
        self.prev = ""
        return "".join(out), have

    def chain(self, max_len: int = 5, want: str = "any") -> str:
        r = self.r
        left, have = self.left(want)
        n = r.pick([1, 1, 2, 2, 2, 3, 3, 4, 5])
        n = min(n, max_len)
        if left.startswith(("'", '"')) and "${" not in left and have == "str" and r.p(0.7):
            # a literal on the left is only interesting when tainted data joins it
            if r.p(0.5):
                first = " | " + r.pick(["append: ", "prepend: ", "replace: '0', ", "replace_first: '', "]) + self.spath()
            else:
                left = self.q(self.lit_raw() + "%(v)s" + self.lit_raw())
                first = " | " + r.pick(["t", "gettext"]) + ": v: " + self.spath()
            rest, _ = self.filters("str", n - 1)
            return left + first + rest
        fl, _ = self.filters(have, n)
        return left + fl

    # ---- constructs; each returns (kind, source, templates)

    def segment(self) -> tuple[str, str, dict[str, str]]:  # noqa: PLR0911, PLR0912, PLR0915
        r = self.r
        kinds = ["out"] * 6 + ["echo", "assign", "assign", "capture", "capture", "render", "render", "include",
                              "macro", "macro", "for", "for", "tstr", "ternary", "translate", "translate", "with",
                              "cycle", "case", "liquid", "dictkeys", "capture-for", "entity-cut"]
        if self.shopify:
            kinds += ["tablerow", "tablerow"]
        k = r.pick(kinds)
        t1, t2 = self.text(), self.text()
        E = self.chain()
        if k == "out":
            return k, f"{t1}{{{{ {E} }}}}{t2}", {}
        if k == "echo":
            return k, f"{t1}{{% echo {E} %}}{t2}", {}
        if k == "assign":
            tail, _ = self.filters("any", r.i(0, 2))
            return k, f"{{% assign v = {E} %}}{t1}{{{{ v{tail} }}}}{t2}", {}
        if k == "capture":
            tail, _ = self.filters("str", r.i(0, 3))
            inner = f"{t1}{{{{ {E} }}}}{t2}"
            if r.p(0.3):
                inner += f"{{{{ {self.chain(2)} }}}}"
            src = f"{{% capture cap %}}{inner}{{% endcapture %}}{{{{ cap{tail} }}}}"
            if r.p(0.3):
                self.extra_str.append("cap")
                src += f"{{{{ {self.chain(3, 'str')} }}}}"
                self.extra_str.pop()
            return k, src, {}
        if k == "capture-for":
            tail, _ = self.filters("str", r.i(0, 2))
            return k, (f"{{% capture cap %}}{{% for i in l %}}{{{{ i{self.filters('str', r.i(0, 2))[0]} }}}}{t1}"
                       f"{{% endfor %}}{{% endcapture %}}{{{{ cap{tail} }}}}"), {}
        if k in ("render", "include"):
            f1, _ = self.filters("any", r.i(0, 2))
            f2, _ = self.filters("str", r.i(0, 2))
            body = f"{t1}{{{{ a{f1} }}}}{t2}{{{{ b{f2} }}}}"
            if r.p(0.3):
                body = f"{{% capture c %}}{body}{{% endcapture %}}{{{{ c{self.filters('str', r.i(0, 2))[0]} }}}}"
            form = r.i(0, 3)
            if form == 0:
                call = f"{{% {k} 'p', a: v, b: {self.spath()} %}}"
            elif form == 1:
                call = f"{{% {k} 'p' with v as a, b: {self.lit()} %}}"
            elif form == 2:
                call = f"{{% {k} 'p' for l as a, b: v %}}"
            else:
                call = f"{{% {k} 'p', b: v, a: {self.tstr()} %}}"
            return k, f"{{% assign v = {E} %}}{t1}{call}", {"p": body}
        if k == "macro":
            f1, _ = self.filters("any", r.i(0, 2))
            f2, _ = self.filters("any", r.i(0, 2))
            body = f"{t1}{{{{ a{f1} }}}}{{{{ b{f2} }}}}{t2}{{{{ args | join: {self.arg('s', 'join')} }}}}{{{{ kwargs.k }}}}"
            defaults = r.pick(["a, b", f"a, b={self.lit()}", "a, b=y", "a"])
            call = r.pick([f"m v, {self.spath()}", "m v", f"m v, y, z, k: {self.spath()}", f"m b: v, a: {self.spath()}",
                           f"m {self.tstr()}, v"])
            return k, f"{{% macro m {defaults} %}}{body}{{% endmacro %}}{{% assign v = {E} %}}{{% call {call} %}}", {}
        if k == "for":
            f1, _ = self.filters("any", r.i(0, 3))
            it = r.pick(["l", "hs", "d", "u", "v"])
            pre = ""
            if it == "v":
                pre = f"{{% assign v = {self.spath()} | split: {self.arg('s', 'split')} %}}"
            item = {"hs": "i.k", "d": r.pick(["i[0]", "i[1]", "i"]), "u": r.pick(["i[0]", "i[1]"])}.get(it, "i")
            opts = r.pick(["", "", " reversed", " limit: 2", " offset: 1"])
            return k, (f"{pre}{{% for i in {it}{opts} %}}{t1}{{{{ {item}{f1} }}}}{{{{ forloop.index }}}}"
                       f"{{% else %}}{t2}{{% endfor %}}"), {}
        if k == "tstr":
            tail, _ = self.filters("str", r.i(0, 3))
            return k, f"{t1}{{{{ {self.tstr()}{tail} }}}}{t2}", {}
        if k == "ternary":
            cond = r.pick(["flag", "x == y", "n > 1", "x contains y", "not flag", "l"])
            alt = r.pick([self.spath(), self.lit(), self.tstr()])
            f_alt = self.filters("str", 1)[0] if r.p(0.4) else ""
            tail = (" ||" + self.filters("str", r.i(1, 2))[0][2:]) if r.p(0.4) else ""
            return k, f"{t1}{{{{ {E} if {cond} else {alt}{f_alt}{tail} }}}}{t2}", {}
        if k == "translate":
            form = r.i(0, 2)
            if form == 0:
                return k, (f"{{% assign v = {E} %}}{{% translate a: v, b: {self.spath()} %}}{t1} {{{{ a }}}} {t2}"
                           f"{{{{ b }}}}{{% endtranslate %}}"), {}
            if form == 1:
                return k, (f"{{% assign v = {E} %}}{{% translate a: v, count: n, context: {self.spath()} %}}{t1}{{{{ a }}}}"
                           f"{{% plural %}}{t2}{{{{ a }}}} {{{{ count }}}}{{% endtranslate %}}"), {}
            left = r.pick([self.spath(), self.q(self.lit_raw() + "%(v)s%(w)s")])
            fname = r.pick(T_FILTERS)
            fl, _ = self.one_filter(fname, "str")
            extra = (", " if ":" in fl else ": ") + f"w: {self.spath()}"
            tail, _ = self.filters("str", r.i(0, 2))
            return k, f"{t1}{{{{ {left}{fl}{extra}{tail} }}}}{t2}", {}
        if k == "with":
            f1, _ = self.filters("any", r.i(0, 2))
            return k, f"{{% assign v = {E} %}}{{% with a: v, b: {self.spath()} %}}{t1}{{{{ a{f1} }}}}{{{{ b }}}}{{% endwith %}}", {}
        if k == "cycle":
            return k, f"{{% assign v = {E} %}}{{% for i in (1..3) %}}{{% cycle v, {self.spath()}, {self.lit()} %}}{t1}{{% endfor %}}", {}
        if k == "case":
            return k, (f"{{% case {self.spath()} %}}{{% when {self.lit()} %}}{t1}{{% when x, y %}}{{{{ {E} }}}}"
                       f"{{% else %}}{t2}{{{{ {self.chain(2)} }}}}{{% endcase %}}"), {}
        if k == "liquid":
            E1 = E.replace("\n", " ").replace("\t", " ")
            E2 = self.chain(2).replace("\n", " ").replace("\t", " ")
            return k, f"{{% liquid\nassign v = {E1}\necho v\nfor i in l\necho i | {r.pick(['upcase', 'escape', 'url_decode'])}\nendfor\necho {E2}\n%}}", {}
        if k == "dictkeys":
            f1, _ = self.filters("any", r.i(0, 2))
            what = r.pick(["d", "d | first", "u", "hs", "hs | map: kk", "d | json", "hs[0]", "d | first | last",
                           "d | sort", "hs | where: kk", "hs | find: kk, hs[0][kk]"])
            return k, f"{t1}{{{{ {what}{f1} }}}}{t2}", {}
        if k == "entity-cut":
            # author-requested cuts through escaped text: a bare `&` that is the head of an entity,
            # possibly followed by (a piece of) a tag - must not be attributed to the data
            p1 = self.spath()
            p2 = p1 if r.p(0.6) else self.spath()
            esc = r.pick(["escape", "escape", "strip_newlines", "newline_to_br", "url_encode | url_decode | escape"])
            cut = r.pick([f"slice: {r.i(0, 30)}, {r.i(1, 6)}", f"truncate: {r.i(1, 30)}, ''",
                          f"truncate: {r.i(1, 30)}, {self.spath()}", f"slice: {r.i(-12, -1)}"])
            nxt = r.pick([f"{{{{ {p2} | slice: 1, {TAG_LEN} }}}}", f"{{{{ {p2} | slice: 1, {TAG_LEN} | downcase }}}}",
                          f"{{{{ {p2} | slice: 1, 2 }}}}"])
            return k, f"{t1}{{{{ {p1} | {esc} | {cut} }}}}{nxt}{t2}", {}
        if k == "tablerow":
            f1, _ = self.filters("any", r.i(0, 2))
            it = r.pick(["l", "hs", "d"])
            item = {"hs": "i.k", "d": "i[0]"}.get(it, "i")
            cols = r.pick(["", " cols: 2", " cols: 1", " limit: 2"])
            src = f"{{% tablerow i in {it}{cols} %}}{t1}{{{{ {item}{f1} }}}}{{% endtablerow %}}"
            if r.p(0.3):
                tail, _ = self.filters("str", r.i(0, 2))
                src = f"{{% capture cap %}}{src}{{% endcapture %}}{{{{ cap{tail} }}}}"
                k = "tablerow-capture"
            return k, src, {}
        raise AssertionError(k)

    def extends_case(self) -> tuple[str, dict[str, str]]:
        r = self.r
        t1, t2 = self.text(), self.text()
        f1, _ = self.filters("str", r.i(0, 3))
        base = f"{t1}{{% block c %}}{t2}{{{{ {self.chain(3)} }}}}{{% endblock %}}{{% block e %}}{{{{ ctl }}}}{{% endblock %}}"
        mid = (f"{{% extends 'base' %}}{{% block c %}}{t1}{{{{ block.super{self.filters('str', r.i(0, 2))[0]} }}}}"
               f"{{{{ {self.chain(3)} }}}}{{% endblock %}}")
        use = r.i(0, 2)
        if use == 0:
            blk = f"{{{{ block.super{f1} }}}}{t2}{{{{ {self.chain(3)} }}}}"
        elif use == 1:
            blk = f"{{% assign s = block.super %}}{{{{ s{f1} }}}}{{{{ {self.chain(2)} | append: s }}}}"
        else:
            blk = f"{{% capture s %}}{{{{ block.super }}}}{{{{ x }}}}{{% endcapture %}}{{{{ s{f1} }}}}"
        parent = r.pick(["mid", "mid", "base"])
        main = f"{{% extends '{parent}' %}}{{% block c %}}{blk}{{% endblock %}}"
        return main, {"base": base, "mid": mid}


@st.composite
def chain_case(draw: Any) -> dict[str, Any]:
    r = R(draw)
    shopify = draw(st.booleans())
    data, owners = chain_data(r)
    g = Chains(r, shopify=shopify)
    if r.p(0.08):
        main, templates = g.extends_case()
        return {"kind": "chain", "shopify": shopify, "segments": [["extends", main]], "templates": templates,
                "data": data, "owners": owners, "ctl": "block", "mode": "async" if r.p(0.35) else "sync"}
    segs = []
    templates: dict[str, str] = {}
    undefined = "debug" if r.p(0.12) else "default"
    if undefined == "debug":
        # DebugUndefined prints the path that was looked up - a path that may hold data
        p1 = g.spath()
        segs.append(["debug-undef", r.pick([f"{{{{ d[{p1}] }}}}", f"{{{{ [{p1}] }}}}", f"{{{{ l[{p1}] }}}}",
                                            f"{{{{ d[{p1}].q | default: d[{p1}] }}}}", f"{{% cycle d[{p1}], d[{p1}] %}}",
                                            f"{{% for i in (1..2) %}}{{{{ hs[0][{p1}] }}}}{{% endfor %}}"])])
    for _ in range(r.pick([1, 1, 1, 2, 3])):
        k, src, tpl = g.segment()
        if tpl and templates:
            continue  # one partial definition per case keeps segments self-contained
        templates.update(tpl)
        segs.append([k, src])
    return {"kind": "chain", "shopify": shopify, "segments": segs, "templates": templates, "data": data,
            "owners": owners, "ctl": "tail", "mode": "async" if r.p(0.35) else "sync", "undefined": undefined}


# --------------------------------------------------------------------------- shared grammar generator over tainted data

PROG_CFG = Cfg(
    strings=lit_string, text=lit_text, safe_filter=False, shopify=True, tablerow=True, date=True, raw=False,
    confusion=0.04, max_filters=5, budget=12, max_depth=3, wc_rate=0.05,
)
PROG_CFG_PLAIN = Cfg(
    strings=lit_string, text=lit_text, safe_filter=False, shopify=False, tablerow=False, date=True, raw=False,
    confusion=0.04, max_filters=5, budget=10, max_depth=2,
)


def prog_data(r: R) -> tuple[dict[str, Any], list[str]]:
    """Tainted data over the fixed schema of lv.gen.grammar (SCHEMA)."""
    base = r.i(0, N_TAGS - 1)
    stride = 2 * r.i(0, 40) + 1
    cnt = [0]
    owners: list[str] = []

    def t(variant: int | None = None) -> str:
        tag = tag_of(base + cnt[0] * stride)
        cnt[0] += 1
        owners.append(tag)
        return taint(tag, r.pick([0, 0, 1, 2]) if variant is None else variant)

    def item() -> dict[str, Any]:
        it: dict[str, Any] = {"title": t(), "price": r.pick([1, 2.5, 10]), "ok": r.pick([True, False, None]),
                              "qty": r.i(0, 5)}
        if r.p(0.6):
            it["tags"] = [t() for _ in range(r.i(0, 2))]
        if r.p(0.3):
            it[t(0)] = t()
        return it

    user: dict[str, Any] = {"name": t(), "age": r.i(0, 9), "address": {"city": t(), "zip": t()}}
    if r.p(0.5):
        user[t(0)] = t()
    if r.p(0.3):
        user["first"] = t()
    data: dict[str, Any] = {
        "n": r.i(-2, 9), "m": r.i(0, 4), "f": 1.5, "s": t(), "t": t(), "flag": r.p(0.5),
        "nums": [r.i(0, 5) for _ in range(r.i(0, 3))],
        "words": [t() for _ in range(r.i(0, 3))],
        "items": [item() for _ in range(r.i(0, 3))],
        "user": user,
        "grid": [[1, 2], [3]],
        "key": r.pick(["title", "name", "tags", "missing", t(0)]),
        "idx": r.i(-1, 2),
        "é": t(),
        "a-b": r.i(0, 3),
        "ctl": t(0),
    }
    return data, owners


@st.composite
def prog_case(draw: Any) -> dict[str, Any]:
    r = R(draw)
    shopify = r.p(0.6)
    prog = draw(program_strategy(PROG_CFG if shopify else PROG_CFG_PLAIN))
    data, owners = prog_data(r)
    return {"kind": "prog", "shopify": shopify, "prog": prog, "layout": r.i(0, 30), "data": data, "owners": owners,
            "mode": "async" if r.p(0.35) else "sync"}


# --------------------------------------------------------------------------- deterministic part

def _enum_data() -> tuple[dict[str, Any], list[str]]:
    return chain_data(Det(7))


LEFT_BY_TYPE = {
    "str": ["x", "y", "l[0]", "d[kk]", "hs[0].k", "kk", "cap", "'0-' | append: x", "\"1${x}2\""],
    "seq": ["x", "l", "cap"],
    "list": ["l", "hs", "d", "x | split: y", "(1..2)"],
    "hashes": ["hs"],
    "num": ["n", "fl", "x"],
    "any": ["x", "l", "d", "nil", "cap"],
    "date": ["'2001-02-05 06:07:08'", "x", "1152098955"],
}
ARG_TAINTED = {"s": "y", "i": "n", "j": "2", "n": "y", "b": "y", "k": "kk", "L": "l", "a": "z", "f": "fmt", "u": "y"}
ARG_LITERAL = {"s": "'-'", "i": "2", "j": "2", "n": "2", "b": "true", "k": "'k'", "L": "(1..2)", "a": "'0'",
               "f": "'%Y'", "u": "'length-meter'"}
ENUM_PRELUDE = "{% capture cap %}{{ x }}-{{ y | newline_to_br }}{% endcapture %}"
ENUM_FOLLOWERS = ["", " | upcase", " | join: y", " | url_decode", " | strip_html", " | first", " | escape_once",
                  " | append: z", " | t"]


def _enum_filter_text(name: str, mode: int) -> list[str]:
    """Argument renderings of one filter: mode 0 tainted args, 1 literal args, 2 mixed."""
    _lt, pos, kws, _rt = ALL_FT[name]
    out = []
    for npos in sorted({len([k for k in pos if not k.endswith("?")]), len(pos)}):
        args = []
        for j, kind in enumerate(pos[:npos]):
            kind = kind.rstrip("?")
            tainted = mode == 0 or (mode == 2 and j % 2 == 0)
            args.append((ARG_TAINTED if tainted else ARG_LITERAL)[kind])
        for variant_kw in ([], kws):
            a = list(args)
            for kw, kind, _p in variant_kw:
                a.append(f"{kw}: {(ARG_TAINTED if mode != 1 else ARG_LITERAL)[kind]}")
            out.append(" | " + name + (": " + ", ".join(a) if a else ""))
    return sorted(set(out))


def enum_cases() -> Any:
    data, owners = _enum_data()

    def mk(expr: str, shopify: bool) -> dict[str, Any]:
        site = "enum-cap" if "cap" in expr.replace("capitalize", "") else "enum"
        return {"kind": "chain", "shopify": shopify, "segments": [[site, ENUM_PRELUDE + "{{ " + expr + " }}"]],
                "templates": {}, "data": data, "owners": owners, "ctl": "tail"}

    # 1. every filter x left kind x argument taint pattern x follower
    for name in ALL_FT:
        shopify = name in SHOPIFY_FT
        lt = ALL_FT[name][0]
        lefts = list(LEFT_BY_TYPE[lt])
        if name in T_FILTERS:
            lefts += ["'0 %(v)s 1'"]
        for left in lefts:
            for mode in (0, 1, 2):
                for ftxt in _enum_filter_text(name, mode):
                    for fol in ENUM_FOLLOWERS:
                        yield mk(left + ftxt + fol, shopify)
    # 2. every ordered pair of string -> string filters over plain and Markup-carried taint
    strf = [n for n, spec in ALL_FT.items() if spec[0] == "str" and spec[3] == "str"]
    for f1 in strf:
        a1 = _enum_filter_text(f1, 0)[-1]
        for f2 in strf:
            a2 = _enum_filter_text(f2, 2)[-1]
            shopify = f1 in SHOPIFY_FT or f2 in SHOPIFY_FT
            yield mk("x" + a1 + a2, shopify)
            yield mk("cap" + a1 + a2, shopify)
    # 3. list producers x join separators
    for prod in ["l", "x | split: y", "x | split: ''", "hs | map: 'k'", "hs | map: kk", "d | first", "l | concat: hs",
                 "l | sort", "l | uniq", "l | reverse", "hs | where: 'k' | map: 'k'", "l | compact", "l | slice: 0, 2",
                 "d", "u | first", "hs | map: i => i.k", "l | sort_natural", "l | default: y"]:
        for sep in ["", ": y", ": ' '", ": '-'", ": cap", ": n", ": ''"]:
            for fol in ["", " | upcase", " | strip_html", " | url_decode"]:
                yield mk(prod + " | join" + sep + fol, False)
    # 4. author-requested cuts through escaped text (entity heads followed by a tag): exercises the O2 protocol
    for a in range(0, 34):
        for cut in (f"slice: {a}, 1", f"truncate: {a + 1}, ''", f"slice: {a}, 2"):
            for esc in ("escape", "strip_newlines", "append: ''"):
                left = "x" if esc != "append: ''" else "'' | append: x"
                esc2 = esc if esc != "append: ''" else "upcase | downcase | upcase"
                case = mk(f"{left} | {esc2} | {cut} }}}}{{{{ x | slice: 1, {TAG_LEN}", False)
                case["segments"][0][0] = "entity-cut"
                yield case


# --------------------------------------------------------------------------- filter-call log


class _Logged:
    """Transparent wrapper around a registered filter that records every call."""

    def __init__(self, name: str, inner: Any, log: list[list[Any]]) -> None:
        self._c04_name = name
        self._c04_inner = inner
        self._c04_log = log

    def __call__(self, left: Any, *args: Any, **kwargs: Any) -> Any:
        entry = [self._c04_name, left, args,
                 {k: v for k, v in kwargs.items() if k not in ("context", "environment")}, _PENDING]
        self._c04_log.append(entry)
        rv = self._c04_inner(left, *args, **kwargs)
        entry[4] = rv
        return rv

    def __getattr__(self, item: str) -> Any:
        return getattr(self._c04_inner, item)


_PENDING = object()


def tags_in(val: Any, owners: list[str], depth: int = 3) -> set[str]:
    if isinstance(val, str):
        up = val.upper()
        return {t for t in owners if t in up}
    if depth <= 0:
        return set()
    out: set[str] = set()
    if isinstance(val, (list, tuple)):
        for v in val[:20]:
            out |= tags_in(v, owners, depth - 1)
    elif isinstance(val, dict):
        for k, v in list(val.items())[:20]:
            out |= tags_in(k, owners, depth - 1)
            out |= tags_in(v, owners, depth - 1)
    return out


def unsafe_markup(val: Any, ch: str, owners: list[str], depth: int = 3) -> bool:
    """Does `val` hold a value already marked safe that carries a raw `ch` next to data?"""
    if isinstance(val, str):
        if not hasattr(val, "__html__"):
            return False
        s = RE_ENGINE.sub("\x1f", str(val))
        if ch == "&":
            return any(m.group(1).upper() in owners for m in RE_AMP_TAG.finditer(s))
        return ch in s
    if depth <= 0:
        return False
    if isinstance(val, (list, tuple)):
        return any(unsafe_markup(v, ch, owners, depth - 1) for v in val[:20])
    if isinstance(val, dict):
        return any(unsafe_markup(v, ch, owners, depth - 1) for v in val.values())
    return False


def root_filter(log: list[list[Any]], ch: str, owners: list[str]) -> str | None:
    """First logged call that turned safe-looking inputs into an unsafe Markup result."""
    for name, left, args, kwargs, rv in log:
        if rv is _PENDING:
            continue
        if unsafe_markup(rv, ch, owners):
            if unsafe_markup(left, ch, owners) or unsafe_markup(list(args), ch, owners) or \
                    unsafe_markup(list(kwargs.values()), ch, owners):
                continue  # passed through, not produced here
            return name
    return None


# --------------------------------------------------------------------------- the property

BOUNDARY_KINDS = {"capture", "capture-for", "render", "include", "macro", "extends", "enum-cap", "tablerow-capture"}
BOUNDARY_STMTS = {"capture", "render", "include", "call"}


def _has_stmt(stmts: list[dict[str, Any]], kinds: set[str]) -> bool:
    for s in stmts:
        if s["t"] in kinds:
            return True
        for key in ("body", "else"):
            if isinstance(s.get(key), list) and _has_stmt(s[key], kinds):
                return True
        for _c, b in s.get("elsifs") or []:
            if _has_stmt(b, kinds):
                return True
        for _v, b in s.get("whens") or []:
            if _has_stmt(b, kinds):
                return True
    return False


def clean(out: str) -> str:
    return RE_ENGINE.sub("\x1f", out)


class _PlainCatalog:
    """A catalog that has an entry for every message: plain str results, placeholders kept."""

    def gettext(self, message: str) -> str:
        return "tr[" + str(message) + "]"

    def ngettext(self, singular: str, plural: str, n: int) -> str:
        return "tr[" + str(singular if n == 1 else plural) + "]"

    def pgettext(self, context: str, message: str) -> str:
        return "tr[" + str(message) + "]"

    def npgettext(self, context: str, singular: str, plural: str, n: int) -> str:
        return "tr[" + str(singular if n == 1 else plural) + "]"


class C04(Prop):
    id = "C04"
    title = "Auto-escape: untrusted data never reaches the output unescaped"
    technique = ("property-based testing: taint tracking by construction (per-string unique tags), scan of the output "
                 "for raw HTML-significant characters, differential re-renders to attribute a hit to data, positive "
                 "control with `safe`")
    rule = (
        "Environment(auto_escape=True), default and Shopify registries; (a) dedicated chains `{{ left | f1: a | f2 .. }}` "
        "of <= 5 filters over every registered filter except `safe`, tainted left values and tainted arguments, wrapped in "
        "output/echo/assign/capture/include/render(kwargs, with, for)/macro/for/template string/ternary/translate tag and "
        "t-filters/with/cycle/case/liquid/dict keys/tablerow/block.super in an extends chain; (b) programs of the shared "
        "grammar generator with restricted literals over tainted data; (c) deterministic: every filter x left kind x "
        "argument taint pattern x follower, every ordered pair of string filters, list producers x join separators. "
        "Every str in the data is `<TAG>&TAG'TAG\"` (unique TAG over BCDEFHIJKNRSVWYZ), as scalars, list items, dict "
        "values, dict keys, filter arguments, date/number formats and message variables; literals use an alphabet "
        "without HTML-significant or entity characters. A case is non-trivial when the render succeeds, the output "
        "contains >= 1 escaped entity and a tainted value that occurs in the output went through >= 2 logged filter "
        "calls feeding one another (object identity in the filter-call log), or the rendered program passes values "
        "through a capture/partial/macro/block.super boundary and a tainted value occurs in the output; distinct by "
        "SHA-1 of the case"
    )
    assumptions = [
        "data strings are plain str (never Markup / __html__); translations are the default NullTranslations, or (half of the cases) a catalog whose entries are plain strings",
        "fixed engine-produced markup (<br />, tablerow <tr>/<td> tags) is removed case-insensitively before scanning; "
        "a raw < > ' \" that does not react to swapping the character in the data (fragment of engine markup cut or "
        "re-cased by an author-requested filter) is attributed to the engine, and only tolerated when the program "
        "uses newline_to_br or tablerow",
        "a bare & attached to a TAG is a violation only if it follows the data under two re-renders (& -> § shows §TAG, "
        "& -> < no longer shows &TAG): the head of an engine-produced entity cut by an author-requested slice is not "
        "data-originated",
        "structural literals (property names k/n, date directives, unit identifiers, %(v)s placeholders) are fixed "
        "ASCII words without HTML-significant characters and without ';'",
        "a render that raises is outside the property (no output)",
    ]
    batch = 250

    def n_random(self, tier: str) -> int:
        return 20000 if tier == "quick" else 480000

    def strategy(self, tier: str, disabled: frozenset[str]):
        return st.one_of(chain_case(), chain_case(), chain_case(), chain_case(), prog_case())

    def enumerate(self, tier: str, disabled: frozenset[str]):
        for i, case in enumerate(enum_cases()):
            yield dict(case, mode="async") if i % 4 == 3 else case

    def budget_s(self, tier: str) -> float:
        return 240 if tier == "quick" else 3000

    # ------------------------------------------------------------------ rendering

    def _sources(self, case: dict[str, Any], *, control: bool) -> tuple[str, dict[str, str]]:
        sentinel = "{{ ctl | safe }}" if control else "{{ ctl }}"
        if case["kind"] == "prog":
            lay = case["layout"]
            main = to_source(case["prog"]["main"], lay) + sentinel
            templates = {k: to_source(v, lay) for k, v in case["prog"]["templates"].items()}
            return main, templates
        main = "".join(s[1] for s in case["segments"])
        templates = dict(case["templates"])
        if case.get("ctl") == "block":
            if control:
                templates["base"] = templates["base"].replace("{{ ctl }}", sentinel)
        else:
            main += sentinel
        return main, templates

    def _render(self, main: str, templates: dict[str, str], data: dict[str, Any], shopify: bool,
                log: list[list[Any]] | None = None, mode: str = "sync") -> tuple[str, Any]:
        if len(main.replace("{{ ctl | safe }}", "{{ ctl }}")) % 2 and "translations" not in data:
            # half of the cases have a real catalog: its entries are plain strings (trusted text, not markup),
            # unlike the escaped message ids that come back when nothing is translated
            data = dict(data)
            data["translations"] = _PlainCatalog()
        env = make_env(templates, shopify=shopify, auto_escape=True,
                       undefined=DebugUndefined if getattr(self, "_undefined", None) == "debug" else None)
        if log is not None:
            for name in list(env.filters):
                env.filters[name] = _Logged(name, env.filters[name], log)
        try:
            if mode == "async":
                return "ok", run_coro(env.from_string(main).render_async(**data))
            return "ok", env.from_string(main).render(**data)
        except LiquidError as err:
            return "err", err
        except RecursionError as err:
            return "err", err

    # ------------------------------------------------------------------ check

    def check(self, case: Any, disabled: frozenset[str] = frozenset()) -> Result:  # noqa: PLR0912, PLR0915
        res = Result()
        owners: list[str] = case["owners"]
        data: dict[str, Any] = case["data"]
        shopify: bool = case["shopify"]
        main, templates = self._sources(case, control=False)
        self._undefined = case.get("undefined")
        mode: str = case.get("mode", "sync")
        res.labels.append("kind:" + case["kind"])
        res.labels.append("mode:" + mode)

        log: list[list[Any]] = []
        try:
            status, out = self._render(main, templates, data, shopify, log, mode)
        except Exception as err:  # noqa: BLE001 - a crash is C02's business; nothing was output
            res.labels.append("crash:" + exc_bucket(err))
            self._label_filters(log, owners, res)
            return res
        self._label_filters(log, owners, res)
        if status == "err":
            res.labels.append("render-error:" + type(out).__name__)
            return res
        res.labels.append("rendered")
        evaluations = 1
        cleaned = clean(out)
        uses_engine_markup = any(s in main or any(s in t for t in templates.values()) for s in ENGINE_SOURCES)

        def rerender(d: dict[str, Any]) -> str | None:
            nonlocal evaluations
            evaluations += 1
            try:
                st_, o = self._render(main, templates, d, shopify, None, mode)
            except Exception:  # noqa: BLE001
                return None
            return clean(o) if st_ == "ok" else None

        # ---- O1: raw < > ' "
        for ch in SPECIALS:
            n0 = cleaned.count(ch)
            if not n0:
                continue
            swapped = rerender(mutate(data, ch, SWAP[ch]))
            if swapped is None:
                res.fail("O1", f"raw-unconfirmable:{CHAR_CLASS[ch]}",
                         f"raw {ch!r} in output and the confirming re-render failed; src={main!r} out={out!r}")
                continue
            n1 = swapped.count(ch)
            if n1 < n0:
                root = root_filter(log, ch, owners) or self._site(case, ch, owners)
                res.fail("O1", f"unescaped:{CHAR_CLASS[ch]}:{root}",
                         f"{n0 - n1} data-originated raw {ch!r}; src={main!r} templates={templates!r} out={out!r}")
            elif uses_engine_markup:
                res.labels.append("engine-markup-fragment")
            else:
                res.fail("O1", f"raw-not-from-data:{CHAR_CLASS[ch]}",
                         f"raw {ch!r} that is neither data nor known engine markup; src={main!r} out={out!r}")

        # ---- O2: & still attached to its tag
        cands = [m for m in RE_AMP_TAG.finditer(cleaned) if m.group(1).upper() in owners]
        if cands:
            res.labels.append("amp-candidate")
        seen_owner: set[str] = set()
        for m in cands:
            owner = m.group(1).upper()
            if owner in seen_owner or len(seen_owner) >= 3:
                continue
            seen_owner.add(owner)
            verdict = self._confirm_amp(cleaned, owner, data, rerender)
            if verdict == "data":
                root = root_filter(log, "&", owners) or self._site(case, "&", owners)
                res.fail("O2", f"unescaped:amp:{root}",
                         f"raw & of the string tagged {owner} reached the output; src={main!r} templates={templates!r} "
                         f"out={out!r}")
            elif verdict == "unconfirmable":
                res.fail("O2", "amp-unconfirmable", f"confirming re-render failed; src={main!r} out={out!r}")
            else:
                res.labels.append("amp-entity-head")

        # ---- O3: positive control
        cmain, ctemplates = self._sources(case, control=True)
        evaluations += 1
        try:
            cst, cout = self._render(cmain, ctemplates, data, shopify, None, mode)
        except Exception:  # noqa: BLE001
            cst, cout = "err", None
        raw_ctl = data["ctl"]
        if cst != "ok" or raw_ctl not in cout:
            res.fail("O3", "control:no-raw", f"`ctl | safe` did not show {raw_ctl!r}; src={cmain!r} out={cout!r}")
        else:
            ccl = clean(cout)
            ctag = tags_in(raw_ctl, owners)
            ok = all(ccl.count(ch) > cleaned.count(ch) for ch in SPECIALS)
            amp = [m for m in RE_AMP_TAG.finditer(ccl) if {m.group(1).upper()} == ctag]
            if not ok or not amp:
                res.fail("O3", "control:scanner-blind", f"scanner misses the raw control; out={cout!r}")
            else:
                res.labels.append("control-ok")
        # the sentinel itself must be escaped in the main render
        if raw_ctl in out:
            res.fail("O1", "unescaped:sentinel", f"plain `{{{{ ctl }}}}` printed raw; src={main!r} out={out!r}")

        # ---- non-triviality
        has_entity = bool(RE_ENTITY.search(out))
        if has_entity:
            res.labels.append("entity")
        out_tags = tags_in(out, owners) - tags_in(raw_ctl, owners)
        if out_tags:
            res.labels.append("carries-taint")
        deep = self._chain_depth(log, owners, out_tags) >= 2
        if case["kind"] == "prog":
            boundary = _has_stmt(case["prog"]["main"], BOUNDARY_STMTS)
        else:
            boundary = any(s[0] in BOUNDARY_KINDS for s in case["segments"])
        if deep:
            res.labels.append("chain>=2")
        if boundary and out_tags:
            res.labels.append("boundary")
        res.nontrivial = bool(has_entity and out_tags and (deep or boundary))
        for s in case.get("segments") or []:
            res.labels.append("site:" + s[0])
        res.evaluations = evaluations
        return res

    # ------------------------------------------------------------------ helpers

    def _confirm_amp(self, cleaned: str, owner: str, data: dict[str, Any],
                     rerender: Callable[[dict[str, Any]], str | None]) -> str:
        """'data' | 'engine' | 'unconfirmable' for the `&OWNER` occurrences of `cleaned`."""

        def positions(s: str) -> list[int]:
            return [m.start() for m in re.finditer(re.escape(owner), s, re.I)]

        p0 = positions(cleaned)
        hits = [k for k, p in enumerate(p0) if p > 0 and cleaned[p - 1] == "&"]
        # Swap the owner's `&` for the two characters whose escaped forms are as long as `&amp;`
        # (`&#39;`, `&#34;`): every offset in escaped and in raw text is preserved, so a slice or
        # truncate that cuts an entity cuts the same entity in the re-renders.  A data `&` that reached
        # the output raw shows up as a raw `'` / `"` at the same place; the head of a cut entity stays `&`.
        r1 = rerender(mutate(data, "&", "'", owner))
        r2 = rerender(mutate(data, "&", '"', owner))
        if r1 is None or r2 is None:
            return "unconfirmable"
        p1, p2 = positions(r1), positions(r2)
        for k in hits:
            if len(p1) == len(p0) == len(p2):
                a = r1[p1[k] - 1] if p1[k] > 0 else ""
                b = r2[p2[k] - 1] if p2[k] > 0 else ""
                if a == "'" and b == '"':
                    return "data"
            else:
                base1, base2 = cleaned.upper().count("'" + owner), cleaned.upper().count('"' + owner)
                if r1.upper().count("'" + owner) > base1 and r2.upper().count('"' + owner) > base2:
                    return "data"
        return "engine"

    def _site(self, case: dict[str, Any], ch: str, owners: list[str]) -> str:
        """Construct to blame when no filter produced the unsafe value: the first segment
        that fails on its own (dedicated cases) or 'program'."""
        if case["kind"] == "prog":
            return "program"
        segs = case["segments"]
        if len(segs) == 1:
            return "site=" + segs[0][0]
        for kind, src in segs:
            try:
                st_, out = self._render(src, case["templates"], case["data"], case["shopify"])
            except Exception:  # noqa: BLE001
                continue
            if st_ != "ok":
                continue
            c = clean(out)
            if ch == "&":
                if any(m.group(1).upper() in owners for m in RE_AMP_TAG.finditer(c)):
                    return "site=" + kind
            elif ch in c:
                return "site=" + kind
        return "site=" + "+".join(s[0] for s in segs)

    def _chain_depth(self, log: list[list[Any]], owners: list[str], out_tags: set[str]) -> int:
        """Longest run of filter calls feeding one another (by object identity) that carried a
        tag which also occurs in the output."""
        depth: dict[int, int] = {}
        best = 0
        for _name, left, args, kwargs, rv in log:
            if rv is _PENDING:
                continue
            got = tags_in(rv, owners) & out_tags
            if not got:
                continue
            d_in = 0
            for v in (left, *args, *kwargs.values()):
                if tags_in(v, owners) & got:
                    d_in = max(d_in, depth.get(id(v), 0))
            d = d_in + 1
            depth[id(rv)] = max(depth.get(id(rv), 0), d)
            best = max(best, d)
        return best

    def _label_filters(self, log: list[list[Any]], owners: list[str], res: Result) -> None:
        seen: set[str] = set()
        for name, left, args, kwargs, _rv in log:
            if tags_in(left, owners):
                seen.add("tleft:" + name)
            if tags_in(list(args), owners) or tags_in(list(kwargs.values()), owners):
                seen.add("targ:" + name)
        res.labels.extend(sorted(seen))

    def sample(self, case: Any) -> Any:
        main, templates = self._sources(case, control=False)
        return {"kind": case["kind"], "src": main[:400], "templates": {k: v[:120] for k, v in templates.items()}}


PROP = C04()
