"""C06 - configured resource limits are hard bounds.

Every program is first run without any limit and *measured*; limit values are then
enumerated around the measured consumption and each limited run is judged by a
two-sided oracle (must fail above, must be identical below, free in the documented
grey zone).

Measurements (none of them uses the limit bookkeeping of the library):

  O   len(out.encode()) of the unrestricted render (plain StringIO, no limit)
  W   sum of bytes written to every LimitedStringIO created during a render under a
      10**12 limit (main + capture + block.super buffers, registered by a constructor
      hook) - an upper bound of what any single buffer can be charged with
  I   executed iterations of a loop nest: the generator brackets every loop construct
      with blank probe statements `{% if tick.eK[<iterable>.size] %}{% endif %}` (entry,
      reports the length), `{% if tick.bK %}{% endif %}` (first statement of the body)
      and `{% if tick.xK %}{% endif %}` (exit).  `tick` is a data-side drop that logs
      the lookups.  The log is replayed on a stack; for every loop activation and every
      loop nested below it (across render / include / macro / block / super
      boundaries) body executions are counted; I is the maximum
  P   max over loop entries of the product of the lengths of all active loops,
      recomputed from the same log and the `limit:` arguments in our AST.  `render ..
      for`, `include .. for` and `tablerow` count as loops (docs/environment.md: "Other
      built in tags that contribute to the loop iteration counter are `render`,
      `include` (when using their `{% render 'thing' for some.thing %}` syntax) and
      `tablerow`.")
  S   local namespace: a RenderContext subclass records, after every assign/capture
      in every (copied) context, sum(sys.getsizeof(v)) of that context's own locals
      (S_hard = max, independent) and the library's get_size_of_locals() under a
      10**15 limit (S_soft = max, includes the carry of parent contexts)
"""

from __future__ import annotations

import re
import sys
from collections.abc import Mapping
from io import StringIO
from typing import Any

from hypothesis import strategies as st

from lv.core.runner import CaseTimeout
from lv.core.runner import Prop
from lv.core.runner import Result
from lv.core.runner import exc_bucket
from lv.gen.printer import to_source
from lv.harness.envs import make_env
from lv.harness.envs import run_coro

import liquid2.output as _lq_output
from liquid2 import CachingDictLoader
from liquid2 import RenderContext
from liquid2.exceptions import ContextDepthError
from liquid2.exceptions import LiquidError
from liquid2.exceptions import LocalNamespaceLimitError
from liquid2.exceptions import LoopIterationLimitError
from liquid2.exceptions import OutputStreamLimitError
from liquid2.exceptions import TemplateInheritanceError

HUGE_OUT = 10**12
HUGE_NS = 10**15
MAX_DEPTH = 4
WORK_BOUND = 500  # static bound on loop body executions of one render

LOOP_CONSTRUCTS = ("for", "tablerow", "render-for", "include-for")
OUTER_FLAGS = {"render-for": "render-for-outer", "include-for": "include-for-outer", "tablerow": "tablerow-outer"}

TEXTS = ["x", "yz", "a\r\nb", "c\rd", "e\n", "\r\n.", "é", "日本", "😀", "<b>", "-", "q\r"]
BLANK_TEXTS = [" ", "\n", " \r\n ", "\t", "\r", "  "]
SCALARS = [1, 2, 7, "s", "é", "a\r\nb", "😀x", 3.5, "", "r\r"]


# --------------------------------------------------------------------------- probes


class _Sub(Mapping):  # tick.eK[...]
    def __init__(self, log: list[tuple], lid: int) -> None:
        self.log = log
        self.lid = lid

    def __getitem__(self, k: object) -> object:
        self.log.append(("e", self.lid, k if isinstance(k, int) and not isinstance(k, bool) else 0))
        return False

    def __len__(self) -> int:
        return 0

    def __iter__(self):
        return iter(())


class Tick(Mapping):
    """Data-side probe.  Every lookup is logged; nothing is ever rendered."""

    def __init__(self) -> None:
        self.log: list[tuple] = []
        self.q: dict[str, int] = {}

    def __getitem__(self, k: object) -> object:
        if not isinstance(k, str) or len(k) < 2:
            raise KeyError(k)
        kind = k[0]
        if kind == "e":
            return _Sub(self.log, int(k[1:]))
        if kind in "bx":
            self.log.append((kind, int(k[1:])))
            return False
        if kind == "q":  # qK_n : true on every n-th lookup
            n = int(k.split("_")[1])
            c = self.q.get(k, 0) + 1
            self.q[k] = c
            return c % n == 0
        raise KeyError(k)

    def __len__(self) -> int:
        return 0

    def __iter__(self):
        return iter(())


_NS_REC: list[tuple[int, int]] | None = None
_BUF_REC: list[Any] | None = None


def _own_size(ctx: RenderContext) -> int:
    return sum(sys.getsizeof(v, 1) for v in ctx.locals.values())


class MeasCtx(RenderContext):
    """RenderContext that reports the size of the local namespace after every assignment.
    `copy()` instantiates `self.__class__`, so partial / macro / block contexts report too."""

    __slots__ = ()

    def assign(self, key: str, val: object) -> None:
        try:
            super().assign(key, val)
        finally:
            if _NS_REC is not None:
                _NS_REC.append((_own_size(self), self.get_size_of_locals()))


_HOOKED = False


def _install_buffer_hook() -> None:
    """Register every LimitedStringIO that is constructed (observation only)."""
    global _HOOKED
    if _HOOKED:
        return
    cls = _lq_output.LimitedStringIO
    orig = cls.__init__

    def __init__(self: Any, *a: Any, **k: Any) -> None:
        orig(self, *a, **k)
        if _BUF_REC is not None:
            _BUF_REC.append(self)

    cls.__init__ = __init__  # type: ignore[method-assign]
    _HOOKED = True


# --------------------------------------------------------------------------- AST helpers


def _path(root: str, *names: str) -> list[Any]:
    return ["path", root, [["n", n] for n in names]]


def _probe(path: list[Any]) -> dict[str, Any]:
    return {"t": "if", "cond": path, "body": []}


def _etick(lid: int, size_seg: list[Any]) -> dict[str, Any]:
    return _probe(["path", "tick", [["n", f"e{lid}"], size_seg]])


def _btick(lid: int) -> dict[str, Any]:
    return _probe(_path("tick", f"b{lid}"))


def _xtick(lid: int) -> dict[str, Any]:
    return _probe(_path("tick", f"x{lid}"))


def _sub_bodies(s: dict[str, Any]) -> list[list[dict[str, Any]]]:
    out = []
    for key in ("body", "else"):
        if isinstance(s.get(key), list):
            out.append(s[key])
    return out


def loop_construct(s: dict[str, Any]) -> str | None:
    t = s["t"]
    if t in ("for", "tablerow"):
        return t
    if t in ("render", "include") and s.get("loop") and s.get("var") is not None:
        return t + "-for"
    return None


def collect_loops(prog: dict[str, Any]) -> dict[int, dict[str, Any]]:
    """lid -> {"c": construct, "limit": int|None, "via": [boundary kinds between the
    lexically/dynamically enclosing loop and this one], "parent": lid|None}.
    Every partial / macro / block body has exactly one call site, so the static nest is
    the dynamic nest."""
    loops: dict[int, dict[str, Any]] = {}
    templates = prog["templates"]
    macros: dict[str, list[dict[str, Any]]] = {}
    seen_tpl: set[str] = set()

    def walk(stmts: list[dict[str, Any]], parent: int | None, via: tuple[str, ...]) -> None:
        for s in stmts:
            t = s["t"]
            c = loop_construct(s)
            if c is not None and "lid" in s:
                lim = s.get("limit")
                loops[s["lid"]] = {"c": c, "limit": lim[1] if lim is not None else None,
                                   "via": list(via), "parent": parent}
                if t in ("for", "tablerow"):
                    walk(s["body"], s["lid"], ())
                else:
                    name = s["name"][1]
                    if name in templates and name not in seen_tpl:
                        seen_tpl.add(name)
                        walk(templates[name], s["lid"], (t,))
                continue
            if t in ("render", "include"):
                name = s["name"][1]
                if name in templates and name not in seen_tpl:
                    seen_tpl.add(name)
                    walk(templates[name], parent, (*via, t))
            elif t == "macro":
                macros[s["name"]] = s["body"]
            elif t == "call":
                body = macros.pop(s["name"], None)
                if body is not None:
                    walk(body, parent, (*via, "call"))
            elif t == "block":
                walk(s["body"], parent, (*via, "block"))
            elif t == "capture":
                walk(s["body"], parent, (*via, "capture"))
            else:
                for b in _sub_bodies(s):
                    walk(b, parent, via)
                if t == "out" and s.get("super_of") is not None:
                    body = prog.get("chain_bodies", {}).get(s["super_of"])
                    if body is not None:
                        walk(body, parent, (*via, "super"))

    walk(prog["main"], None, ())
    return loops


def nest_stats(log: list[tuple], loops: dict[int, dict[str, Any]], excluded: frozenset[str]) -> dict[str, Any]:
    """Replay the probe log.  Returns P (max product of active lengths at a loop entry),
    I (max body executions of a loop nest) with and without the excluded outer
    constructs, the maximal nest depth and the lids of the argmax nests."""
    stack: list[tuple[int, int, int]] = []  # (lid, length, activation)
    counts: dict[tuple[int, tuple[int, ...]], int] = {}
    counts_x: dict[tuple[int, tuple[int, ...]], int] = {}
    act = 0
    p_full = 0
    p_path: tuple[int, ...] = ()
    depth = 0
    for ev in log:
        typ, lid = ev[0], ev[1]
        meta = loops.get(lid)
        if meta is None:
            continue
        if typ == "e":
            size = ev[2]
            lim = meta["limit"]
            length = size if lim is None else min(size, max(lim, 0))
            prod = length
            for _l, ln, _a in stack:
                prod *= ln
            act += 1
            stack.append((lid, length, act))
            depth = max(depth, len(stack))
            if prod > p_full:
                p_full = prod
                p_path = tuple(f[0] for f in stack)
        elif typ == "b":
            while stack and stack[-1][0] != lid:
                stack.pop()  # a loop left through break / an error
            if not stack:
                continue
            n = len(stack)
            blocked = False
            for j in range(n - 1, -1, -1):
                key = (stack[j][2], tuple(f[0] for f in stack[j:]))
                counts[key] = counts.get(key, 0) + 1
                if j < n - 1 and loops[stack[j][0]]["c"] in excluded:
                    blocked = True
                if not blocked:
                    counts_x[key] = counts_x.get(key, 0) + 1
        elif typ == "x":
            while stack and stack[-1][0] != lid:
                stack.pop()
            if stack:
                stack.pop()
    i_full, i_path = 0, ()
    for (_a, pth), c in counts.items():
        if c > i_full or (c == i_full and len(pth) < len(i_path)):
            i_full, i_path = c, pth
    i_x = max(counts_x.values(), default=0)
    return {"P": p_full, "P_path": p_path, "I": i_full, "I_path": i_path, "I_x": i_x, "depth": depth,
            "counts": counts}


def worst_nest(counts: dict[tuple[int, tuple[int, ...]], int], limit: int, loops: dict[int, dict[str, Any]],
               excluded: frozenset[str]) -> tuple[int, tuple[int, ...]]:
    """Smallest (shortest path) nest whose count exceeds `limit` and that has no excluded
    construct in an outer position."""
    best: tuple[int, tuple[int, ...]] = (0, ())
    for (_a, pth), c in counts.items():
        if c <= limit or any(loops[k]["c"] in excluded for k in pth[:-1]):
            continue
        if not best[1] or len(pth) < len(best[1]) or (len(pth) == len(best[1]) and c > best[0]):
            best = (c, pth)
    return best


def nest_bucket(path: tuple[int, ...], loops: dict[int, dict[str, Any]]) -> str:
    """Root cause name of a nest that ran past the limit: the first loop construct in a
    non-innermost position that is not a plain `for` together with the loop directly
    below it; if all outer loops are plain `for`s, the boundary kinds crossed."""
    cs = [loops[k]["c"] for k in path]
    for i, c in enumerate(cs[:-1]):
        if c != "for":
            return f"{c}-{cs[i + 1]}"
    via: list[str] = []
    for k in path[1:]:
        for v in loops[k]["via"]:
            if v not in via:
                via.append(v)
    if "super" in via:
        via = ["super"]  # block.super renders the parent block in the base context: the suspicious boundary
    if len(cs) == 1:
        return f"single-{cs[0]}"
    return f"for-[{'+'.join(via) if via else 'direct'}]-{cs[-1]}"


# --------------------------------------------------------------------------- program generator


class _Gen:
    def __init__(self, draw: Any) -> None:
        self.draw = draw
        self.k = 0
        self.budget = 20
        self.templates: dict[str, list[dict[str, Any]]] = {}
        self.chain_bodies: dict[str, list[dict[str, Any]]] = {}
        self.caps: list[str] = []
        self.tablerow = False
        self.levels = 0  # number of overriding templates (0 = no inheritance chain)
        self.block_placed = False
        self.block_scope: list[tuple[str, str]] = []

    def i(self, lo: int, hi: int) -> int:
        return self.draw(st.integers(lo, hi))

    def pick(self, seq: list[Any]) -> Any:
        return seq[self.i(0, len(seq) - 1)]

    def nid(self) -> int:
        self.k += 1
        return self.k

    # ---- statements

    def block(self, depth: int, scope: list[tuple[str, str]], fl: dict[str, Any], blank: bool) -> list[dict[str, Any]]:
        out: list[dict[str, Any]] = []
        if not blank and depth >= 1:
            # inheritance constructs are only interesting inside a loop: place them eagerly
            if fl.get("can_block") and not self.block_placed and self.i(0, 1):
                out.extend(self.blockdef(depth, scope))
            if fl.get("super") is not None and fl["super"] not in self.chain_bodies and self.i(0, 1):
                out.extend(self.super_item(depth, fl))
        for _ in range(self.i(1, 3)):
            if self.budget <= 0:
                break
            self.budget -= 1
            out.extend(self.item(depth, scope, fl, blank))
        return out

    def super_item(self, depth: int, fl: dict[str, Any]) -> list[dict[str, Any]]:
        lv = fl["super"]  # name of the level whose body `block.super` renders
        parent_fl = {"iso": False, "forloop": False, "loopctx": None, "can_block": False,
                     "super": self.parent_of(lv)}
        self.chain_bodies[lv] = []  # reserve: at most one `block.super` per level
        self.budget = max(self.budget, 4)
        self.chain_bodies[lv] = self.top(depth, parent_fl, self.block_scope)
        return [{"t": "out", "e": _path("block", "super"), "super_of": lv}]

    def item(self, depth: int, scope: list[tuple[str, str]], fl: dict[str, Any], blank: bool) -> list[dict[str, Any]]:  # noqa: PLR0911, PLR0912, PLR0915
        if blank:
            kinds = ["wtext", "assign", "capture", "if"]
            if depth < MAX_DEPTH:
                kinds += ["loop", "loop"]
        else:
            kinds = ["text", "out", "assign", "capture", "if", "render", "call"]
            if depth < MAX_DEPTH:
                kinds += ["loop"] * (7 if 1 <= depth <= 2 else 4)
            if not fl.get("iso"):
                kinds.append("include")
            if fl.get("can_block") and not self.block_placed:
                kinds += ["blockdef", "blockdef"]
            if fl.get("super") is not None and fl["super"] not in self.chain_bodies:
                kinds += ["super"] * 4
        if fl.get("loopctx"):
            kinds.append("break")
        kind = self.pick(kinds)

        if kind == "text":
            return [{"t": "text", "s": self.pick(TEXTS)}]
        if kind == "wtext":
            return [{"t": "text", "s": self.pick(BLANK_TEXTS)}]
        if kind == "out":
            opts: list[list[Any]] = [["str", self.pick(TEXTS)]]
            opts += [_path(n) for n, k in scope if k == "s"]
            if fl.get("forloop"):
                opts.append(_path("forloop", "index"))
            opts += [_path(c) for c in self.caps[-2:]]
            opts.append(_path("acc"))
            return [{"t": "out", "e": self.pick(opts)}]
        if kind == "assign":
            r = self.i(0, 3)
            if r == 0:
                return [{"t": "assign", "name": f"n{self.nid()}", "e": ["str", self.pick(TEXTS + BLANK_TEXTS)]}]
            if r == 1:
                return [{"t": "assign", "name": f"n{self.i(1, 3)}", "e": _path(self.pick(["a", "b", "rows"]))}]
            if r == 2:
                return [{"t": "assign", "name": "acc", "e": ["filtered", _path("acc"),
                                                            [{"name": "append", "args": [["pos", ["str", self.pick(TEXTS)]]]}]]}]
            return [{"t": "assign", "name": f"n{self.i(1, 3)}", "e": ["int", self.i(0, 10**6)]}]
        if kind == "capture":
            name = f"c{self.nid()}"
            body = self.block(depth, scope, {**fl, "can_block": False}, blank=False)
            self.caps.append(name)
            out = [{"t": "capture", "name": name, "body": body}]
            if not blank and self.i(0, 2):
                out.append({"t": "out", "e": _path(name)})
            return out
        if kind == "if":
            conds: list[list[Any]] = [["true"], ["true"], ["false"]]
            if fl.get("forloop"):
                conds += [_path("forloop", "first"), _path("forloop", "last")]
            return [{"t": "if", "cond": self.pick(conds),
                     "body": self.block(depth, scope, {**fl}, blank)}]
        if kind == "break":
            return [{"t": "if", "cond": _path("tick", f"q{self.nid()}_{self.i(1, 3)}"),
                     "body": [{"t": self.pick(["break", "continue"])}]}]
        if kind == "loop":
            return self.loop(depth, scope, fl, blank)
        names = [n for n, _k in scope]
        inner_fl = {"iso": True, "forloop": False, "loopctx": None, "can_block": False, "super": None}
        if kind == "render":
            name = f"p{self.nid()}"
            self.templates[name] = self.block(depth, list(scope), inner_fl, blank=False)
            return [{"t": "render", "name": ["str", name], "args": [[n, _path(n)] for n in names]}]
        if kind == "include":
            name = f"p{self.nid()}"
            self.templates[name] = self.block(depth, list(scope), {**fl, "forloop": False, "loopctx": None,
                                                                  "can_block": False, "super": None}, blank=False)
            return [{"t": "include", "name": ["str", name]}]
        if kind == "call":
            name = f"m{self.nid()}"
            body = self.block(depth, list(scope), inner_fl, blank=False)
            return [{"t": "macro", "name": name, "params": [[n, None] for n in names], "body": body},
                    {"t": "call", "name": name, "args": [_path(n) for n in names], "kwargs": []}]
        if kind == "blockdef":
            return self.blockdef(depth, scope)
        if kind == "super":
            return self.super_item(depth, fl)
        raise AssertionError(kind)

    def top(self, depth: int, fl: dict[str, Any], scope: list[tuple[str, str]] | None = None) -> list[dict[str, Any]]:
        """Top level of a template / block body: mostly starts a loop nest right away."""
        out: list[dict[str, Any]] = []
        scope = list(scope or [])
        if depth < MAX_DEPTH and self.i(0, 4):
            self.budget -= 1
            out.extend(self.loop(depth, scope, fl, blank=False))
        out.extend(self.block(depth, scope, fl, blank=False))
        return out

    def parent_of(self, level: str) -> str | None:
        n = int(level[1:])
        return f"L{n - 1}" if n > 0 else None

    def blockdef(self, depth: int, scope: list[tuple[str, str]]) -> list[dict[str, Any]]:
        """`{% block blk %}` in the base template; the overriding bodies are generated
        here because they run at this nesting depth with this scope."""
        self.block_placed = True
        self.block_scope = list(scope)
        top = f"L{self.levels}"  # the leaf (= main)
        fl = {"iso": False, "forloop": False, "loopctx": None, "can_block": False,
              "super": f"L{self.levels - 1}"}
        self.budget = max(self.budget, 6)
        self.chain_bodies[top] = self.top(depth, fl, scope)
        for n in range(self.levels - 1, -1, -1):  # levels never reached through block.super
            if f"L{n}" not in self.chain_bodies:
                self.chain_bodies[f"L{n}"] = [{"t": "text", "s": f"[L{n}]"}]
        return [{"t": "block", "name": "blk", "body": self.chain_bodies["L0"], "end_name": False}]

    def loop(self, depth: int, scope: list[tuple[str, str]], fl: dict[str, Any], blank: bool) -> list[dict[str, Any]]:
        lid = self.nid()
        if blank:
            constructs = ["for"]
        else:
            constructs = ["for", "for", "render-for", "tablerow"]
            if not fl.get("iso"):
                constructs.append("include-for")
        c = self.pick(constructs)
        # most recently bound list variable first: dependent inner lengths
        cands: list[tuple[str, str]] = [(n, k) for n, k in reversed(scope) if k != "s"]
        cands += [("a", "l"), ("b", "l"), ("rows", "ll"), ("c", "l"), ("cube", "lll")]
        use_range = c in ("for", "tablerow") and self.i(0, 5) == 0
        var = f"v{lid}"
        if use_range:
            n = self.i(0, 6)
            it: list[Any] = ["range", ["int", 1], ["int", n]]
            size_seg: list[Any] = ["i", n]
            ek = "s"
        else:
            src, k = self.pick(cands)
            it = _path(src)
            size_seg = ["p", _path(src, "size")]
            ek = k[1:] or "s"
        inner_scope = [*scope, (var, ek)]
        stmt: dict[str, Any]
        if c in ("for", "tablerow"):
            inner_blank = blank or (c == "for" and self.i(0, 5) == 0)
            body = [_btick(lid), *self.block(depth + 1, inner_scope,
                                             {**fl, "forloop": c == "for", "loopctx": c,
                                              "can_block": fl.get("can_block") and not inner_blank},
                                             inner_blank)]
            stmt = {"t": c, "var": var, "iter": it, "body": body, "lid": lid}
            if self.i(0, 4) == 0:
                stmt["limit"] = ["int", self.i(0, 5)]
            if c == "tablerow":
                self.tablerow = True
                if self.i(0, 1):
                    stmt["cols"] = ["int", self.i(1, 3)]
        elif c == "render-for":
            name = f"p{lid}"
            names = [n for n, _k in scope]
            self.templates[name] = [_btick(lid), *self.block(
                depth + 1, inner_scope, {"iso": True, "forloop": True, "loopctx": None, "can_block": False, "super": None}, False)]
            stmt = {"t": "render", "name": ["str", name], "var": it, "loop": True, "alias": var,
                    "args": [[n, _path(n)] for n in names], "lid": lid}
        else:
            name = f"p{lid}"
            self.templates[name] = [_btick(lid), *self.block(
                depth + 1, inner_scope, {**fl, "forloop": False, "loopctx": None, "can_block": False, "super": None}, False)]
            stmt = {"t": "include", "name": ["str", name], "var": it, "loop": True, "alias": var, "lid": lid}
        return [_etick(lid, size_seg), stmt, _xtick(lid)]


def _static_bound(prog: dict[str, Any], data: dict[str, Any]) -> int:
    """Upper bound of loop body executions (used only to keep cases cheap)."""
    def mx(kind_src: str) -> int:
        if kind_src in ("a", "b", "c"):
            return len(data[kind_src])
        if kind_src == "rows":
            return len(data["rows"])
        if kind_src == "cube":
            return len(data["cube"])
        return max([len(r) for r in data["rows"]] + [len(p) for p in data["cube"]]
                   + [len(r) for p in data["cube"] for r in p] + [0])

    templates = prog["templates"]
    macros: dict[str, list[dict[str, Any]]] = {}

    def bound(stmts: list[dict[str, Any]]) -> int:
        total = 0
        for s in stmts:
            t = s["t"]
            c = loop_construct(s)
            if c is not None:
                it = s["iter"] if t in ("for", "tablerow") else s["var"]
                n = it[2][1] if it[0] == "range" else mx(it[1])
                if s.get("limit") is not None:
                    n = min(n, s["limit"][1])
                body = s["body"] if t in ("for", "tablerow") else templates.get(s["name"][1], [])
                total += n * (1 + bound(body))
            elif t in ("render", "include"):
                total += bound(templates.get(s["name"][1], []))
            elif t == "macro":
                macros[s["name"]] = s["body"]
            elif t == "call":
                total += bound(macros.get(s["name"], []))
            elif t == "out" and s.get("super_of") is not None:
                total += bound(prog["chain_bodies"].get(s["super_of"], []))
            else:
                for b in _sub_bodies(s):
                    total += bound(b)
        return total

    return bound(prog["main"])


def _truncate(data: dict[str, Any], m: int) -> dict[str, Any]:
    return {
        "a": data["a"][:m], "b": data["b"][:m], "c": data["c"][:m],
        "rows": [r[:m] for r in data["rows"][:m]],
        "cube": [[r[:m] for r in p[:m]] for p in data["cube"][:m]],
    }


_LEN = st.sampled_from([0, 1, 2, 3, 2, 3, 4, 5, 6, 8, 10, 12])
_SCALAR = st.sampled_from(SCALARS)


def _seq(max_len_strategy: Any = _LEN) -> Any:
    return max_len_strategy.flatmap(lambda n: st.lists(_SCALAR, min_size=n, max_size=n))


@st.composite
def program_case(draw: Any) -> dict[str, Any]:
    g = _Gen(draw)
    top_fl = {"iso": False, "forloop": False, "loopctx": None, "can_block": False, "super": None}
    if g.i(0, 3) == 0:
        g.levels = g.i(1, 2)
        base = g.top(0, {**top_fl, "can_block": True})
        if not g.block_placed:
            base.extend(g.blockdef(0, []))
        g.templates["L0"] = base
        for n in range(1, g.levels):
            g.templates[f"L{n}"] = [
                {"t": "extends", "name": ["str", f"L{n - 1}"]},
                {"t": "block", "name": "blk", "body": g.chain_bodies[f"L{n}"], "end_name": False},
            ]
        top = f"L{g.levels}"
        main = [
            {"t": "extends", "name": ["str", f"L{g.levels - 1}"]},
            {"t": "block", "name": "blk", "body": g.chain_bodies[top], "end_name": False},
        ]
    else:
        main = g.top(0, top_fl)
    small = st.sampled_from([0, 1, 2, 3, 2, 4])
    data = {
        "a": draw(_seq()), "b": draw(_seq()), "c": draw(_seq(small)),
        "rows": draw(st.lists(_seq(small), max_size=6)),
        "cube": draw(st.lists(st.lists(_seq(st.sampled_from([0, 1, 2, 3])), max_size=3), max_size=3)),
    }
    prog = {"main": main, "templates": g.templates, "chain_bodies": g.chain_bodies, "levels": g.levels}
    for m in (12, 8, 6, 4, 3, 2, 1):
        d = _truncate(data, m)
        if _static_bound(_analysis_view(prog), d) <= WORK_BOUND:
            data = d
            break
    else:
        data = _truncate(data, 1)
    return {"kind": "prog", "prog": prog, "data": data, "shopify": bool(g.tablerow or draw(st.booleans())),
            "suppress": draw(st.sampled_from([True, True, True, False])),
            # the limits are enforced by hand-written sync/async twins (block.super has an async getter of its own)
            "mode": draw(st.sampled_from(["sync", "sync", "async"])),
            "families": ["output", "loop", "namespace", "depth"]}


def _analysis_view(prog: dict[str, Any]) -> dict[str, Any]:
    """The program as the loop analysis walks it: for an inheritance chain the walk starts
    in the base template; the `block` statement there stands for the leaf's body and
    `{{ block.super }}` (marked `super_of`) for the body of the level below."""
    if not prog.get("levels"):
        return prog
    leaf = prog["chain_bodies"][f"L{prog['levels']}"]

    def subst(stmts: list[dict[str, Any]]) -> list[dict[str, Any]]:
        out = []
        for s in stmts:
            if s["t"] == "block":
                out.append({"t": "block", "name": s["name"], "body": leaf})
            elif any(isinstance(s.get(k), list) for k in ("body", "else")) and s["t"] != "macro":
                s2 = dict(s)
                for k in ("body", "else"):
                    if isinstance(s.get(k), list):
                        s2[k] = subst(s[k])
                out.append(s2)
            else:
                out.append(s)
        return out

    return {**prog, "main": subst(prog["templates"]["L0"])}


# --------------------------------------------------------------------------- recursion graphs

VARIANTS = ("include", "render", "macro-render", "extends", "mixed")


def graph_templates(n: int, edges: list[list[int]], variant: str, wrap: int = 0) -> dict[str, str]:
    """`wrap`: every edge sits inside that many nested block tags (each recursion level then costs
    many Python frames, so the interpreter's stack is the competing bound)."""
    out = _graph_templates(n, edges, variant)
    if wrap:
        tags = [("{% if true %}", "{% endif %}"), ("{% for q in (1..1) %}", "{% endfor %}"),
                ("{% unless false %}", "{% endunless %}"), ("{% case 1 %}{% when 1 %}", "{% endcase %}")]
        opening = "".join(tags[k % len(tags)][0] for k in range(wrap))
        closing = "".join(tags[k % len(tags)][1] for k in reversed(range(wrap)))
        for name, src in out.items():
            for tag in ("include", "render"):
                src = re.sub(r"(\{% " + tag + r" 't\d+' %\})", lambda m: opening + m.group(1) + closing, src)
            out[name] = src
    return out


def _graph_templates(n: int, edges: list[list[int]], variant: str) -> dict[str, str]:
    out: dict[str, str] = {}
    for i in range(n):
        succ = [j for a, j in edges if a == i]
        parts: list[str] = []
        head = ""
        for idx, j in enumerate(succ):
            if variant == "include":
                parts.append(f"{{% include 't{j}' %}}")
            elif variant == "render":
                parts.append(f"{{% render 't{j}' %}}")
            elif variant == "macro-render":
                parts.append(f"{{% macro m{j} %}}{{% render 't{j}' %}}{{% call m{j} %}}{{% endmacro %}}{{% call m{j} %}}")
            elif variant == "extends":
                if idx == 0:
                    head = f"{{% extends 't{j}' %}}"
                else:
                    parts.append(f"{{% include 't{j}' %}}")
            else:  # mixed: the edge kind depends on the edge
                k = (i * 3 + j) % 3
                if k == 0:
                    parts.append(f"{{% include 't{j}' %}}")
                elif k == 1:
                    parts.append(f"{{% render 't{j}' %}}")
                else:
                    parts.append(f"{{% macro m{j} %}}{{% render 't{j}' %}}{{% endmacro %}}{{% call m{j} %}}")
        body = f"t{i}(" + "".join(parts) + ")"
        if variant == "extends":
            out[f"t{i}"] = head + "{% block b %}" + body + "{{ block.super }}{% endblock %}"
        else:
            out[f"t{i}"] = body
    return out


def shortest_cycle(n: int, edges: list[list[int]], start: int) -> int:
    """Length of the shortest cycle reachable from `start` (0 = none)."""
    adj: dict[int, list[int]] = {i: [] for i in range(n)}
    for a, b in edges:
        adj[a].append(b)
    reach = {start}
    todo = [start]
    while todo:
        x = todo.pop()
        for y in adj[x]:
            if y not in reach:
                reach.add(y)
                todo.append(y)
    best = 0
    for s in sorted(reach):
        dist = {s: 0}
        frontier = [s]
        found = 0
        while frontier and not found:
            nxt = []
            for x in frontier:
                for y in adj[x]:
                    if y == s:
                        found = dist[x] + 1
                        break
                    if y not in dist:
                        dist[y] = dist[x] + 1
                        nxt.append(y)
                if found:
                    break
            frontier = nxt
        if found and (best == 0 or found < best):
            best = found
    return best


@st.composite
def graph_case(draw: Any) -> dict[str, Any]:
    n = 4
    pairs = [(i, j) for i in range(n) for j in range(n)]
    edges = [list(p) for p in pairs if draw(st.integers(0, 3)) == 0]
    return {"kind": "graph", "n": n, "edges": edges, "variant": draw(st.sampled_from(VARIANTS)),
            "start": draw(st.integers(0, n - 1)), "wrap": draw(st.sampled_from([0, 0, 0, 2, 5, 8, 12]))}


# --------------------------------------------------------------------------- the property


def _around(*values: int) -> list[int]:
    out: list[int] = []
    for v in values:
        for d in (-1, 0, 1):
            if v + d > 0 and v + d not in out:
                out.append(v + d)
    return out


def _nl(s: str) -> str:
    return s.replace("\r\n", "\n").replace("\r", "\n")


def _strip_nl(s: str) -> str:
    return s.replace("\r", "").replace("\n", "")


class C06(Prop):
    id = "C06"
    title = "Configured resource limits are hard bounds"
    technique = ("property-based testing: measure the unrestricted run (probe drop, buffer registry, context "
                 "subclass), enumerate limits at consumption-1/0/+1, two-sided differential oracle; exhaustive "
                 "digraph enumeration for recursion")
    rule = (
        "programs from a dedicated generator: loop nests of depth <= 4 built from for / tablerow / render-for / "
        "include-for crossing render, include, macro call, capture, blank blocks and block / block.super of a 2-3 "
        "level extends chain, literal text with CR, CRLF, LF and multi-byte characters, data sequences of length "
        "0-12; limits enumerated at O,W (output) I,P (loops) S_hard,S_soft (namespace) -1/0/+1 and depth 2,5 (30, the default, is the measured run); "
        "plus every digraph on <= 3 templates (and drawn 4-node digraphs) x 5 edge realisations x every start node "
        "x depth 2,5,30. A program case is non-trivial when the unrestricted render succeeds and runs a nest of >= 2 "
        "loops or writes through >= 2 limited buffers (capture / super) or executes a partial; a graph case when a "
        "cycle is reachable from the start node; distinct by SHA-1 of the case"
    )
    assumptions = [
        "a nest 'runs more iterations than the limit' when the executed body count of one loop node inside one "
        "activation of an enclosing loop exceeds it; success with product-of-lengths P > limit >= executed count "
        "(break, ragged inner sequences) is not flagged",
        "render-for, include-for and tablerow are loops (docs/environment.md, Loop Iteration Limit)",
        "text written to capture / block.super buffers may or may not count toward the output limit: any outcome is "
        "accepted for O <= limit < W",
        "the unit of context_depth_limit is implementation defined: under limits 2 and 5 either ContextDepthError "
        "or the unchanged output is accepted",
        "namespace: sys.getsizeof of the values of one context's locals; the carry of parent contexts is a grey zone",
    ]
    batch = 100
    hang_is_violation = True

    def __init__(self) -> None:
        self.extra: dict[str, int] = {"renders": 0, "programs_measured": 0, "graphs": 0}

    def setup_worker(self) -> None:
        _install_buffer_hook()

    def n_random(self, tier: str) -> int:
        return 4400 if tier == "quick" else 80000

    def strategy(self, tier: str, disabled: frozenset[str]):
        return st.one_of(program_case(), program_case(), program_case(), program_case(), program_case(),
                         program_case(), program_case(), graph_case())

    def enumerate(self, tier: str, disabled: frozenset[str]):
        parts = {"brk": "b{% break %}", "cnt": "c{% continue %}", "loop5": "{% for k in (1..5) %}z{% endfor %}",
                 "brk_if": "{% if x == 2 %}{% break %}{% endif %}i"}
        literal = [
            ("include-for-break", "{% for i in (1..3) %}{% include 'brk' for xs %}{% endfor %}{% for j in (1..4) %}x{% endfor %}", 6),
            ("include-for-continue", "{% for i in (1..2) %}{% include 'cnt' for xs %}y{% endfor %}{% for j in (1..5) %}x{% endfor %}", 5),
            ("include-for-break-then-render", "{% for i in (1..2) %}{% include 'brk' for xs %}{% endfor %}{% render 'loop5' %}", 5),
            ("include-for-break-then-include", "{% for i in (1..2) %}{% include 'brk_if' for xs as x %}{% endfor %}{% include 'loop5' %}", 5),
            ("tablerow-break", "{% for i in (1..3) %}{% tablerow r in xs %}{% break %}{% endtablerow %}{% endfor %}{% for j in (1..5) %}x{% endfor %}", 6),
            ("render-for-then-loop", "{% for i in (1..2) %}{% render 'loop5' for xs %}{% endfor %}{% for j in (1..7) %}x{% endfor %}", 20),
            ("for-break-then-loop", "{% for i in (1..3) %}{% for j in xs %}{% break %}{% endfor %}{% endfor %}{% for j in (1..6) %}x{% endfor %}", 6),
        ]
        for name, src, need in literal:
            for mode in ("sync", "async"):
                yield {"kind": "literal", "name": name, "src": src, "templates": parts, "data": {"xs": [1, 2]},
                       "need": need, "mode": mode}
        for n in (1, 2, 3):
            pairs = [(i, j) for i in range(n) for j in range(n)]
            for mask in range(1 << len(pairs)):
                edges = [list(p) for b, p in enumerate(pairs) if mask >> b & 1]
                for variant in VARIANTS:
                    for start in range(n):
                        yield {"kind": "graph", "n": n, "edges": edges, "variant": variant, "start": start}
                        if n <= 2 and edges:
                            yield {"kind": "graph", "n": n, "edges": edges, "variant": variant, "start": start,
                                   "wrap": 7 + len(edges)}

    def enumerated_is_exhaustive(self, tier: str) -> bool:
        return False

    def budget_s(self, tier: str) -> float:
        return 240 if tier == "quick" else 3000

    def extra_evidence(self) -> dict[str, Any]:
        return dict(self.extra)

    def sample(self, case: Any) -> Any:
        if case["kind"] == "graph":
            return case
        if case["kind"] == "literal":
            return {"main": case["src"][:300], "partials": sorted(case["templates"])}
        return {"main": to_source(case["prog"]["main"])[:300], "partials": sorted(case["prog"]["templates"])}

    # ------------------------------------------------------------------ running

    def _sources(self, case: dict[str, Any]) -> tuple[str, dict[str, str]]:
        prog = case["prog"]
        return to_source(prog["main"]), {k: to_source(v) for k, v in prog["templates"].items()}

    def _run(self, main_src: str, templates: dict[str, str], case: dict[str, Any],
             limits: dict[str, int] | None, *, ns: bool = False, bufs: bool = False) -> dict[str, Any]:
        global _NS_REC, _BUF_REC
        self.extra["renders"] += 1
        # a caching loader: a partial rendered inside a loop is parsed once per render, not once per iteration
        env = make_env(shopify=case.get("shopify", True), suppress=case.get("suppress", True), limits=limits,
                       loader=CachingDictLoader(dict(templates), auto_reload=False))
        tmpl = env.from_string(main_src)  # a parse error is a generator bug: harness error
        tick = Tick()
        data = dict(case["data"])
        data["tick"] = tick
        r: dict[str, Any] = {"status": "ok", "out": None, "err": None, "log": tick.log, "ns": [], "bufs": []}
        _NS_REC = r["ns"] if ns else None
        _BUF_REC = r["bufs"] if bufs else None
        try:
            if ns:
                ctx = MeasCtx(tmpl, global_data=tmpl.make_globals(data))
                buf = StringIO()
                tmpl.render_with_context(ctx, buf)
                r["out"] = buf.getvalue()
                r["root_size"] = _own_size(ctx)
            elif case.get("mode") == "async":
                r["out"] = run_coro(tmpl.render_async(**data))
            else:
                r["out"] = tmpl.render(**data)
        except LiquidError as err:
            r["status"] = "err"
            r["err"] = err
        except CaseTimeout:
            raise
        except Exception as err:  # noqa: BLE001
            r["status"] = "crash"
            r["err"] = err
        finally:
            _NS_REC = None
            _BUF_REC = None
        return r

    # ------------------------------------------------------------------ check

    def check(self, case: Any, disabled: frozenset[str] = frozenset()) -> Result:
        _install_buffer_hook()
        res = Result()
        res.evaluations = 0
        if case["kind"] == "graph":
            self._check_graph(case, res)
        elif case["kind"] == "literal":
            self._check_literal(case, res)
        else:
            self._check_prog(case, disabled, res)
        return res

    def _check_literal(self, case: dict[str, Any], res: Result) -> None:
        """Hand-written programs whose largest loop nest is known: loop_iteration_limit = need must not change
        the render, need - 1 must raise.  (Loops that are LEFT through break / continue must not leave anything
        behind in the accounting of the loops that follow.)"""
        res.nontrivial = True
        need = case["need"]
        ctxt = f"src={case['src']!r} templates={case['templates']!r} need={need}"

        def run(limit: int | None) -> tuple[str, str]:
            env = make_env(case["templates"], limits={"loop_iteration_limit": limit} if limit else None)
            try:
                t = env.from_string(case["src"])
                if case.get("mode") == "async":
                    return ("ok", run_coro(t.render_async(**case["data"])))
                return ("ok", t.render(**case["data"]))
            except LiquidError as err:
                return ("err", type(err).__name__)

        base = run(None)
        res.evaluations += 1
        if base[0] != "ok":
            res.labels.append("literal:error-without-limit")
            return
        for lim in (need, need + 1, need * 3):
            got = run(lim)
            res.evaluations += 1
            if got != base:
                res.fail("loop", f"loop:spurious-limit:{case['name']}",
                         f"loop_iteration_limit={lim} (the largest nest runs {need} iterations): {got!r} instead of "
                         f"{base!r}; {ctxt}")
                return
        if need > 1:
            got = run(need - 1)
            res.evaluations += 1
            if got != ("err", "LoopIterationLimitError"):
                res.fail("loop", f"loop:limit-not-enforced:{case['name']}",
                         f"loop_iteration_limit={need - 1} below the largest nest ({need}): {got!r}; {ctxt}")

    def _diff_bucket(self, family: str, out: str, base: str) -> str:
        # universal-newline translation happens per write(): "q\r" + "\nz" becomes "q\n\nz", so the
        # texts are compared with every CR / LF removed to recognise this root cause
        if _nl(out) == _nl(base) or _strip_nl(out) == _strip_nl(base):
            return f"{family}:changes-text:newline-translation"
        return f"{family}:changes-text:other"

    def _check_prog(self, case: dict[str, Any], disabled: frozenset[str], res: Result) -> None:  # noqa: PLR0912, PLR0915
        main_src, templates = self._sources(case)
        prog = case["prog"]
        loops = collect_loops(_analysis_view(prog))
        families = case.get("families") or ["output", "loop", "namespace", "depth"]
        excluded_constructs = frozenset(c for c, f in OUTER_FLAGS.items() if f in disabled)
        ctxt = f"main={main_src!r} templates={templates!r} data={case['data']!r}"

        # ---- unrestricted, measured run
        base = self._run(main_src, templates, case, None, ns=True)
        res.evaluations += 1
        if base["status"] != "ok":
            res.labels.append(f"baseline-{base['status']}:{type(base['err']).__name__}")
            return
        self.extra["programs_measured"] += 1
        out0: str = base["out"]
        o_bytes = len(out0.encode())
        stats = nest_stats(base["log"], loops, excluded_constructs)
        s_hard = max([a for a, _b in base["ns"]] + [0])
        res.labels.append(f"nest-depth:{stats['depth']}")
        if stats["I_path"]:
            cs = [loops[k]["c"] for k in stats["I_path"]]
            for x, y in zip(cs, cs[1:]):
                res.labels.append(f"pair:{x}>{y}")
            for k in stats["I_path"][1:]:
                for v in loops[k]["via"]:
                    res.labels.append(f"via:{v}")
        if "\r" in out0:
            res.labels.append("cr-in-output")
        if prog.get("levels"):
            res.labels.append("extends-chain")

        nbufs = 1

        # ---- output limit
        if "output" in families:
            meas = self._run(main_src, templates, case, {"output_stream_limit": HUGE_OUT}, bufs=True)
            res.evaluations += 1
            if meas["status"] != "ok":
                res.fail("output", f"output:spurious-error:{type(meas['err']).__name__}",
                         f"limit={HUGE_OUT} raised {meas['err']!r}; {ctxt}")
            else:
                nbufs = len(meas["bufs"])
                res.labels.append(f"limited-buffers:{min(nbufs, 4)}")
                w_bytes = sum(b.size for b in meas["bufs"])
                if meas["out"] != out0:
                    res.fail("output", self._diff_bucket("output", meas["out"], out0),
                             f"limit={HUGE_OUT} (never reached) out={meas['out']!r} unrestricted={out0!r}; {ctxt}")
                if w_bytes < o_bytes:
                    # bytes charged to the buffers are fewer than the bytes returned
                    res.fail("output", "output:undercount", f"W={w_bytes} < O={o_bytes}; {ctxt}")
                for lim in _around(o_bytes, w_bytes):
                    r = self._run(main_src, templates, case, {"output_stream_limit": lim})
                    res.evaluations += 1
                    where = f"output_stream_limit={lim} O={o_bytes} W={w_bytes}"
                    if r["status"] == "ok":
                        n = len(r["out"].encode())
                        if n > lim:
                            res.fail("output", "output:exceeds-limit", f"{where}: returned {n} bytes; {ctxt}")
                        # (O > limit and success) implies n > limit or a changed text: both are reported
                        if r["out"] != out0:
                            res.fail("output", self._diff_bucket("output", r["out"], out0),
                                     f"{where}: out={r['out']!r} unrestricted={out0!r}; {ctxt}")
                    elif r["status"] == "err" and isinstance(r["err"], OutputStreamLimitError):
                        if w_bytes <= lim:
                            res.fail("output", "output:spurious-error",
                                     f"{where}: OutputStreamLimitError although only {w_bytes} bytes are ever written; {ctxt}")
                        elif o_bytes <= lim:
                            res.labels.append("output-grey-zone-error")
                    else:
                        res.fail("output", f"output:unexpected-error:{type(r['err']).__name__}",
                                 f"{where}: {r['err']!r}; {ctxt}")

        # ---- loop iteration limit
        if "loop" in families and stats["P"] > 0:
            p_all, i_all = stats["P"], stats["I"]
            for lim in _around(i_all, p_all, stats["I_x"]):
                r = self._run(main_src, templates, case, {"loop_iteration_limit": lim})
                res.evaluations += 1
                where = f"loop_iteration_limit={lim} I={i_all} P={p_all}"
                if r["status"] == "ok":
                    run = nest_stats(r["log"], loops, excluded_constructs)
                    if run["I_x"] > lim:
                        # too many iterations (outer constructs excluded by a known finding are not counted)
                        cnt, pth = worst_nest(run["counts"], lim, loops, excluded_constructs)
                        res.fail("loop", f"loop:runs-past-limit:{nest_bucket(pth, loops)}",
                                 f"{where}: render succeeded, nest {[loops[k]['c'] for k in pth]} "
                                 f"(boundaries {[loops[k]['via'] for k in pth]}) executed {cnt} body iterations; {ctxt}")
                    elif run["I"] > lim:
                        _cnt, pth = worst_nest(run["counts"], lim, loops, frozenset())
                        first = next((loops[k]["c"] for k in pth[:-1] if loops[k]["c"] in excluded_constructs), "")
                        res.excluded.append(OUTER_FLAGS.get(first, "outer"))
                    elif p_all > lim:
                        res.labels.append("loop-grey:P>limit>=I-success")
                    if r["out"] != out0:
                        res.fail("loop", self._diff_bucket("loop", r["out"], out0),
                                 f"{where}: out={r['out']!r} unrestricted={out0!r}; {ctxt}")
                elif r["status"] == "err" and isinstance(r["err"], LoopIterationLimitError):
                    if p_all <= lim:
                        res.fail("loop", "loop:spurious-error",
                                 f"{where}: LoopIterationLimitError although no product of active loop lengths exceeds "
                                 f"the limit; {ctxt}")
                else:
                    res.fail("loop", f"loop:unexpected-error:{type(r['err']).__name__}", f"{where}: {r['err']!r}; {ctxt}")

        # ---- local namespace limit
        if "namespace" in families and s_hard > 0:
            meas = self._run(main_src, templates, case, {"local_namespace_limit": HUGE_NS}, ns=True)
            res.evaluations += 1
            if meas["status"] != "ok":
                res.fail("namespace", f"namespace:spurious-error:{type(meas['err']).__name__}",
                         f"limit={HUGE_NS}: {meas['err']!r}; {ctxt}")
            else:
                s_soft = max([b for _a, b in meas["ns"]] + [0])
                if meas["out"] != out0:
                    res.fail("namespace", self._diff_bucket("namespace", meas["out"], out0), f"limit={HUGE_NS}; {ctxt}")
                if s_soft < s_hard:
                    res.fail("namespace", "namespace:undercount",
                             f"get_size_of_locals max {s_soft} < measured size of one context's locals {s_hard}; {ctxt}")
                for lim in _around(s_hard, s_soft):
                    r = self._run(main_src, templates, case, {"local_namespace_limit": lim}, ns=True)
                    res.evaluations += 1
                    where = f"local_namespace_limit={lim} S_hard={s_hard} S_soft={s_soft}"
                    if r["status"] == "ok":
                        peak = max([a for a, _b in r["ns"]] + [0])
                        if peak > lim or r["root_size"] > lim:
                            res.fail("namespace", "namespace:exceeds-limit",
                                     f"{where}: render succeeded with {peak} bytes of locals (end: {r['root_size']}); {ctxt}")
                        if r["out"] != out0:
                            res.fail("namespace", self._diff_bucket("namespace", r["out"], out0),
                                     f"{where}: out={r['out']!r} unrestricted={out0!r}; {ctxt}")
                    elif r["status"] == "err" and isinstance(r["err"], LocalNamespaceLimitError):
                        if s_soft <= lim:
                            res.fail("namespace", "namespace:spurious-error",
                                     f"{where}: LocalNamespaceLimitError although the namespace never exceeds the limit; {ctxt}")
                        elif s_hard <= lim:
                            res.labels.append("namespace-grey-zone-error")
                    else:
                        res.fail("namespace", f"namespace:unexpected-error:{type(r['err']).__name__}",
                                 f"{where}: {r['err']!r}; {ctxt}")

        # ---- context depth limit (acyclic program: success or ContextDepthError, same text)
        if "depth" in families:
            for lim in (2, 5):  # 30 is the default: that is the measured run itself
                r = self._run(main_src, templates, case, {"context_depth_limit": lim})
                res.evaluations += 1
                where = f"context_depth_limit={lim}"
                if r["status"] == "ok":
                    if r["out"] != out0:
                        res.fail("depth", self._diff_bucket("depth", r["out"], out0), f"{where}; {ctxt}")
                elif r["status"] == "err" and isinstance(r["err"], ContextDepthError):
                    res.labels.append(f"depth-error@{lim}")
                else:
                    res.fail("depth", f"depth:unexpected-error:{type(r['err']).__name__}", f"{where}: {r['err']!r}; {ctxt}")

        res.nontrivial = stats["depth"] >= 2 or nbufs >= 2 or any(
            s["t"] in ("render", "include", "call") for s in _flatten(_analysis_view(prog)["main"]))

    # ------------------------------------------------------------------ recursion graphs

    def _check_graph(self, case: dict[str, Any], res: Result) -> None:
        n, edges, variant, start = case["n"], case["edges"], case["variant"], case["start"]
        self.extra["graphs"] += 1
        wrap = int(case.get("wrap") or 0)
        templates = graph_templates(n, edges, variant, wrap)
        cyc = shortest_cycle(n, edges, start)
        shape = f"{variant}:{'acyclic' if not cyc else ('self-loop' if cyc == 1 else f'{cyc}-cycle')}"
        if wrap:
            shape += ":wrapped"
        res.labels.append("graph:" + shape)
        res.nontrivial = cyc > 0
        ctxt = f"templates={templates!r} start=t{start}"
        for lim in (2, 5, 30):
            env = make_env(templates, limits={"context_depth_limit": lim})
            res.evaluations += 1
            self.extra["renders"] += 1
            try:
                out = env.get_template(f"t{start}").render()
            except (ContextDepthError, TemplateInheritanceError) as err:
                cause = err.__cause__
                while cause is not None and not isinstance(cause, RecursionError):
                    cause = cause.__cause__
                if lim <= 5 and cause is not None:
                    # the engine reports an exhausted interpreter stack as ContextDepthError; with a limit of 2 or 5
                    # the configured bound must stop the recursion long before that
                    res.fail("recursion", f"recursion:{shape}:limit-not-enforced",
                             f"context_depth_limit={lim}: the recursion ran until the interpreter's stack was "
                             f"exhausted; {ctxt}")
                continue
            except LiquidError as err:
                res.labels.append(f"graph-other-error:{type(err).__name__}")
                if cyc and type(err).__name__ != "DisabledTagError":  # (include refused inside render: no cycle is run)
                    # "always terminate with a depth or inheritance error": a syntax error blamed on a template
                    # that parses fine (stack exhausted while loading a partial) is neither
                    res.fail("recursion", f"recursion:{shape}:wrong-error:{type(err).__name__}",
                             f"context_depth_limit={lim}: {type(err).__name__}: {str(err).splitlines()[0][:120]}; {ctxt}")
                continue
            except CaseTimeout:
                res.fail("recursion", f"recursion:{shape}:hang", f"context_depth_limit={lim}: no result after the "
                         f"watchdog period; {ctxt}")
                return
            except RecursionError as err:
                res.fail("recursion", f"recursion:{shape}:RecursionError",
                         f"context_depth_limit={lim}: {exc_bucket(err)}; {ctxt}")
                continue
            except Exception as err:  # noqa: BLE001
                res.fail("recursion", f"recursion:{shape}:{type(err).__name__}",
                         f"context_depth_limit={lim}: {type(err).__name__}: {err} @ {exc_bucket(err)}; {ctxt}")
                continue
            if cyc and variant in ("include", "render", "macro-render"):
                res.fail("recursion", f"recursion:{shape}:no-error",
                         f"context_depth_limit={lim}: a reachable cycle rendered {out[:80]!r} without an error; {ctxt}")


def _flatten(stmts: list[dict[str, Any]]) -> list[dict[str, Any]]:
    out: list[dict[str, Any]] = []
    for s in stmts:
        out.append(s)
        for b in _sub_bodies(s):
            out.extend(_flatten(b))
    return out


PROP = C06()
