"""Property registry."""

from __future__ import annotations

import importlib


def load_prop(prop_id: str):
    mod = importlib.import_module(f"lv.props.{prop_id.lower()}")
    return mod.PROP
