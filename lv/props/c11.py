"""C11 - static analysis over-approximates runtime usage and reports exact locations.

One static report (`Template.analyze()`) is compared with the union of what several
instrumented renders of the same program actually did:

* variable lookups     - `RenderContext.get` / `get_async` / `resolve` wrapped (class level,
                         only while the renders run, restored in `finally`);
* global namespace     - the render arguments are a logging `Mapping`, so every key that fell
                         through block scopes and locals is seen;
* filters              - every entry of `env.filters` is wrapped by a recording proxy;
* tags                 - `Node.render` / `Node.render_async` wrapped on the base class.

Cases are plain JSON: program AST (+ extends/block wrapper templates, all as ASTs), a layout
seed and a list of data sets.
"""

from __future__ import annotations

import copy
import io
import re
from typing import Any
from typing import Iterator
from typing import Mapping

from hypothesis import strategies as st

from lv.core.runner import Prop
from lv.core.runner import Result
from lv.core.runner import exc_bucket
from lv.core.runner import jdump
from lv.gen.grammar import FILTERS
from lv.gen.grammar import SCHEMA
from lv.gen.grammar import Cfg
from lv.gen.grammar import Gen
from lv.gen.grammar import data_strategy
from lv.gen.grammar import program_strategy
from lv.gen.printer import to_source
from lv.harness.envs import make_env
from lv.harness.envs import run_coro

from liquid2 import CachingDictLoader
from liquid2 import RenderContext
from liquid2 import tokenize
from liquid2.ast import BlockNode
from liquid2.ast import ConditionalBlockNode
from liquid2.ast import Node
from liquid2.builtin import Path
from liquid2.builtin.tags.case_tag import MultiExpressionBlockNode
from liquid2.exceptions import LiquidError
from liquid2.undefined import UNDEFINED
from liquid2.token import LinesToken
from liquid2.token import OutputToken
from liquid2.token import PathToken
from liquid2.token import TagToken
from liquid2.token import Token
from liquid2.token import TokenType

# `json` raises on blank/empty/undefined operands, which aborts ~1 render in 5 before most of the
# template ran; filter coverage is C03's subject, here a render has to get through the program
CFG = Cfg(wc_rate=0.15, shopify=True, tablerow=True, confusion=0.03, budget=14, max_depth=3,
          filter_names=[f for f in FILTERS if f != "json"])
BASE_CFG = Cfg(wc_rate=0.1, shopify=True, tablerow=False, confusion=0.0, budget=3, max_depth=1, max_stmts=2,
               partials=False, macros=False, liquid_tag=False, raw=False,
               filter_names=[f for f in FILTERS if f != "json"])

EXCLUDED_NODES = (BlockNode, ConditionalBlockNode, MultiExpressionBlockNode)
BLOCK_NAMES = ["content", "side", "foot"]
ALWAYS_BOUND = frozenset(["forloop", "tablerowloop", "block", "args", "kwargs"])
# looked up by the translate tag itself (an optional injection point, not a template variable)
IMPLICIT = frozenset(["translations"])
WILD = "\x00*"

RICH: dict[str, Any] = {
    "n": 3, "m": 2, "f": 1.5, "s": "apple", "t": "Banana", "flag": True, "z": None,
    "nums": [3, 1, 2], "words": ["b", "a", "c"],
    "items": [
        {"title": "apple", "price": 2, "tags": ["x", "y"], "ok": True, "qty": 2},
        {"title": "Banana", "price": 1.5, "tags": [], "ok": False, "qty": 0},
        {"title": "cherry", "price": 10, "ok": None, "qty": 5},
    ],
    "grid": [[1, 2], [3]], "key": "title", "idx": 1, "é": "x", "a-b": 1,
    "user": {"name": "Banana", "age": 3, "address": {"city": "A", "zip": "10"}, "first": "x", "size": 2},
}


# --------------------------------------------------------------------------- generation


def _has_call(stmts: Any) -> bool:
    if isinstance(stmts, dict):
        if stmts.get("t") == "call":
            return True
        return any(_has_call(v) for v in stmts.values())
    if isinstance(stmts, list):
        return any(_has_call(v) for v in stmts)
    return False


def _translate_stmt(draw: Any) -> dict[str, Any]:
    names = ["who", "what", "s", "t", "n", "v", "x"]
    args: list[list[Any]] = []
    if draw(st.booleans()):
        args.append(["count", draw(st.sampled_from([["path", "n", []], ["path", "m", []], ["int", 1], ["int", 2],
                                                    ["path", "nums", [["n", "size"]]]]))])
    for nm in ("who", "what")[: draw(st.integers(0, 2))]:
        args.append([nm, draw(st.sampled_from([["path", "user", [["n", "name"]]], ["path", "s", []], ["str", "x"],
                                               ["path", "items", [["i", 0], ["n", "title"]]], ["path", "nosuch", []]]))])

    def text() -> str:
        parts = []
        for _ in range(draw(st.integers(1, 3))):
            if draw(st.booleans()):
                parts.append(draw(st.sampled_from(["Hello ", "item", " 100% ", "a, b", "x"])))
            else:
                parts.append("{{ " + draw(st.sampled_from(names)) + " }}")
        return "".join(parts)

    s: dict[str, Any] = {"t": "translate", "args": args, "text": text(), "wc": ["", ""], "wc_end": ["", ""]}
    if draw(st.booleans()):
        s["plural"] = text()
        s["wc_plural"] = ["", ""]
    return s


@st.composite
def case_strategy(draw: Any) -> dict[str, Any]:
    prog = draw(program_strategy(CFG))
    main: list[dict[str, Any]] = prog["main"]
    templates: dict[str, list[dict[str, Any]]] = dict(prog["templates"])
    if draw(st.integers(0, 4)) == 0:
        main.insert(draw(st.integers(0, len(main))), _translate_stmt(draw))

    if draw(st.integers(0, 9)) < 4:
        # extends/block chain: base [<- mid] <- main; main's statements go into block overrides
        macros = [s for s in main if s["t"] == "macro"]
        rest = [s for s in main if s["t"] != "macro"]
        nblocks = draw(st.integers(1, 3))
        cuts = sorted(draw(st.integers(0, len(rest))) for _ in range(nblocks - 1))
        chunks = [rest[a:b] for a, b in zip([0, *cuts], [*cuts, len(rest)])]
        g = Gen(draw, BASE_CFG)

        def small() -> list[dict[str, Any]]:
            g.budget = 3
            return g.block(1, min_stmts=1)

        sup = {"t": "out", "e": ["path", "block", [["n", "super"]]], "wc": ["", ""]}
        base: list[dict[str, Any]] = [{"t": "text", "s": "B:"}]
        for name in [*BLOCK_NAMES[:nblocks], "extra"]:
            blk = {"t": "block", "name": name, "body": small(), "wc": g.wc(), "wc_end": g.wc()}
            if name != "extra" and draw(st.integers(0, 3)) == 0:
                blk["required"] = True  # always overridden by the child; its body still runs through block.super
            base.append(blk)
            if draw(st.booleans()):
                base.extend(small())
        if draw(st.integers(0, 5)) == 0:
            base.append(_translate_stmt(draw))
        templates["base"] = base
        parent = "base"
        if draw(st.integers(0, 2)) == 0:
            mid: list[dict[str, Any]] = [{"t": "extends", "name": ["str", "base"], "wc": ["", ""]}]
            for name in [*BLOCK_NAMES[:nblocks], "extra"]:
                if draw(st.booleans()):
                    body = small()
                    if draw(st.booleans()):
                        body.insert(draw(st.integers(0, len(body))), sup)
                    mid.append({"t": "block", "name": name, "body": body, "wc": g.wc(), "wc_end": g.wc(),
                                "required": name != "extra" and draw(st.integers(0, 3)) == 0})
            templates["mid"] = mid
            parent = "mid"
        child: list[dict[str, Any]] = []
        if draw(st.booleans()):
            child.append({"t": "text", "s": "\n"})
        child.append({"t": "extends", "name": ["str", parent], "wc": g.wc()})
        for name, chunk in zip(BLOCK_NAMES, chunks):
            body = ([copy.deepcopy(m) for m in macros] if _has_call(chunk) or name == "content" else []) + chunk
            if draw(st.integers(0, 2)) == 0:
                body.insert(draw(st.integers(0, len(body))), sup)
            child.append({"t": "block", "name": name, "body": body, "wc": g.wc(), "wc_end": g.wc()})
            if draw(st.integers(0, 3)) == 0:
                child.append({"t": "text", "s": " "})
        main = child

    datas = [draw(data_strategy()) for _ in range(draw(st.integers(1, 3)))]
    return {"prog": {"main": main, "templates": templates}, "layout": draw(st.integers(0, 40)), "datas": datas}


def data_variants(datas: list[dict[str, Any]]) -> list[dict[str, Any]]:
    """Drawn data sets + derived ones (booleans flipped, lists emptied) + a rich fixed one."""
    out = [d for d in datas[:3]]
    d0 = datas[0]
    flip = copy.deepcopy(d0)
    flip["flag"] = not d0.get("flag")
    for it in flip.get("items") or []:
        if isinstance(it.get("ok"), bool):
            it["ok"] = not it["ok"]
        else:
            it["ok"] = True
    if "z" in flip:
        del flip["z"]
    else:
        flip["z"] = None
    flip["n"], flip["m"] = d0.get("m", 0), (d0.get("n", 0) if isinstance(d0.get("n"), int) and abs(d0.get("n", 0)) < 20 else 1)
    out.append(flip)
    empt = copy.deepcopy(d0)
    for k in ("nums", "words", "items", "grid"):
        empt[k] = []
    empt["s"] = ""
    empt["user"] = {"name": ""}
    empt["flag"] = False
    out.append(empt)
    out.append(copy.deepcopy(RICH))
    return out


def strip_ternary_left(x: Any) -> tuple[Any, int]:
    """Copy of the AST without filters on the left operand of ternaries (generator flag
    `ternary-left-filters`, switched off while the corresponding known finding is active)."""
    n = 0
    if isinstance(x, dict):
        out: dict[str, Any] = {}
        for k, v in x.items():
            out[k], m = strip_ternary_left(v)
            n += m
        return out, n
    if isinstance(x, list):
        if len(x) == 6 and x[0] == "ternary" and isinstance(x[1], list) and x[1] and x[1][0] == "filtered":
            x = [x[0], x[1][1], *x[2:]]
            n += 1
        items = []
        for v in x:
            w, m = strip_ternary_left(v)
            items.append(w)
            n += m
        return items, n
    return x, 0


# --------------------------------------------------------------------------- AST facts


class Facts:
    """What the program binds and where, read off our own AST."""

    def __init__(self, main: list[Any], templates: dict[str, list[Any]]) -> None:
        self.bound: set[str] = set(ALWAYS_BOUND)
        self.block_scoped: set[str] = {"forloop", "tablerowloop", "block"}
        self.per_template: dict[str, set[str]] = {}
        self.included: set[str] = set()
        self.rendered: set[str] = set()
        self.provided: dict[str, set[str]] = {}  # partial -> names its include/render tags put in scope
        self.filter_ctx: dict[str, set[str]] = {}
        for name in templates:
            base = name.rsplit("/", 1)[-1].split(".")[0]
            self.bound.update((base, name.split(".")[0]))
        for tname, stmts in [("", main), *templates.items()]:
            own: set[str] = set()
            self._walk(stmts, own, "plain")
            self.per_template[tname] = own
            self.bound |= own

    def _walk(self, x: Any, own: set[str], fctx: str) -> None:  # noqa: PLR0912
        if isinstance(x, dict):
            t = x.get("t")
            if t is None and "name" in x and "args" in x:  # a filter
                self.filter_ctx.setdefault(x["name"], set()).add(fctx)
                self._walk(x["args"], own, fctx)
                return
            if t in ("assign", "capture", "increment", "decrement"):
                own.add(x["name"])
            elif t in ("for", "tablerow"):
                own.add(x["var"])
                self.block_scoped.add(x["var"])
            elif t in ("with", "translate"):
                for a, _ in x.get("args") or []:
                    own.add(a)
                    self.block_scoped.add(a)
            elif t == "macro":
                for a, _ in x["params"]:
                    own.add(a)
                    self.block_scoped.add(a)
            elif t in ("include", "render"):
                pname = x["name"][1]
                (self.included if t == "include" else self.rendered).add(pname)
                prov = self.provided.setdefault(pname, set())
                for a, _ in x.get("args") or []:
                    prov.add(a)
                    self.block_scoped.add(a)
                if x.get("var") is not None:
                    # `with X` / `for XS` binds the alias, or else the template's stem name - never both
                    prov.add("forloop")
                    if x.get("alias"):
                        prov.add(x["alias"])
                        self.block_scoped.add(x["alias"])
                    else:
                        prov.add(pname.split(".")[0])
                self.bound |= prov
            for v in x.values():
                if isinstance(v, (list, dict)):
                    self._walk(v, own, fctx)
        elif isinstance(x, list):
            if x and isinstance(x[0], str):
                k = x[0]
                if k == "lambda" and len(x) == 3 and isinstance(x[1], list):
                    own.update(x[1])
                    self.block_scoped.update(x[1])
                elif k == "kwlambda" and len(x) == 4:
                    own.update(x[2])
                    self.block_scoped.update(x[2])
                elif k == "ternary" and len(x) == 6:
                    _, left, cond, alt, filters, tail = x
                    if left[0] == "filtered":
                        self._walk(left[1], own, fctx)
                        self._walk(left[2], own, "ternary-left")
                    else:
                        self._walk(left, own, fctx)
                    self._walk(cond, own, "ternary-condition")
                    self._walk(alt, own, fctx)
                    self._walk(filters, own, "ternary-alternative")
                    self._walk(tail, own, "ternary-tail")
                    return
                elif k == "tstr":
                    self._walk(x[1], own, "template-string" if fctx == "plain" else fctx)
                    return
            for v in x:
                self._walk(v, own, fctx)


# --------------------------------------------------------------------------- runtime recording


class Rec:
    def __init__(self, facts: Facts) -> None:
        self.facts = facts
        self.lookups: dict[tuple[str, tuple[Any, ...]], tuple[str, str]] = {}
        self.global_keys: dict[str, set[str | None]] = {}
        self.global_found: set[str] = set()
        self.gl_count = 0
        self.filters: dict[str, str] = {}
        self.tags: dict[str, str] = {}
        self.assigned: dict[str, str] = {}
        self.executed: set[tuple[str, int]] = set()
        self.node_stack: list[str] = []
        self.tmpl_stack: list[str] = []
        self.block_scoped_hit = False

    def where(self) -> str:
        return self.node_stack[-1] if self.node_stack else "?"

    def lookup(self, ctx: Any, path: list[Any], token: Any) -> None:
        root = path[0]
        if isinstance(token, PathToken) and len(token.path) == len(path):
            shape = tuple(WILD if isinstance(t, PathToken) else p for t, p in zip(token.path, path))
        else:
            shape = tuple(path)
        try:
            key = (root, shape)
            if key not in self.lookups:
                self.lookups[key] = (ctx.template.name, self.where())
        except TypeError:  # unhashable segment: cannot be a literal one
            self.lookups.setdefault((root, (root,)), (ctx.template.name, self.where()))


class LogMap(Mapping[str, object]):
    def __init__(self, data: dict[str, Any], rec: Rec) -> None:
        self._d = data
        self._rec = rec

    def __getitem__(self, key: str) -> object:
        rec = self._rec
        rec.gl_count += 1
        rec.global_keys.setdefault(key, set()).add(rec.tmpl_stack[-1] if rec.tmpl_stack else None)
        val = self._d[key]
        rec.global_found.add(key)
        return val

    def __iter__(self) -> Iterator[str]:
        return iter(self._d)

    def __len__(self) -> int:
        return len(self._d)


class FilterProxy:
    """Callable that records its invocation; everything else is delegated."""

    def __init__(self, name: str, func: Any, holder: list[Rec | None]) -> None:
        self.__dict__["_name"] = name
        self.__dict__["_func"] = func
        self.__dict__["_holder"] = holder

    def __call__(self, *args: Any, **kwargs: Any) -> Any:
        rec = self._holder[0]
        if rec is not None and self._name not in rec.filters:
            rec.filters[self._name] = rec.where()
        return self._func(*args, **kwargs)

    def __getattr__(self, attr: str) -> Any:
        return getattr(self.__dict__["_func"], attr)


class Patches:
    """Class-level instrumentation, active only inside the `with` block."""

    def __init__(self, rec: Rec) -> None:
        self.rec = rec

    def __enter__(self) -> "Patches":  # noqa: PLR0915
        rec = self.rec
        self.saved = (RenderContext.get, RenderContext.get_async, RenderContext.resolve, RenderContext.assign,
                      Node.render, Node.render_async)
        o_get, o_get_async, o_resolve, o_assign, o_render, o_render_async = self.saved
        block_scoped = rec.facts.block_scoped

        def _after(root: Any, before: int) -> None:
            if rec.gl_count == before and root in block_scoped:
                rec.block_scoped_hit = True

        def get(self: Any, path: list[object], *, token: Any, default: object = UNDEFINED) -> object:
            rec.lookup(self, path, token)
            before = rec.gl_count
            rec.tmpl_stack.append(self.template.name)
            try:
                return o_get(self, path, token=token, default=default)
            finally:
                rec.tmpl_stack.pop()
                _after(path[0], before)

        async def get_async(self: Any, path: list[object], *, token: Any,
                            default: object = UNDEFINED) -> object:
            rec.lookup(self, path, token)
            before = rec.gl_count
            rec.tmpl_stack.append(self.template.name)
            try:
                return await o_get_async(self, path, token=token, default=default)
            finally:
                rec.tmpl_stack.pop()
                _after(path[0], before)

        def resolve(self: Any, name: str, default: object = UNDEFINED) -> object:
            rec.lookup(self, [name], None)
            rec.tmpl_stack.append(self.template.name)
            try:
                return o_resolve(self, name, default)
            finally:
                rec.tmpl_stack.pop()

        def assign(self: Any, key: str, val: object) -> None:
            rec.assigned.setdefault(key, rec.where())
            return o_assign(self, key, val)

        def _enter(node: Any) -> None:
            tok = node.token
            if tok.type_ in (TokenType.TAG, TokenType.LINES) and not isinstance(node, EXCLUDED_NODES):
                if tok.name not in rec.tags:
                    rec.tags[tok.name] = type(node).__name__
                rec.executed.add((tok.source, tok.start))
            rec.node_stack.append(type(node).__name__)

        def render(self: Any, context: Any, buffer: Any) -> int:
            _enter(self)
            try:
                return o_render(self, context, buffer)
            finally:
                rec.node_stack.pop()

        async def render_async(self: Any, context: Any, buffer: Any) -> int:
            _enter(self)
            try:
                return await o_render_async(self, context, buffer)
            finally:
                rec.node_stack.pop()

        RenderContext.get = get  # type: ignore[method-assign]
        RenderContext.get_async = get_async  # type: ignore[method-assign]
        RenderContext.resolve = resolve  # type: ignore[method-assign]
        RenderContext.assign = assign  # type: ignore[method-assign]
        Node.render = render  # type: ignore[method-assign]
        Node.render_async = render_async  # type: ignore[method-assign]
        return self

    def __exit__(self, *exc: object) -> None:
        (RenderContext.get, RenderContext.get_async, RenderContext.resolve, RenderContext.assign,  # type: ignore[method-assign]
         Node.render, Node.render_async) = self.saved  # type: ignore[method-assign]


# --------------------------------------------------------------------------- report helpers


def shape_of(segments: list[Any]) -> tuple[Any, ...]:
    return tuple(WILD if isinstance(s, list) else s for s in segments)


def seg_list(t: Any) -> Any:
    return [seg_list(s) for s in t] if isinstance(t, tuple) else t


def canon(an: Any) -> dict[str, Any]:
    """JSON-able rendering of a TemplateAnalysis *including* spans (Variable.__eq__ ignores them)."""
    out: dict[str, Any] = {}
    for fld in ("variables", "globals", "locals"):
        out[fld] = {k: [[v.segments, v.span.template_name, v.span.start, v.span.end] for v in vs]
                    for k, vs in getattr(an, fld).items()}
    for fld in ("filters", "tags"):
        out[fld] = {k: [[s.template_name, s.start, s.end] for s in vs] for k, vs in getattr(an, fld).items()}
    return out


_LEX_ENV: Any = None
_RELEX: dict[str, Any] = {}


def relex(text: str) -> Any:
    """Segments the text denotes when lexed as an output expression, or None."""
    global _LEX_ENV
    if text in _RELEX:
        return _RELEX[text]
    if _LEX_ENV is None:
        _LEX_ENV = make_env({}, shopify=True)
    got: Any = None
    try:
        toks = tokenize(_LEX_ENV, "{{ " + text + " }}")
        if len(toks) == 1 and isinstance(toks[0], OutputToken) and len(toks[0].expression) == 1:
            tok = toks[0].expression[0]
            if isinstance(tok, PathToken):
                got = seg_list(Path(tok, tok.path).segments())
            elif isinstance(tok, Token) and tok.type_ == TokenType.WORD:
                got = [tok.value]
    except LiquidError:
        got = None
    if len(_RELEX) > 20000:
        _RELEX.clear()
    _RELEX[text] = got
    return got


def tag_tokens(env: Any, src: str) -> set[tuple[int, int, str]]:
    out: set[tuple[int, int, str]] = set()
    for tok in tokenize(env, src):
        if isinstance(tok, TagToken):
            out.add((tok.start, tok.stop, tok.name))
        elif isinstance(tok, LinesToken):
            out.add((tok.start, tok.stop, tok.name))
            for st_ in tok.statements:
                if isinstance(st_, TagToken):
                    out.add((st_.start, st_.stop, st_.name))
    return out


RE_TAG_OPEN = re.compile(r"\{%[-+~]?\s*")


# --------------------------------------------------------------------------- the property


class C11(Prop):
    id = "C11"
    title = "Static analysis over-approximates runtime usage and reports exact locations"
    technique = ("property-based testing: instrumented renders (lookup / global-mapping / filter / node traces) vs one "
                 "static report; span slices re-lexed; sync vs async report equality")
    rule = (
        "grammar programs (partials via include/render with literal names, macros, lambdas, with, liquid tags, three "
        "comment kinds, captures, case, tablerow, ternaries, template strings, translate) optionally distributed into "
        "block overrides of a generated extends chain (base [<- mid] <- main), printed with a random layout; each is "
        "rendered with 1-3 drawn data sets + booleans-flipped + lists-emptied + one rich fixed data set (two of them "
        "also async) and analysed once; non-trivial when >= 1 partial or parent template is analysed, >= 1 "
        "block-scoped name and >= 1 global name are looked up at run time; distinct by SHA-1 of the case"
    )
    assumptions = [
        "runtime usage = calls of RenderContext.get/get_async/resolve, keys requested from the render-argument mapping, "
        "calls of registered filter callables, Node.render calls of nodes with a tag/lines token (same wrapper-node "
        "exclusion as the report)",
        "a looked-up path is compared in full only where the source path has no nested path segment; nested segments "
        "match any reported nested segment",
        "'translations', the translate tag's own optional injection point, is not a template variable and is exempt",
        "a name counts as bound if any template of the program binds it anywhere (flow-insensitive); for partials that "
        "are only ever loaded by {% render %} (isolated scope) only bindings inside the partial and names provided by "
        "its render tags count",
        "names assigned at run time (RenderContext.assign) are expected in analysis.locals (same soundness direction; "
        "auxiliary oracle)",
        "%(name)s placeholders inside translated string data are not generated",
    ]
    batch = 250

    def n_random(self, tier: str) -> int:
        return 8000 if tier == "quick" else 200000

    def strategy(self, tier: str, disabled: frozenset[str]):
        return case_strategy()

    def budget_s(self, tier: str) -> float:
        return 200 if tier == "quick" else 3000

    def enumerate(self, tier: str, disabled: frozenset[str]):
        """A partial that cannot be loaded (in a branch the data never takes) next to partials that can: the helper
        methods either refuse (raise) or give the complete report - what this render looks up is known by
        construction."""
        parts = {"p": "{{ pv | upcase }}{% assign q = 1 %}{% render 'r', x: pw %}", "r": "{{ x | downcase }}{{ rv }}",
                 "base": "{% block b %}{{ bv }}{% endblock %}"}
        for gone in ("{% include 'gone' %}", "{% render 'gone' %}", "{% include nosuch_name %}",
                     "{% include 'gone' for xs %}"):
            for rest, vars_, filters, tags in (
                ("{% include 'p' %}{{ a | size }}", {"a", "pv", "pw", "rv"}, {"upcase", "downcase", "size"},
                 {"include", "assign", "render"}),
                ("{% render 'r', x: a %}", {"a", "rv"}, {"downcase"}, {"render"}),
                ("{% for i in xs %}{% include 'p' %}{% endfor %}", {"xs", "pv", "pw", "rv"}, {"upcase", "downcase"},
                 {"for", "include", "assign", "render"}),
            ):
                yield {"kind": "missing", "src": "{% if nosuch_flag %}" + gone + "{% endif %}" + rest,
                       "templates": parts, "vars": sorted(vars_ | {"nosuch_flag"}), "filters": sorted(filters),
                       "tags": sorted(tags | {"if"})}

    def _check_missing(self, case: Any) -> Result:
        res = Result()
        res.labels.append("missing-partial")
        res.nontrivial = True
        env = make_env(dict(case["templates"]), shopify=True)
        tmpl = env.from_string(case["src"])
        out = tmpl.render(xs=[1])  # the branch with the missing partial is not taken: the render succeeds
        res.evaluations = 1
        for helper, want in (("variables", case["vars"]), ("global_variables", [v for v in case["vars"]]),
                             ("filter_names", case["filters"]), ("tag_names", case["tags"])):
            for mode in ("sync", "async"):
                res.evaluations += 1
                try:
                    got = getattr(tmpl, helper)() if mode == "sync" else run_coro(getattr(tmpl, helper + "_async")())
                except LiquidError:
                    res.labels.append("missing-partial:refused")
                    continue
                lacking = sorted(set(want) - set(got))
                if lacking:
                    res.fail("helpers", f"incomplete-report-with-missing-partial:{helper}",
                             f"{helper}{'_async' if mode == 'async' else ''}() returned {sorted(got)!r} without raising, "
                             f"but the render (output {out!r}) also uses {lacking!r}; src={case['src']!r} "
                             f"templates={case['templates']!r}")
        return res

    # ------------------------------------------------------------------

    def check(self, case: Any, disabled: frozenset[str] = frozenset()) -> Result:  # noqa: PLR0912, PLR0915
        if case.get("kind") == "missing":
            return self._check_missing(case)
        res = Result()
        prog = case["prog"]
        lay = case["layout"]
        if "ternary-left-filters" in disabled:
            prog, stripped = strip_ternary_left(prog)
            if stripped:
                res.excluded.append("ternary-left-filters")
        src = to_source(prog["main"], lay)
        tsrc = {k: to_source(v, lay) for k, v in prog["templates"].items()}
        sources = {"": src, **tsrc}
        # 3 of 4 cases use the caching dict loader (partials are parsed once per case instead of
        # once per load); both are dict loaders, so the async API never really suspends
        caching = lay % 4 != 0
        env = make_env(tsrc, shopify=True, loader=CachingDictLoader(dict(tsrc)) if caching else None)
        holder: list[Rec | None] = [None]
        for fname in list(env.filters):
            env.filters[fname] = FilterProxy(fname, env.filters[fname], holder)
        try:
            tmpl = env.from_string(src)
            for pname in tsrc:  # a partial that does not parse is outside the property
                env.get_template(pname)
        except LiquidError as err:
            res.labels.append("unparsable:" + type(err).__name__)
            return res
        except RecursionError:
            return res
        facts = Facts(prog["main"], prog["templates"])

        # ---- static reports (nothing is recorded while they run)
        an_err: Any = None
        try:
            an = tmpl.analyze()
        except RecursionError:
            return res
        except Exception as err:  # noqa: BLE001
            an = None
            an_err = err
        # ---- instrumented renders
        rec = Rec(facts)
        datas = data_variants(case["datas"])
        evals = 0
        try:
            with Patches(rec):
                holder[0] = rec
                for i, data in enumerate(datas):
                    modes = ("sync", "async") if i in (0, len(datas) - 1) else ("sync",)
                    for mode in modes:
                        evals += 1
                        ctx = RenderContext(tmpl, global_data=LogMap(data, rec))
                        buf = io.StringIO()
                        try:
                            if mode == "sync":
                                tmpl.render_with_context(ctx, buf)
                            else:
                                run_coro(tmpl.render_with_context_async(ctx, buf))
                        except LiquidError as err:
                            res.labels.append("render-error:" + type(err).__name__)
                        except RecursionError:
                            pass
                        except Exception as err:  # noqa: BLE001 - crashes are C02's business
                            res.labels.append("crash:" + exc_bucket(err))
                        finally:
                            del rec.node_stack[:]
                            del rec.tmpl_stack[:]
        finally:
            holder[0] = None
        res.evaluations = evals + 2

        if an is None:
            if rec.lookups or rec.tags or rec.filters:
                res.fail("analyze", "analyze-raises:" + exc_bucket(an_err),
                         f"{type(an_err).__name__}: {an_err}; src={src!r} templates={tsrc!r}")
            return res

        ctxinfo = f"src={src!r} templates={tsrc!r}"

        # ---- O1 soundness: variables, filters, tags
        shapes: dict[str, set[tuple[Any, ...]]] = {}
        for root, vs in an.variables.items():
            shapes[root] = {shape_of(v.segments) for v in vs}
        for (root, shape), (tname, where) in sorted(rec.lookups.items(), key=lambda kv: repr(kv[0])):
            if root in IMPLICIT:
                res.labels.append("implicit-lookup:" + str(root))
                continue
            if root not in an.variables:
                res.fail("O1-variables", f"missing-variable:{where}",
                         f"root {root!r} (path {list(shape)!r}) looked up in template {tname!r} by {where}, "
                         f"not in analysis.variables {sorted(an.variables)!r}; {ctxinfo}")
            elif shape not in shapes[root]:
                res.fail("O1-variables", f"missing-variable-path:{where}",
                         f"path {list(shape)!r} looked up in template {tname!r} by {where}; reported under {root!r}: "
                         f"{[v.segments for v in an.variables[root]]!r}; {ctxinfo}")
        for fname, where in sorted(rec.filters.items()):
            if fname not in an.filters:
                ctxs = facts.filter_ctx.get(fname, {"?"})
                pos = next((c for c in ("ternary-left", "ternary-alternative", "ternary-tail", "ternary-condition",
                                        "template-string") if c in ctxs), "+".join(sorted(ctxs)))
                res.fail("O1-filters", f"missing-filter:{pos}",
                         f"filter {fname!r} invoked (in {where}), analysis.filters={sorted(an.filters)!r}; {ctxinfo}")
        for tname_, where in sorted(rec.tags.items()):
            if tname_ not in an.tags:
                res.fail("O1-tags", f"missing-tag:{tname_}",
                         f"tag {tname_!r} executed ({where}), analysis.tags={sorted(an.tags)!r}; {ctxinfo}")
        for name, where in sorted(rec.assigned.items()):
            if name not in an.locals:
                res.fail("O1-locals", f"missing-local:{where}",
                         f"{name!r} assigned at run time by {where}, analysis.locals={sorted(an.locals)!r}; {ctxinfo}")

        # ---- O2 globals
        gvars: Any = None
        try:
            gvars = tmpl.global_variables()
        except Exception as err:  # noqa: BLE001
            res.fail("helpers", "helper-raises:global_variables", f"{type(err).__name__}: {err}; {ctxinfo}")
        render_only = facts.rendered - facts.included
        for key, where_t in sorted(rec.global_keys.items()):
            if key in IMPLICIT:
                continue
            if key not in facts.bound:
                if key not in an.globals:
                    kind = "unreported" if key not in an.variables else "in-scope"
                    res.fail("O2-globals", f"missing-global:{kind}",
                             f"{key!r} reached the global namespace (templates {sorted(map(str, where_t))!r}), no "
                             f"template binds it, analysis.globals={sorted(an.globals)!r}; {ctxinfo}")
                elif gvars is not None and key not in gvars:
                    res.fail("O2-globals", "missing-global:global_variables()", f"{key!r} not in {gvars!r}; {ctxinfo}")
                continue
            for p in sorted(t for t in where_t if t in render_only):
                local_bound = facts.per_template.get(p, set()) | facts.provided.get(p, set()) | ALWAYS_BOUND
                if key in local_bound:
                    continue
                if not any(v.span.template_name == p for v in an.globals.get(key, [])):
                    res.fail("O2-globals", "missing-global:isolated-partial",
                             f"{key!r} reached the global namespace from {p!r}, which is only ever rendered in an "
                             f"isolated scope and never binds it; globals[{key!r}]="
                             f"{[(v.segments, v.span.template_name) for v in an.globals.get(key, [])]!r}; {ctxinfo}")

        # ---- O3 spans
        self._spans(an, sources, env, res, ctxinfo)

        # ---- O1/O4 helper methods and async twins
        cs = canon(an)
        self._helpers(tmpl, an, cs, res, ctxinfo, lay)
        res.evaluations += 7

        # ---- non-triviality and labels
        other = any(s.template_name != "" for spans in an.tags.values() for s in spans) or any(
            v.span.template_name != "" for vs in an.variables.values() for v in vs)
        glob_hit = any(k in rec.global_found and k in SCHEMA for k in rec.global_keys)
        res.nontrivial = bool(other and rec.block_scoped_hit and glob_hit)
        if any(t in sources for t in ("base",)):
            res.labels.append("extends-chain" + ("-3" if "mid" in sources else "-2"))
        res.labels.append("loader:caching" if caching else "loader:dict")
        if facts.included:
            res.labels.append("include")
        if facts.rendered:
            res.labels.append("render")
        if "translate" in rec.tags:
            res.labels.append("translate-executed")
        reported = {(s.template_name, s.start) for spans in an.tags.values() for s in spans}
        executed = {(next((n for n, t in sources.items() if t == s), "?"), st_) for s, st_ in rec.executed}
        if reported:
            frac = len(reported & executed) / len(reported)
            res.labels.append("tags-executed:" + ("all" if frac == 1 else ">=75%" if frac >= 0.75 else ">=50%" if frac >= 0.5 else "<50%"))
        return res

    # ------------------------------------------------------------------

    def _spans(self, an: Any, sources: dict[str, str], env: Any, res: Result, ctxinfo: str) -> None:  # noqa: PLR0912
        seen: set[str] = set()
        toks: dict[str, set[tuple[int, int, str]]] = {}

        def text_of(span: Any, what: str, bucket: str) -> str | None:
            s = sources.get(span.template_name)
            if s is None:
                res.fail("O3-spans", f"span-template:{bucket}",
                         f"{what}: template_name {span.template_name!r} is not a template of the program "
                         f"({sorted(sources)!r}); {ctxinfo}")
                return None
            if not (0 <= span.start < span.end <= len(s)):
                res.fail("O3-spans", f"span-bounds:{bucket}",
                         f"{what}: [{span.start}:{span.end}] outside source {span.template_name!r} of length {len(s)}; {ctxinfo}")
                return None
            return s[span.start:span.end]

        for fld in ("variables", "globals", "locals"):
            for root, vs in getattr(an, fld).items():
                for v in vs:
                    key = jdump([v.segments, v.span.template_name, v.span.start, v.span.end])
                    if key in seen:
                        continue
                    seen.add(key)
                    if not v.segments or str(v.segments[0]) != root:
                        res.fail("O3-spans", f"variable-key:{fld}", f"{v.segments!r} filed under {root!r}; {ctxinfo}")
                        continue
                    text = text_of(v.span, f"{fld} {v.segments!r}", f"variable:{fld}")
                    if text is None:
                        continue
                    got = relex(text)
                    if got != v.segments and fld == "locals":
                        # a name written as a string literal ({% increment "n" %}): the span is the
                        # literal's content between its quotes
                        s_ = sources[v.span.template_name]
                        q = s_[v.span.start - 1] if v.span.start > 0 else ""
                        if q in ("'", '"') and s_[v.span.end:v.span.end + 1] == q:
                            got = relex("[" + q + text + q + "]")
                    if got != v.segments:
                        res.fail("O3-spans", f"span-variable:{fld}",
                                 f"{v.segments!r} reported at {v.span.template_name!r}[{v.span.start}:{v.span.end}] = "
                                 f"{text!r} which lexes to {got!r}; {ctxinfo}")
        for name, spans in an.filters.items():
            for sp in spans:
                text = text_of(sp, f"filter {name!r}", "filter")
                if text is not None and text != name:
                    res.fail("O3-spans", "span-filter",
                             f"filter {name!r} reported at {sp.template_name!r}[{sp.start}:{sp.end}] = {text!r}; {ctxinfo}")
        for name, spans in an.tags.items():
            for sp in spans:
                text = text_of(sp, f"tag {name!r}", f"tag:{name}")
                if text is None:
                    continue
                if sp.template_name not in toks:
                    toks[sp.template_name] = tag_tokens(env, sources[sp.template_name])
                ok = (sp.start, sp.end, name) in toks[sp.template_name]
                if ok:
                    if text.startswith("{%"):
                        m = RE_TAG_OPEN.match(text)
                        ok = bool(m) and text[m.end():].startswith(name) and text.endswith("%}")
                    else:  # a line statement: one line, without the closing delimiter of the liquid tag
                        ok = text.startswith(name) and "\n" not in text.rstrip("\n") and not text.rstrip().endswith("%}")
                if not ok:
                    res.fail("O3-spans", f"span-tag:{name}",
                             f"tag {name!r} reported at {sp.template_name!r}[{sp.start}:{sp.end}] = {text!r}; {ctxinfo}")

    def _helpers(self, tmpl: Any, an: Any, cs: dict[str, Any], res: Result, ctxinfo: str, rot: int) -> None:
        def segset(vs: Any) -> set[str]:
            return {jdump(s) for s in vs}

        allv = [v for vs in an.variables.values() for v in vs]
        allg = [v for vs in an.globals.values() for v in vs]
        want: dict[str, Any] = {
            "variables": set(an.variables),
            "variable_paths": {str(v) for v in allv},
            "variable_segments": segset(v.segments for v in allv),
            "global_variables": set(an.globals),
            "global_variable_paths": {str(v) for v in allg},
            "global_variable_segments": segset(v.segments for v in allg),
            "filter_names": set(an.filters),
            "tag_names": set(an.tags),
        }

        def norm(name: str, val: Any) -> Any:
            if name.endswith("_segments"):
                return segset(val)
            return set(val)

        try:
            an_async = run_coro(tmpl.analyze_async())
        except Exception as err:  # noqa: BLE001
            res.fail("O4-async", "async-differs:raises", f"analyze_async: {type(err).__name__}: {err}; {ctxinfo}")
            an_async = None
        if an_async is not None:
            ca = canon(an_async)
            for fld in ("variables", "globals", "locals", "filters", "tags"):
                if ca[fld] != cs[fld]:
                    res.fail("O4-async", f"async-differs:{fld}", f"sync={cs[fld]!r} async={ca[fld]!r}; {ctxinfo}")
        # every helper is a one-liner over analyze(): global_variables (used by O2) is checked on every
        # case, the other seven in rotation (3 per case), each with its async twin
        names = list(want)
        others = [n for n in names if n != "global_variables"]
        chosen = ["global_variables", *(others[(rot + k) % len(others)] for k in (0, 3, 5))]
        for name in chosen:
            w = want[name]
            try:
                got = norm(name, getattr(tmpl, name)())
                got_async = norm(name, run_coro(getattr(tmpl, name + "_async")()))
            except Exception as err:  # noqa: BLE001
                res.fail("helpers", f"helper-raises:{name}", f"{type(err).__name__}: {err}; {ctxinfo}")
                continue
            if got != w:
                res.fail("helpers", f"helper-differs:{name}", f"{name}()={sorted(got)!r} analysis={sorted(w)!r}; {ctxinfo}")
            if got_async != got:
                res.fail("O4-async", f"async-differs:{name}",
                         f"{name}()={sorted(got)!r} {name}_async()={sorted(got_async)!r}; {ctxinfo}")

    def sample(self, case: Any) -> Any:
        if case.get("kind") == "missing":
            return {"kind": "missing", "src": case["src"]}
        lay = case["layout"]
        return {"src": to_source(case["prog"]["main"], lay)[:300],
                "templates": {k: to_source(v, lay)[:120] for k, v in case["prog"]["templates"].items()},
                "data_sets": len(case["datas"]) + 3}


PROP = C11()
